package main

import (
	"fmt"
	"strings"

	flags "github.com/jessevdk/go-flags"
)

// unitCase: direct call of one (hook-exposed or stdlib) function.
type unitCase struct {
	Fn   string   `json:"fn"`
	S    []string `json:"s"` // string arguments (latin-1 coded bytes)
	N    []int64  `json:"n"` // integer arguments
}

func runUnit(c *unitCase) (res string) {
	defer func() {
		if r := recover(); r != nil {
			res = "PANIC"
		}
	}()
	s := l1decs(c.S)
	switch c.Fn {
	case "lev":
		return fmt.Sprintf("%d", flags.VerifLevenshtein(s[0], s[1]))
	case "closest":
		ch, d := flags.VerifClosestChoice(s[0], s[1:])
		return fmt.Sprintf("%s:%d", hexs(ch), d)
	case "wrap":
		return hexs(flags.VerifWrapText(s[0], int(c.N[0]), s[1]))
	default:
		return unitMore(c, s)
	}
}

var _ = strings.Join
