package main

import (
	"bytes"
	"fmt"
	"os"
	"strings"

	flags "github.com/jessevdk/go-flags"
)

func (r *runner) runOpMore(p *flags.Parser, op *OpSpec, or *OpResult) {
	switch op.Op {
	case "hide":
		// the program changes Command.Hidden between operations
		cmdAt(p, op.Path).Hidden = op.Hidden
		or.Err = "nil"
		or.Ret = "nil"
	case "observe":
		// nothing happens: only the observations are taken
		or.Err = "nil"
		or.Ret = "nil"
	case "attach":
		// AddGroup / AddCommand / AddOption in the middle of a history
		err, pan := r.applyAttach(p, op.Attach)
		if pan != nil {
			panic(pan)
		}
		or.Err = renderErr(err)
		or.Ret = "nil"
	case "ini":
		ip := flags.NewIniParser(p)
		ip.ParseAsDefaults = op.Ini.AsDefaults
		err := ip.Parse(strings.NewReader(l1dec(op.Ini.Text)))
		or.Err = renderErr(err)
		or.Ret = "nil"
	case "writeini":
		ip := flags.NewIniParser(p)
		var b bytes.Buffer
		ip.Write(&b, flags.IniOptions(op.IniOpts))
		or.Err = "nil"
		or.Ret = "nil"
		or.Bytes = hexs(b.String())
	case "complete":
		os.Setenv("GO_FLAGS_COMPLETION", "1")
		defer os.Unsetenv("GO_FLAGS_COMPLETION")
		called := false
		var items []flags.Completion
		p.CompletionHandler = func(it []flags.Completion) {
			called = true
			items = it
		}
		ret, err := p.ParseArgs(l1decs(op.Args))
		or.Err = renderErr(err)
		or.Ret = hexList(ret)
		if !called {
			or.Items = "none"
		} else {
			parts := make([]string, len(items))
			for i, it := range items {
				parts[i] = hexs(it.Item) + ":" + hexs(it.Description)
			}
			or.Items = strings.Join(parts, ";")
		}
	case "inspect":
		or.Err, or.Ret = "nil", "nil"
		or.Model = inspectCmd(p.Command)
	case "help":
		var b bytes.Buffer
		p.WriteHelp(&b)
		or.Err, or.Ret, or.Bytes = "nil", "nil", hexs(b.String())
	case "man":
		var b bytes.Buffer
		p.WriteManPage(&b)
		or.Err, or.Ret, or.Bytes = "nil", "nil", hexs(b.String())
	default:
		or.Err = "UNKNOWN-OP"
	}
}

func hl(a []string) string {
	parts := make([]string, len(a))
	for i, s := range a {
		parts[i] = hexs(s)
	}
	return strings.Join(parts, ",")
}

func bb(b bool) string {
	if b {
		return "1"
	}
	return "0"
}

func inspectGroup(g *flags.Group) string {
	var sb strings.Builder
	sb.WriteString("G(" + strings.Join([]string{hexs(g.ShortDescription), hexs(g.LongDescription), hexs(g.Namespace), hexs(g.EnvNamespace), bb(g.Hidden)}, ";") + "){")
	for _, o := range g.Options() {
		sb.WriteString("O(" + strings.Join([]string{hexs(o.Field().Name), hexs(o.Description), fmt.Sprintf("%d", o.ShortName), hexs(o.LongName),
			hl(o.Default), hexs(o.EnvDefaultKey), hexs(o.EnvDefaultDelim), bb(o.OptionalArgument), hl(o.OptionalValue), bb(o.Required),
			hexs(o.ValueName), hexs(o.DefaultMask), hl(o.Choices), bb(o.Hidden),
			hexs(o.LongNameWithNamespace()), hexs(o.EnvKeyWithNamespace()), hexs(o.String())}, ";") + ")")
	}
	for _, sg := range g.Groups() {
		sb.WriteString(inspectGroup(sg))
	}
	sb.WriteString("}")
	return sb.String()
}

func inspectCmd(c *flags.Command) string {
	var sb strings.Builder
	sb.WriteString("C(" + strings.Join([]string{hexs(c.Name), hl(c.Aliases), bb(c.SubcommandsOptional), bb(c.ArgsRequired)}, ";") + ")[")
	for _, a := range c.Args() {
		sb.WriteString("A(" + strings.Join([]string{hexs(a.Name), hexs(a.Description), fmt.Sprintf("%d", a.Required), fmt.Sprintf("%d", a.RequiredMaximum)}, ";") + ")")
	}
	sb.WriteString("]")
	sb.WriteString(inspectGroup(c.Group))
	sb.WriteString("<")
	for _, sc := range c.Commands() {
		sb.WriteString(inspectCmd(sc))
	}
	sb.WriteString(">")
	return sb.String()
}
