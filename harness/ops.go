package main

import (
	flags "github.com/jessevdk/go-flags"
)

func (r *runner) runOpMore(p *flags.Parser, op *OpSpec, or *OpResult) {
	or.Err = "UNKNOWN-OP"
}
