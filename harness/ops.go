package main

import (
	"bytes"
	"strings"

	flags "github.com/jessevdk/go-flags"
)

func (r *runner) runOpMore(p *flags.Parser, op *OpSpec, or *OpResult) {
	switch op.Op {
	case "ini":
		ip := flags.NewIniParser(p)
		ip.ParseAsDefaults = op.Ini.AsDefaults
		err := ip.Parse(strings.NewReader(l1dec(op.Ini.Text)))
		or.Err = renderErr(err)
		or.Ret = "nil"
	case "writeini":
		ip := flags.NewIniParser(p)
		var b bytes.Buffer
		ip.Write(&b, flags.IniOptions(op.IniOpts))
		or.Err = "nil"
		or.Ret = "nil"
		or.Bytes = hexs(b.String())
	case "help":
		var b bytes.Buffer
		p.WriteHelp(&b)
		or.Err, or.Ret, or.Bytes = "nil", "nil", hexs(b.String())
	case "man":
		var b bytes.Buffer
		p.WriteManPage(&b)
		or.Err, or.Ret, or.Bytes = "nil", "nil", hexs(b.String())
	default:
		or.Err = "UNKNOWN-OP"
	}
}
