package main

import (
	"reflect"
	"fmt"
	"sort"
	"strconv"
	"strings"
	"time"

	flags "github.com/jessevdk/go-flags"
)

func okErr(v string, err error) string {
	if err != nil {
		return "err:" + hexs(err.Error())
	}
	return "ok:" + v
}

func unitMore(c *unitCase, s []string) string {
	switch c.Fn {
	case "quote":
		return hexs(strconv.Quote(s[0]))
	case "unquote":
		v, err := strconv.Unquote(s[0])
		return okErr(hexs(v), err)
	case "unquoteif":
		v, err := flags.VerifUnquoteIfPossible(s[0])
		return okErr(hexs(v), err)
	case "quoteif":
		return hexs(flags.VerifQuoteIfNeeded(s[0]))
	case "convert":
		// go-flags' own convert() on one scalar: s = [text, kind, raw tag]
		tp := kindType(s[1])
		v := reflect.New(tp).Elem()
		if err := flags.VerifConvert(s[0], v, s[2]); err != nil {
			return "ERR"
		}
		return "OK:" + renderValue(v, &TypeSpec{K: s[1]})
	case "parseint":
		v, err := strconv.ParseInt(s[0], int(c.N[0]), int(c.N[1]))
		return okErr(fmt.Sprintf("%d", v), err)
	case "parseuint":
		v, err := strconv.ParseUint(s[0], int(c.N[0]), int(c.N[1]))
		return okErr(fmt.Sprintf("%d", v), err)
	case "parsebool":
		v, err := strconv.ParseBool(s[0])
		return okErr(fmt.Sprintf("%v", v), err)
	case "formatint":
		return strconv.FormatInt(c.N[0], int(c.N[1]))
	case "parsefloat":
		v, err := strconv.ParseFloat(s[0], int(c.N[0]))
		return okErr(hexs(strconv.FormatFloat(v, 'g', -1, int(c.N[0]))), err)
	case "parsedur":
		v, err := time.ParseDuration(s[0])
		return okErr(fmt.Sprintf("%d", int64(v)), err)
	case "fmtdur":
		return hexs(time.Duration(c.N[0]).String())
	case "trimspace":
		return hexs(strings.TrimSpace(s[0]))
	case "tolower":
		return hexs(strings.ToLower(s[0]))
	case "isopt":
		return fmt.Sprintf("%v", flags.VerifArgumentIsOption(s[0]))
	case "scantag":
		m, err := flags.VerifScanTag(s[0])
		if err != nil {
			fe, ok := err.(*flags.Error)
			if !ok {
				return "err:?"
			}
			return fmt.Sprintf("err:%d:%s", fe.Type, hexs(fe.Message))
		}
		keys := make([]string, 0, len(m))
		for k := range m {
			keys = append(keys, k)
		}
		sort.Strings(keys)
		var sb strings.Builder
		sb.WriteString("ok:")
		for _, k := range keys {
			sb.WriteString(hexs(k))
			sb.WriteString("=")
			for i, v := range m[k] {
				if i > 0 {
					sb.WriteString(",")
				}
				sb.WriteString(hexs(v))
			}
			sb.WriteString(";")
		}
		return sb.String()
	}
	return "UNKNOWN-FN"
}
