package main

import (
	"unicode/utf8"
	"errors"
	"fmt"
	"io"
	"os"
	"reflect"
	"sort"
	"strconv"
	"strings"
	"time"

	flags "github.com/jessevdk/go-flags"
)

// ---------------------------------------------------------------- wire types

type TypeSpec struct {
	K     string      `json:"k,omitempty"`
	Ptr   string      `json:"ptr,omitempty"`
	Slice *TypeSpec   `json:"slice,omitempty"`
	Map   []string    `json:"map,omitempty"`
	Func  *FuncSpec   `json:"func,omitempty"`
}

type FuncSpec struct {
	Arg string `json:"arg"` // "" = no argument
	Err bool   `json:"err"`
}

type StructSpec struct {
	Ptr    bool        `json:"ptr"`
	Nil    bool        `json:"nil"`
	Fields []FieldSpec `json:"fields"`
	Sid    int         `json:"sid"`
}

type FieldSpec struct {
	Name     string      `json:"name"`
	Exported bool        `json:"exported"`
	Tag      string      `json:"tag"`
	Type     *TypeSpec   `json:"type,omitempty"`
	Fid      int         `json:"fid"`
	Struct   *StructSpec `json:"struct,omitempty"`
}

type ValueSpec struct {
	B  *bool          `json:"b,omitempty"`
	I  *string        `json:"i,omitempty"`
	S  *string        `json:"s,omitempty"`
	F  *string        `json:"f,omitempty"`
	P  *PtrSpec       `json:"p,omitempty"`
	L  *ListSpec      `json:"l,omitempty"`
	M  *MapSpec       `json:"m,omitempty"`
	Fn *FnSpec        `json:"fn,omitempty"`
}
type PtrSpec struct {
	V *ValueSpec `json:"v"`
}
type ListSpec struct {
	Nil bool        `json:"nil"`
	V   []ValueSpec `json:"v"`
}
type MapSpec struct {
	Nil bool           `json:"nil"`
	V   [][2]ValueSpec `json:"v"`
}
type FnSpec struct {
	Nil   bool `json:"nil"`
	Fails bool `json:"fails"`
}

type OptsSpec struct {
	Help      bool `json:"help"`
	PassDD    bool `json:"passdd"`
	Ignore    bool `json:"ignore"`
	Print     bool `json:"print"`
	PassAfter bool `json:"passafter"`
}

type CfgSpec struct {
	Name       string      `json:"name"`
	Opts       OptsSpec    `json:"opts"`
	NsDelim    string      `json:"nsdelim"`
	EnvDelim   string      `json:"envdelim"`
	Handler    string      `json:"handler"`
	CmdHandler bool        `json:"cmdhandler"`
	Usage      string      `json:"usage"`
	Env        [][2]string `json:"env"`
	Cols       int         `json:"cols"`
	Tty        bool        `json:"tty"`
	SubOpt     bool        `json:"subopt"`
	ShortDesc  string      `json:"shortdesc"`
	LongDesc   string      `json:"longdesc"`
}

type ExecSpec struct {
	Err *string `json:"err"`
}

type AttachSpec struct {
	Kind    string      `json:"kind"`
	Path    []int       `json:"path"`
	Name    string      `json:"name"`
	Short   string      `json:"short"`
	Long    string      `json:"long"`
	Fields  []FieldSpec `json:"fields"`
	Ns      string      `json:"ns"`
	EnvNs   string      `json:"envns"`
	Hidden  bool        `json:"hidden"`
	Exec    *ExecSpec   `json:"exec"`
	Usage   *string     `json:"usage"`
	Aliases []string    `json:"aliases"`
	SubOpt  bool        `json:"subopt"`
}

type IniOpSpec struct {
	Text       string `json:"text"`
	AsDefaults bool   `json:"asdefaults"`
}

type OpSpec struct {
	Op       string     `json:"op"`
	Args     []string   `json:"args"`
	Ini      *IniOpSpec `json:"ini,omitempty"`
	IniOpts  int        `json:"iniopts"`
	Complete string     `json:"complete"`
	Attach   *AttachSpec `json:"attach,omitempty"`
	Path     []int       `json:"path,omitempty"`
	Hidden   bool        `json:"hidden,omitempty"`
}

type Scenario struct {
	Cfg    CfgSpec              `json:"cfg"`
	Data   []FieldSpec          `json:"data"`
	HasData bool                `json:"hasdata"`
	Attach []AttachSpec         `json:"attach"`
	Init   map[string]ValueSpec `json:"init"`
	Ops    []OpSpec             `json:"ops"`
	Repeat int                  `json:"repeat"`
}

// ---------------------------------------------------------------- harness-defined types

// Custom implements Unmarshaler (pointer receiver) and Marshaler (value receiver).
type Custom string

func reverseBytes(s string) string {
	b := []byte(s)
	for i, j := 0, len(b)-1; i < j; i, j = i+1, j-1 {
		b[i], b[j] = b[j], b[i]
	}
	return string(b)
}

// UnmarshalFlag stores the bytes of the argument in reverse order (so that the use
// of the custom conversion is observable); MarshalFlag is its inverse.
func (c *Custom) UnmarshalFlag(v string) error {
	if strings.HasPrefix(v, "!") {
		return errors.New("custom: rejected " + v)
	}
	*c = Custom(reverseBytes(v))
	return nil
}

func (c Custom) MarshalFlag() (string, error) {
	return reverseBytes(string(c)), nil
}

// Comp implements Completer (pointer receiver); otherwise a plain string.
type Comp string

var compWords = []string{"alpha", "alpine", "beta", "be ta", "gamma", "-dash", "--ddash"}

// UnmarshalFlag has a pointer receiver and Comp has no value-receiver method at all: the value type's method set is
// empty, so go-flags finds the Unmarshaler only through the address of the field.
func (c *Comp) UnmarshalFlag(v string) error {
	if strings.HasPrefix(v, "!") {
		return errors.New("comp: rejected " + v)
	}
	*c = Comp(v)
	return nil
}

func (c *Comp) Complete(match string) []flags.Completion {
	var ret []flags.Completion
	for _, w := range compWords {
		if strings.HasPrefix(w, match) {
			ret = append(ret, flags.Completion{Item: w, Description: "desc " + w})
		}
	}
	return ret
}

// ExecCmd is the data of an executable command added with AddCommand.
type ExecCmd struct {
	run *runner
	id  string
	err *string
}

func (e *ExecCmd) Execute(args []string) error {
	e.run.execLog = append(e.run.execLog, "E:"+e.id+":"+hexList(args))
	if e.err != nil {
		return errors.New(*e.err)
	}
	return nil
}

// ExecUsageCmd additionally implements Usage.
type ExecUsageCmd struct {
	ExecCmd
	usage string
}

func (e *ExecUsageCmd) Usage() string { return e.usage }

// UsageOnly implements Usage but not Commander.
type UsageOnly struct {
	usage string
}

func (e *UsageOnly) Usage() string { return e.usage }

// ---------------------------------------------------------------- type construction

func kindType(k string) reflect.Type {
	switch k {
	case "bool":
		return reflect.TypeOf(false)
	case "int":
		return reflect.TypeOf(int(0))
	case "int8":
		return reflect.TypeOf(int8(0))
	case "int16":
		return reflect.TypeOf(int16(0))
	case "int32":
		return reflect.TypeOf(int32(0))
	case "int64":
		return reflect.TypeOf(int64(0))
	case "uint":
		return reflect.TypeOf(uint(0))
	case "uint8":
		return reflect.TypeOf(uint8(0))
	case "uint16":
		return reflect.TypeOf(uint16(0))
	case "uint32":
		return reflect.TypeOf(uint32(0))
	case "uint64":
		return reflect.TypeOf(uint64(0))
	case "float32":
		return reflect.TypeOf(float32(0))
	case "float64":
		return reflect.TypeOf(float64(0))
	case "string":
		return reflect.TypeOf("")
	case "duration":
		return reflect.TypeOf(time.Duration(0))
	case "custom":
		return reflect.TypeOf(Custom(""))
	case "comp":
		return reflect.TypeOf(Comp(""))
	}
	panic("harness: unknown kind " + k)
}

var errorType = reflect.TypeOf((*error)(nil)).Elem()

func buildType(t *TypeSpec) reflect.Type {
	switch {
	case t.K != "":
		return kindType(t.K)
	case t.Ptr != "":
		return reflect.PtrTo(kindType(t.Ptr))
	case t.Slice != nil:
		return reflect.SliceOf(buildType(t.Slice))
	case t.Map != nil:
		return reflect.MapOf(kindType(t.Map[0]), kindType(t.Map[1]))
	case t.Func != nil:
		var in, out []reflect.Type
		if t.Func.Arg != "" {
			in = []reflect.Type{kindType(t.Func.Arg)}
		}
		if t.Func.Err {
			out = []reflect.Type{errorType}
		}
		return reflect.FuncOf(in, out, false)
	}
	panic("harness: bad type spec")
}

func buildStruct(fields []FieldSpec) reflect.Type {
	sf := make([]reflect.StructField, 0, len(fields))
	for _, f := range fields {
		var tp reflect.Type
		if f.Struct != nil {
			tp = buildStruct(f.Struct.Fields)
			if f.Struct.Ptr {
				tp = reflect.PtrTo(tp)
			}
		} else {
			tp = buildType(f.Type)
		}
		x := reflect.StructField{Name: l1dec(f.Name), Type: tp, Tag: reflect.StructTag(l1dec(f.Tag))}
		if !f.Exported {
			x.PkgPath = "main"
		}
		sf = append(sf, x)
	}
	return reflect.StructOf(sf)
}

// ---------------------------------------------------------------- runner

type leaf struct {
	fid  int
	root reflect.Value // addressable struct value
	path []int
	spec *TypeSpec
}

type structRef struct {
	sid  int
	root reflect.Value
	path []int
	nil0 bool
}

type runner struct {
	sc       *Scenario
	leaves   []leaf
	structs  []structRef
	callLog  []string
	execLog  []string
	unkLog   []string
	cmdIDs   map[flags.Commander]string
	prepared map[*AttachSpec]*preparedAttach
}

// preparedAttach holds the data object of an attach operation. Attach operations in the middle of a
// history are prepared at setup, so that every leaf is observable (with its initial value) from the start.
type preparedAttach struct {
	data interface{}   // struct data of AddGroup / AddCommand
	x    reflect.Value // target variable of AddOption
}

func (r *runner) prepare(a *AttachSpec) *preparedAttach {
	if pa := r.prepared[a]; pa != nil {
		return pa
	}
	pa := &preparedAttach{}
	if a.Kind == "option" {
		f := &a.Fields[0]
		pt := buildType(f.Type) // *T
		x := reflect.New(pt.Elem())
		if v, ok := r.sc.Init[strconv.Itoa(f.Fid)]; ok && v.P != nil && v.P.V != nil {
			x = r.mkValue(pt, &v, f.Fid, f.Type)
		}
		r.leaves = append(r.leaves, leaf{fid: f.Fid, root: x, path: nil, spec: f.Type})
		pa.x = x
	} else if a.Kind == "group" || !(a.Exec != nil || (a.Usage != nil && len(a.Fields) == 0)) {
		pa.data, _ = r.newData(a.Fields)
	}
	if r.prepared == nil {
		r.prepared = map[*AttachSpec]*preparedAttach{}
	}
	r.prepared[a] = pa
	return pa
}

func hexList(a []string) string {
	if a == nil {
		return "nil"
	}
	parts := make([]string, len(a))
	for i, s := range a {
		parts[i] = hexs(s)
	}
	return "[" + strings.Join(parts, ",") + "]"
}

func (r *runner) mkValue(tp reflect.Type, v *ValueSpec, fid int, ts *TypeSpec) reflect.Value {
	out := reflect.New(tp).Elem()
	switch {
	case v.B != nil:
		out.SetBool(*v.B)
	case v.I != nil:
		switch tp.Kind() {
		case reflect.Uint, reflect.Uint8, reflect.Uint16, reflect.Uint32, reflect.Uint64:
			n, _ := strconv.ParseUint(*v.I, 10, 64)
			out.SetUint(n)
		default:
			n, _ := strconv.ParseInt(*v.I, 10, 64)
			out.SetInt(n)
		}
	case v.S != nil:
		out.SetString(l1dec(*v.S))
	case v.F != nil:
		f, _ := strconv.ParseFloat(l1dec(*v.F), tp.Bits())
		out.SetFloat(f)
	case v.P != nil:
		if v.P.V != nil {
			p := reflect.New(tp.Elem())
			p.Elem().Set(r.mkValue(tp.Elem(), v.P.V, fid, nil))
			out.Set(p)
		}
	case v.L != nil:
		if !v.L.Nil {
			s := reflect.MakeSlice(tp, 0, len(v.L.V))
			for i := range v.L.V {
				s = reflect.Append(s, r.mkValue(tp.Elem(), &v.L.V[i], fid, nil))
			}
			out.Set(s)
		}
	case v.M != nil:
		if !v.M.Nil {
			m := reflect.MakeMap(tp)
			for i := range v.M.V {
				m.SetMapIndex(r.mkValue(tp.Key(), &v.M.V[i][0], fid, nil), r.mkValue(tp.Elem(), &v.M.V[i][1], fid, nil))
			}
			out.Set(m)
		}
	case v.Fn != nil:
		if !v.Fn.Nil {
			fails := v.Fn.Fails
			hasErr := tp.NumOut() == 1
			karg := ""
			if ts != nil && ts.Func != nil {
				karg = ts.Func.Arg
			}
			fn := reflect.MakeFunc(tp, func(args []reflect.Value) []reflect.Value {
				entry := fmt.Sprintf("%d:", fid)
				if len(args) == 0 {
					entry += "nil"
				} else {
					entry += renderValue(args[0], &TypeSpec{K: karg})
				}
				r.callLog = append(r.callLog, entry)
				if hasErr {
					ev := reflect.New(errorType).Elem()
					if fails {
						ev.Set(reflect.ValueOf(errors.New("callback failed")))
					}
					return []reflect.Value{ev}
				}
				return nil
			})
			out.Set(fn)
		}
	}
	return out
}

// instantiate walks the struct spec, sets initial values and records leaves.
func (r *runner) instantiate(root reflect.Value, cur reflect.Value, fields []FieldSpec, path []int, reachable bool) {
	for i := range fields {
		f := &fields[i]
		p := append(append([]int{}, path...), i)
		if f.Struct != nil {
			r.structs = append(r.structs, structRef{sid: f.Struct.Sid, root: root, path: p, nil0: f.Struct.Ptr && f.Struct.Nil})
			if f.Struct.Ptr {
				if f.Struct.Nil || !reachable {
					r.instantiate(root, reflect.Value{}, f.Struct.Fields, p, false)
				} else {
					fv := cur.Field(i)
					if f.Exported {
						fv.Set(reflect.New(fv.Type().Elem()))
						r.instantiate(root, fv.Elem(), f.Struct.Fields, p, true)
					} else {
						r.instantiate(root, reflect.Value{}, f.Struct.Fields, p, false)
					}
				}
			} else if reachable {
				r.instantiate(root, cur.Field(i), f.Struct.Fields, p, true)
			} else {
				r.instantiate(root, reflect.Value{}, f.Struct.Fields, p, false)
			}
			continue
		}
		r.leaves = append(r.leaves, leaf{fid: f.Fid, root: root, path: p, spec: f.Type})
		if !reachable || !f.Exported {
			continue
		}
		if v, ok := r.sc.Init[strconv.Itoa(f.Fid)]; ok {
			fv := cur.Field(i)
			fv.Set(r.mkValue(fv.Type(), &v, f.Fid, f.Type))
		}
	}
}

// resolve follows a field-index path from root, through pointers; ok=false when a nil pointer blocks it.
func resolve(root reflect.Value, path []int) (reflect.Value, bool) {
	cur := root
	for _, i := range path {
		if cur.Kind() == reflect.Ptr {
			if cur.IsNil() {
				return reflect.Value{}, false
			}
			cur = cur.Elem()
		}
		cur = cur.Field(i)
	}
	return cur, true
}

func renderValue(v reflect.Value, ts *TypeSpec) string {
	switch v.Kind() {
	case reflect.Bool:
		if v.Bool() {
			return "b1"
		}
		return "b0"
	case reflect.Int, reflect.Int8, reflect.Int16, reflect.Int32, reflect.Int64:
		return "i" + strconv.FormatInt(v.Int(), 10)
	case reflect.Uint, reflect.Uint8, reflect.Uint16, reflect.Uint32, reflect.Uint64:
		return "i" + strconv.FormatUint(v.Uint(), 10)
	case reflect.Float32, reflect.Float64:
		return "f" + hexs(strconv.FormatFloat(v.Float(), 'g', -1, v.Type().Bits()))
	case reflect.String:
		return "s" + hexs(v.String())
	case reflect.Ptr:
		if v.IsNil() {
			return "pn"
		}
		return "p(" + renderValue(v.Elem(), nil) + ")"
	case reflect.Slice:
		if v.IsNil() {
			return "ln"
		}
		parts := make([]string, v.Len())
		for i := 0; i < v.Len(); i++ {
			parts[i] = renderValue(v.Index(i), nil)
		}
		return "l[" + strings.Join(parts, ",") + "]"
	case reflect.Map:
		if v.IsNil() {
			return "mn"
		}
		parts := make([]string, 0, v.Len())
		for _, k := range v.MapKeys() {
			parts = append(parts, renderValue(k, nil)+">"+renderValue(v.MapIndex(k), nil))
		}
		sort.Strings(parts)
		return "m{" + strings.Join(parts, ",") + "}"
	case reflect.Func:
		if v.IsNil() {
			return "Fn"
		}
		return "F"
	}
	return "?"
}

type OpResult struct {
	Op       string   `json:"op"`
	Panic    string   `json:"panic"`
	Err      string   `json:"err"`
	Ret      string   `json:"ret"`
	Vals     string   `json:"vals"`
	Active   string   `json:"active"`
	Calls    string   `json:"calls"`
	Exec     string   `json:"exec"`
	Unknown  string   `json:"unknown"`
	Out      string   `json:"out"`
	Attached string   `json:"attached"`
	Set      string   `json:"set"`
	Items    string   `json:"items,omitempty"`
	Bytes    string   `json:"bytes,omitempty"`
	Model    string   `json:"model,omitempty"`
}

type ScenarioResult struct {
	Setup string     `json:"setup"`
	Ops   []OpResult `json:"ops"`
	Fatal string     `json:"fatal,omitempty"`
	Hang  string     `json:"hang,omitempty"`
	SetupPanic string `json:"setup_panic,omitempty"`
	Nondet     string `json:"nondet,omitempty"`
	Other      *ScenarioResult `json:"other,omitempty"`
}

func renderErr(err error) string {
	if err == nil {
		return "nil"
	}
	switch e := err.(type) {
	case *flags.Error:
		return fmt.Sprintf("F:%d:%s", e.Type, hexs(e.Message))
	case *flags.IniError:
		return fmt.Sprintf("I:%d:%s", e.LineNumber, hexs(e.Message))
	}
	return "X:" + hexs(err.Error())
}

func (r *runner) observeVals() (string, string) {
	parts := make([]string, 0, len(r.leaves))
	for _, l := range r.leaves {
		v, ok := resolve(l.root, l.path)
		if !ok {
			continue
		}
		parts = append(parts, fmt.Sprintf("%d:%s", l.fid, renderValue(v, l.spec)))
	}
	var att []string
	for _, s := range r.structs {
		if !s.nil0 {
			continue
		}
		v, ok := resolve(s.root, s.path)
		if ok && v.Kind() == reflect.Ptr && !v.IsNil() {
			att = append(att, strconv.Itoa(s.sid))
		}
	}
	sort.Strings(att)
	return strings.Join(parts, ";"), strings.Join(att, ",")
}

// observeSet renders Option.IsSet / IsSetDefault of every option of the tree (the built-in help
// option excepted), identified by field name, long name and short name; sorted.
func observeSet(p *flags.Parser) string {
	var parts []string
	bit := func(b bool) string {
		if b {
			return "1"
		}
		return "0"
	}
	var walkG func(g *flags.Group)
	walkG = func(g *flags.Group) {
		for _, o := range g.Options() {
			if o.Field().Name == "ShowHelp" {
				continue
			}
			parts = append(parts, fmt.Sprintf("%s|%s|%d:%s%s", hexs(o.Field().Name), hexs(o.LongName), o.ShortName, bit(o.IsSet()), bit(o.IsSetDefault())))
		}
		for _, sg := range g.Groups() {
			walkG(sg)
		}
	}
	var walkC func(c *flags.Command)
	walkC = func(c *flags.Command) {
		walkG(c.Group)
		for _, sc := range c.Commands() {
			walkC(sc)
		}
	}
	walkC(p.Command)
	sort.Strings(parts)
	return strings.Join(parts, ";")
}

func activeChain(p *flags.Parser) string {
	var parts []string
	c := p.Command
	for c.Active != nil {
		idx := -1
		for i, cc := range c.Commands() {
			if cc == c.Active {
				idx = i
			}
		}
		parts = append(parts, strconv.Itoa(idx))
		c = c.Active
	}
	return strings.Join(parts, ".")
}

func cmdAt(p *flags.Parser, path []int) *flags.Command {
	c := p.Command
	for _, i := range path {
		c = c.Commands()[i]
	}
	return c
}

func pathID(path []int) string {
	parts := make([]string, len(path))
	for i, x := range path {
		parts[i] = strconv.Itoa(x)
	}
	return strings.Join(parts, ".")
}

// capture redirects os.Stdout/os.Stderr while f runs.
func capture(f func()) (string, string) {
	oldOut, oldErr := os.Stdout, os.Stderr
	ro, wo, _ := os.Pipe()
	re, we, _ := os.Pipe()
	os.Stdout, os.Stderr = wo, we
	outc := make(chan string)
	errc := make(chan string)
	go func() { b, _ := io.ReadAll(ro); outc <- string(b) }()
	go func() { b, _ := io.ReadAll(re); errc <- string(b) }()
	func() {
		defer func() {
			wo.Close()
			we.Close()
			os.Stdout, os.Stderr = oldOut, oldErr
		}()
		f()
	}()
	so, se := <-outc, <-errc
	ro.Close()
	re.Close()
	return so, se
}

func (r *runner) newData(fields []FieldSpec) (interface{}, reflect.Value) {
	tp := buildStruct(fields)
	ptr := reflect.New(tp)
	r.instantiate(ptr.Elem(), ptr.Elem(), fields, nil, true)
	return ptr.Interface(), ptr.Elem()
}

// applyAttach performs one AddGroup / AddCommand / AddOption call (at setup or in the middle of a history).
func (r *runner) applyAttach(p *flags.Parser, a *AttachSpec) (err error, pan interface{}) {
	defer func() {
		if x := recover(); x != nil {
			pan = x
		}
	}()
	target := cmdAt(p, a.Path)
	if a.Kind == "option" {
		// Group.AddOption on the command's own group: a hand-built Option (fields taken from the
		// leaf's tag, which only uses keys that map onto Option fields) bound to a fresh variable
		f := &a.Fields[0]
		m, terr := flags.VerifScanTag(l1dec(f.Tag))
		if terr != nil {
			panic("harness: bad tag for AddOption: " + terr.Error())
		}
		get := func(k string) string {
			if v := m[k]; len(v) > 0 {
				return v[0]
			}
			return ""
		}
		truthy := func(v string) bool { return !(v == "" || v == "false" || v == "no" || v == "0") }
		o := &flags.Option{
			Description: get("description"), LongName: get("long"), Default: m["default"],
			EnvDefaultKey: get("env"), EnvDefaultDelim: get("env-delim"),
			OptionalArgument: truthy(get("optional")), OptionalValue: m["optional-value"],
			Required: truthy(get("required")), ValueName: get("value-name"), DefaultMask: get("default-mask"),
			Choices: m["choice"], Hidden: truthy(get("hidden")),
		}
		if sn := get("short"); sn != "" {
			o.ShortName, _ = utf8.DecodeRuneInString(sn)
		}
		target.AddOption(o, r.prepare(a).x.Interface())
	} else if a.Kind == "group" {
		data := r.prepare(a).data
		var g *flags.Group
		g, err = target.AddGroup(l1dec(a.Short), l1dec(a.Long), data)
		if err == nil {
			g.Namespace = l1dec(a.Ns)
			g.EnvNamespace = l1dec(a.EnvNs)
			g.Hidden = a.Hidden
		}
	} else {
		var data interface{}
		newPath := append(append([]int{}, a.Path...), len(target.Commands()))
		if a.Exec != nil {
			var e *string
			if a.Exec.Err != nil {
				x := l1dec(*a.Exec.Err)
				e = &x
			}
			if a.Usage != nil {
				data = &ExecUsageCmd{ExecCmd: ExecCmd{run: r, id: pathID(newPath), err: e}, usage: l1dec(*a.Usage)}
			} else {
				data = &ExecCmd{run: r, id: pathID(newPath), err: e}
			}
		} else if a.Usage != nil && len(a.Fields) == 0 {
			data = &UsageOnly{usage: l1dec(*a.Usage)}
		} else {
			data = r.prepare(a).data
		}
		var c *flags.Command
		c, err = target.AddCommand(l1dec(a.Name), l1dec(a.Short), l1dec(a.Long), data)
		if err == nil {
			c.Aliases = l1decs(a.Aliases)
			if len(a.Aliases) == 0 {
				c.Aliases = nil
			}
			c.Hidden = a.Hidden
			c.SubcommandsOptional = a.SubOpt
		}
	}
	return err, nil
}

func runScenario(sc *Scenario) (res *ScenarioResult) {
	res = &ScenarioResult{Setup: "nil"}
	defer func() {
		if x := recover(); x != nil {
			res.Fatal = fmt.Sprintf("harness panic during setup: %v", x)
		}
	}()
	r := &runner{sc: sc, cmdIDs: map[flags.Commander]string{}}

	for _, kv := range sc.Cfg.Env {
		os.Setenv(l1dec(kv[0]), l1dec(kv[1]))
	}
	defer func() {
		for _, kv := range sc.Cfg.Env {
			os.Unsetenv(l1dec(kv[0]))
		}
	}()

	var opts flags.Options
	if sc.Cfg.Opts.Help {
		opts |= flags.HelpFlag
	}
	if sc.Cfg.Opts.PassDD {
		opts |= flags.PassDoubleDash
	}
	if sc.Cfg.Opts.Ignore {
		opts |= flags.IgnoreUnknown
	}
	if sc.Cfg.Opts.Print {
		opts |= flags.PrintErrors
	}
	if sc.Cfg.Opts.PassAfter {
		opts |= flags.PassAfterNonOption
	}

	// NewParser swallows a declaration error into internalError, which the first
	// ParseArgs reports.  Probe with a throw-away parser over a fresh instance of the
	// same declaration: a setup-type error ends the scenario here ("D:<err>").
	if sc.HasData {
		var perr error
		var ppan interface{}
		func() {
			defer func() { ppan = recover() }()
			probe := &runner{sc: sc, cmdIDs: map[flags.Commander]string{}}
			data, _ := probe.newData(sc.Data)
			_, perr = flags.NewParser(data, flags.None).ParseArgs(nil)
		}()
		if ppan != nil {
			res.Setup = "PANIC"
			res.SetupPanic = fmt.Sprintf("%v", ppan)
			return res
		}
		if fe, ok := perr.(*flags.Error); ok {
			switch fe.Type {
			case flags.ErrTag, flags.ErrShortNameTooLong, flags.ErrDuplicatedFlag, flags.ErrInvalidTag:
				res.Setup = "D:" + renderErr(perr)
				return res
			}
		}
	}

	oldArg0 := os.Args[0]
	os.Args[0] = l1dec(sc.Cfg.Name)
	var p *flags.Parser
	var setupPanic interface{}
	func() {
		defer func() { setupPanic = recover() }()
		if sc.HasData {
			data, _ := r.newData(sc.Data)
			p = flags.NewParser(data, opts)
		} else {
			p = flags.NewParser(nil, opts)
		}
	}()
	os.Args[0] = oldArg0
	if setupPanic != nil {
		res.Setup = "PANIC"
		return res
	}
	p.NamespaceDelimiter = l1dec(sc.Cfg.NsDelim)
	p.EnvNamespaceDelimiter = l1dec(sc.Cfg.EnvDelim)
	p.Usage = l1dec(sc.Cfg.Usage)
	p.SubcommandsOptional = sc.Cfg.SubOpt
	p.ShortDescription = l1dec(sc.Cfg.ShortDesc)
	p.LongDescription = l1dec(sc.Cfg.LongDesc)

	switch sc.Cfg.Handler {
	case "identity", "dropnext", "error":
		kind := sc.Cfg.Handler
		p.UnknownOptionHandler = func(option string, arg flags.SplitArgument, args []string) ([]string, error) {
			v, ok := arg.Value()
			as := "nil"
			if ok {
				as = hexs(v)
			}
			r.unkLog = append(r.unkLog, hexs(option)+":"+as+":"+hexList(args))
			switch kind {
			case "dropnext":
				if len(args) > 0 {
					return args[1:], nil
				}
				return args, nil
			case "error":
				return nil, errors.New("handler error: " + option)
			}
			return args, nil
		}
	}
	if sc.Cfg.CmdHandler {
		p.CommandHandler = func(cmd flags.Commander, args []string) error {
			if cmd == nil {
				r.execLog = append(r.execLog, "H:nil:"+hexList(args))
				return nil
			}
			id := "?"
			var cerr *string
			switch c := cmd.(type) {
			case *ExecCmd:
				id, cerr = c.id, c.err
			case *ExecUsageCmd:
				id, cerr = c.id, c.err
			}
			r.execLog = append(r.execLog, "H:"+id+":"+hexList(args))
			if cerr != nil {
				return errors.New(*cerr)
			}
			return nil
		}
	}

	// attach operations; the first error ends the scenario
	for ai := range sc.Attach {
		err, pan := r.applyAttach(p, &sc.Attach[ai])
		if pan != nil {
			res.Setup = fmt.Sprintf("PANIC@%d", ai)
			res.Fatal = ""
			res.SetupPanic = fmt.Sprintf("%v", pan)
			return res
		}
		if err != nil {
			res.Setup = fmt.Sprintf("%d:%s", ai, renderErr(err))
			return res
		}
	}

	for oi := range sc.Ops {
		if sc.Ops[oi].Op == "attach" && sc.Ops[oi].Attach != nil {
			r.prepare(sc.Ops[oi].Attach)
		}
	}

	for oi := range sc.Ops {
		op := &sc.Ops[oi]
		or := OpResult{Op: op.Op}
		r.callLog, r.execLog, r.unkLog = nil, nil, nil
		var so, se string
		func() {
			defer func() {
				if x := recover(); x != nil {
					or.Panic = fmt.Sprintf("%v", x)
				}
			}()
			so, se = capture(func() { r.runOp(p, op, &or) })
		}()
		or.Vals, or.Attached = r.observeVals()
		or.Set = observeSet(p)
		or.Active = activeChain(p)
		or.Calls = strings.Join(r.callLog, ";")
		or.Exec = strings.Join(r.execLog, ";")
		or.Unknown = strings.Join(r.unkLog, ";")
		var outs []string
		if so != "" {
			outs = append(outs, "1:"+hexs(so))
		}
		if se != "" {
			outs = append(outs, "2:"+hexs(se))
		}
		or.Out = strings.Join(outs, ";")
		res.Ops = append(res.Ops, or)
		if or.Panic != "" {
			break
		}
	}
	return res
}

func (r *runner) runOp(p *flags.Parser, op *OpSpec, or *OpResult) {
	switch op.Op {
	case "parse":
		ret, err := p.ParseArgs(l1decs(op.Args))
		or.Err = renderErr(err)
		or.Ret = hexList(ret)
	default:
		r.runOpMore(p, op, or)
	}
}
