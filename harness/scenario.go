package main

type Scenario struct{}

func runScenario(sc *Scenario) interface{} { return nil }

