package main

type Scenario struct{}

func runScenario(sc *Scenario) interface{} { return nil }

func unitMore(c *unitCase, s []string) string { return "UNKNOWN-FN" }
