package main

import (
	"fmt"
	"strconv"
	"strings"
	"unicode"
)

// dumpTables prints the stdlib tables the Gallina model embeds:
// IsPrint ranges, unicode.ToLower pairs, unicode.IsSpace runes.
func dumpTables() string {
	var sb strings.Builder
	sb.WriteString("isprint")
	start := -1
	for r := 0; r <= 0x110000; r++ {
		p := r <= 0x10FFFF && strconv.IsPrint(rune(r))
		if p && start < 0 {
			start = r
		}
		if !p && start >= 0 {
			fmt.Fprintf(&sb, " %d-%d", start, r-1)
			start = -1
		}
	}
	sb.WriteString("\ntolower")
	for r := 0; r <= 0x10FFFF; r++ {
		if l := unicode.ToLower(rune(r)); l != rune(r) {
			fmt.Fprintf(&sb, " %d:%d", r, l)
		}
	}
	sb.WriteString("\nisspace")
	for r := 0; r <= 0x10FFFF; r++ {
		if unicode.IsSpace(rune(r)) {
			fmt.Fprintf(&sb, " %d", r)
		}
	}
	sb.WriteString("\n")
	return sb.String()
}
