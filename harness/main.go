// Command verifharness runs the go-flags implementation (built from /repo with
// the "verif" build tag) on cases read as JSON lines from stdin and prints one
// result line per case. All byte strings travel as JSON strings whose code
// points are the bytes (latin-1 style), so arbitrary bytes survive.
package main

import (
	"bufio"
	"encoding/json"
	"fmt"
	"os"
	"strconv"
	"time"
)

func l1dec(s string) string {
	b := make([]byte, 0, len(s))
	for _, r := range s {
		b = append(b, byte(r))
	}
	return string(b)
}

func l1decs(ss []string) []string {
	out := make([]string, len(ss))
	for i, s := range ss {
		out[i] = l1dec(s)
	}
	return out
}

func hexs(s string) string {
	const d = "0123456789abcdef"
	b := make([]byte, 0, 2*len(s))
	for i := 0; i < len(s); i++ {
		b = append(b, d[s[i]>>4], d[s[i]&15])
	}
	return string(b)
}

func main() {
	if len(os.Args) < 2 {
		fmt.Fprintln(os.Stderr, "usage: verifharness unit|scenario")
		os.Exit(2)
	}
	in := os.Stdin
	if len(os.Args) > 2 {
		f, err := os.Open(os.Args[2])
		if err != nil {
			fmt.Fprintln(os.Stderr, "cannot open input:", err)
			os.Exit(2)
		}
		in = f
	}
	rd := bufio.NewReaderSize(in, 1<<20)
	wr := bufio.NewWriterSize(os.Stdout, 1<<20)
	defer wr.Flush()
	dec := json.NewDecoder(rd)
	switch os.Args[1] {
	case "tables":
		wr.WriteString(dumpTables())
	case "unit":
		for dec.More() {
			var c unitCase
			if err := dec.Decode(&c); err != nil {
				fmt.Fprintln(os.Stderr, "bad case:", err)
				os.Exit(2)
			}
			fmt.Fprintln(wr, runUnit(&c))
		}
	case "scenario":
		for dec.More() {
			var sc Scenario
			if err := dec.Decode(&sc); err != nil {
				fmt.Fprintln(os.Stderr, "bad scenario:", err)
				os.Exit(2)
			}
			out := runWithWatchdog(&sc)
			b, _ := json.Marshal(out)
			wr.Write(b)
			wr.WriteByte('\n')
			wr.Flush()
			if out.Hang != "" {
				// the goroutine cannot be stopped: leave, the driver restarts after this scenario
				os.Exit(3)
			}
		}
	default:
		fmt.Fprintln(os.Stderr, "unknown mode")
		os.Exit(2)
	}
}

// runWithWatchdog runs one scenario; a scenario that does not finish in time is reported
// as a hang (the model terminates by construction, so this is always a disagreement).
func runWithWatchdog(sc *Scenario) *ScenarioResult {
	limit := 30 * time.Second
	if v := os.Getenv("VERIF_SCEN_TIMEOUT"); v != "" {
		if n, err := strconv.Atoi(v); err == nil && n > 0 {
			limit = time.Duration(n) * time.Second
		}
	}
	done := make(chan *ScenarioResult, 1)
	go func() { done <- runScenarioRepeated(sc) }()
	select {
	case r := <-done:
		return r
	case <-time.After(limit):
		return &ScenarioResult{Setup: "nil", Hang: fmt.Sprintf("scenario did not terminate within %v", limit)}
	}
}
