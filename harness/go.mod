module verifharness

go 1.15

require (
	github.com/jessevdk/go-flags v0.0.0
	golang.org/x/sys v0.0.0-20210320140829-1e4c9ba3b0c4
)

replace github.com/jessevdk/go-flags => /repo
