package main

import (
	"encoding/json"
	"fmt"
	"os"
	"syscall"

	"golang.org/x/sys/unix"
)

// Terminal width: go-flags asks ioctl(0, TIOCGWINSZ).  The harness reads its input
// from a file (os.Args[2]) so that fd 0 can be pointed at a pseudo-terminal slave
// with the requested number of columns, or at /dev/null (no terminal: 80 columns).
var (
	ptyMaster *os.File
	ptySlave  *os.File
	devNull   *os.File
	ttyFailed bool
)

func openPty() error {
	if ptyMaster != nil {
		return nil
	}
	m, err := os.OpenFile("/dev/ptmx", os.O_RDWR|syscall.O_NOCTTY, 0)
	if err != nil {
		return err
	}
	if err := unix.IoctlSetPointerInt(int(m.Fd()), unix.TIOCSPTLCK, 0); err != nil {
		return err
	}
	n, err := unix.IoctlGetInt(int(m.Fd()), unix.TIOCGPTN)
	if err != nil {
		return err
	}
	s, err := os.OpenFile(fmt.Sprintf("/dev/pts/%d", n), os.O_RDWR|syscall.O_NOCTTY, 0)
	if err != nil {
		return err
	}
	ptyMaster, ptySlave = m, s
	return nil
}

// setColumns makes fd 0 a terminal of the given width (cols > 0) or not a terminal (cols == 0).
func setColumns(cols int) bool {
	if cols <= 0 {
		if devNull == nil {
			devNull, _ = os.Open("/dev/null")
		}
		return unix.Dup2(int(devNull.Fd()), 0) == nil
	}
	if err := openPty(); err != nil {
		ttyFailed = true
		return false
	}
	ws := &unix.Winsize{Row: 24, Col: uint16(cols)}
	if err := unix.IoctlSetWinsize(int(ptySlave.Fd()), unix.TIOCSWINSZ, ws); err != nil {
		ttyFailed = true
		return false
	}
	return unix.Dup2(int(ptySlave.Fd()), 0) == nil
}

// runScenarioRepeated runs the scenario sc.Repeat times (fresh parser each time) and
// reports the first run whose observations differ from the first one (C15).
func runScenarioRepeated(sc *Scenario) *ScenarioResult {
	tty := sc.Cfg.Cols
	if tty == 80 && !sc.Cfg.Tty {
		tty = 0
	}
	if !setColumns(tty) {
		return &ScenarioResult{Setup: "nil", Fatal: "cannot set terminal width"}
	}
	first := runScenario(sc)
	if sc.Repeat > 1 {
		fb, _ := json.Marshal(first)
		for k := 1; k < sc.Repeat; k++ {
			other := runScenario(sc)
			ob, _ := json.Marshal(other)
			if string(ob) != string(fb) {
				first.Nondet = fmt.Sprintf("run %d differs from run 0", k)
				first.Other = other
				break
			}
		}
	}
	return first
}
