"""Run scenarios through the implementation (Go harness) and the model (in-Coq
evaluation), including the float/duration oracle protocol, and compare."""
import re
from . import lib, scen

FLOATK = {"float32": 32, "float64": 64}


def kinds_in_type(t, acc):
    if t[0] in ("k", "ptr"):
        acc.add(t[1])
    elif t[0] == "slice":
        kinds_in_type(t[1], acc)
    elif t[0] == "map":
        acc.add(t[1]); acc.add(t[2])
    elif t[0] == "func" and t[1]:
        acc.add(t[1])


def scenario_kinds(sc):
    acc = set()
    for fl in scen.all_field_lists(sc):
        for fid, t, _ in scen.leaves_in_order(fl)[0]:
            kinds_in_type(t, acc)
    return acc


def tag_values(tag):
    """values of all key:"..." pairs, crudely (only used to seed the oracle tables)"""
    out = []
    for m in re.finditer(rb'"((?:[^"\\]|\\.)*)"', tag):
        out.append(m.group(1))
    return out


def candidate_strings(sc):
    c = set([b""])
    def add(x):
        c.add(x)
        if b":" in x:
            a, _, b = x.partition(b":")
            c.add(a); c.add(b)
    for o in sc["ops"]:
        for t in o.get("args", []) or []:
            add(t)
            if b"=" in t:
                add(t.partition(b"=")[2])
            if t.startswith(b"-"):
                for i in range(1, min(len(t), 8)):
                    add(t[i:])
        if o["op"] == "ini":
            for ln in o["text"].split(b"\n"):
                if b"=" in ln:
                    add(ln.partition(b"=")[2].strip())
    for fl in scen.all_field_lists(sc):
        def walk(fs):
            for f in fs:
                for v in tag_values(f["tag"]):
                    add(v)
                if "struct" in f:
                    walk(f["struct"]["fields"])
        walk(fl)
    for k, v in sc["cfg"].get("env", []):
        add(v)
        for d in (b",", b":", b";", b" "):
            for part in v.split(d):
                add(part)
    return c


def fill_oracle(scs, oracles, extra=None):
    """ask Go for every (kind, text) candidate of every scenario that uses floats/durations"""
    reqs = []
    for i, sc in enumerate(scs):
        kinds = scenario_kinds(sc)
        cands = None
        for k in kinds:
            if k in FLOATK or k == "duration":
                if cands is None:
                    cands = candidate_strings(sc)
                for t in cands:
                    if len(t) > 64:
                        continue
                    if k in FLOATK and (FLOATK[k], t) not in oracles[i]["float"]:
                        reqs.append((i, "float", FLOATK[k], t))
                    if k == "duration" and t not in oracles[i]["dur"]:
                        reqs.append((i, "dur", 0, t))
    for (i, what, a, b) in (extra or []):
        reqs.append((i, what, a, b))
    if not reqs:
        return
    cases = []
    for (i, what, a, b) in reqs:
        if what == "float": cases.append({"fn": "parsefloat", "s": [b], "n": [a]})
        elif what == "dur": cases.append({"fn": "parsedur", "s": [b]})
        else: cases.append({"fn": "fmtdur", "n": [a]})
    out = lib.go_unit(cases)
    for (i, what, a, b), r in zip(reqs, out):
        if what == "float":
            oracles[i]["float"][(a, b)] = (True, bytes.fromhex(r[3:])) if r.startswith("ok:") else (False, bytes.fromhex(r[4:]))
        elif what == "dur":
            oracles[i]["dur"][b] = (True, int(r[3:])) if r.startswith("ok:") else (False, bytes.fromhex(r[4:]))
        else:
            oracles[i]["durfmt"][a] = bytes.fromhex(r)


MISS = re.compile(r"ORACLE-MISS:(float(\d+):([0-9a-f]*)|dur:([0-9a-f]*)|durfmt:(-?\d+))")


def run_model(scs, oracles=None, shard=None, label="scen"):
    if shard is None:
        shard = max(8, min(150, (len(scs) + lib.NPROC - 1) // lib.NPROC))
    if oracles is None:
        oracles = [{"float": {}, "dur": {}, "durfmt": {}} for _ in scs]
        fill_oracle(scs, oracles)
    results = [None] * len(scs)
    todo = list(range(len(scs)))
    for rnd in range(4):
        outs = lib.coq_eval(["Base.Str", "Model.Decode"],
                            "From Coq Require Import Uint63.\nDefinition run_case (c : nat * list int) : str := run_packed (fst c) (snd c).",
                            "nat * list int", [scen.pack_coq(scen.scenario_bytes(scs[i], oracles[i])) for i in todo], shard=shard, label=label)
        extra = []
        nxt = []
        for i, o in zip(todo, outs):
            results[i] = scen.parse_model_output(o)
            txt = o.decode("latin-1")
            ms = MISS.findall(txt)
            if ms:
                for m in ms:
                    if m[1]: extra.append((i, "float", int(m[1]), bytes.fromhex(m[2])))
                    elif m[0].startswith("dur:"): extra.append((i, "dur", 0, bytes.fromhex(m[3])))
                    else: extra.append((i, "durfmt", int(m[4]), b""))
                nxt.append(i)
        if not nxt:
            break
        fill_oracle([], oracles, extra)
        todo = nxt
    return results, oracles


def run_impl(scs, timeout=900):
    return [scen.normalise_go(r) for r in lib.go_scenarios([scen.scenario_wire(s) for s in scs], timeout=timeout)]


def model_status(m):
    """'ok' | 'unmodelled' | 'oracle-miss' | 'model-panic'"""
    for o in m["ops"]:
        p = o.get("panic", "")
        if "UNMODELLED" in p: return "unmodelled"
        if "ORACLE-MISS" in p: return "oracle-miss"
        if "OUT-OF-FUEL" in p: return "out-of-fuel"
    if m["setup"] and "UNMODELLED" in m["setup"]: return "unmodelled"
    return "ok"


def canon_panic(p, side):
    """both sides: '' = no panic, 'P' = panic"""
    if not p: return ""
    return "P"


def project_op(o, keys, side):
    d = {}
    for k in keys:
        v = o.get(k, "")
        if k == "panic":
            v = canon_panic(v, side)
        d[k] = v
    return d


ALL_KEYS = ["panic", "err", "ret", "vals", "active", "calls", "exec", "unknown", "out", "attached", "set"]


def mask_help(v):
    """ErrHelp messages / stdout help text are compared only once Help is modelled"""
    return v


def compare(go, model, keys=ALL_KEYS, transform=None):
    """returns None if equal on the projection, else a description dict"""
    if go.get("hang"):
        return {"where": "termination", "impl": go["hang"], "model": "terminates"}
    if go.get("fatal"):
        return {"where": "harness", "fatal": go["fatal"]}
    gs, ms = go["setup"], model["setup"]
    if gs != ms:
        if not (gs.startswith("PANIC") and ms.startswith("PANIC")):
            return {"where": "setup", "impl": gs, "model": ms}
    if len(go["ops"]) != len(model["ops"]):
        return {"where": "op-count", "impl": len(go["ops"]), "model": len(model["ops"])}
    for i, (g, m) in enumerate(zip(go["ops"], model["ops"])):
        pg, pm = project_op(g, keys, "go"), project_op(m, keys, "model")
        if transform:
            pg, pm = transform(pg), transform(pm)
        if pg.get("panic") == "P" and pm.get("panic") == "P":
            continue  # both panic: state after a panic is not compared
        for k in pg:
            if pg[k] != pm[k]:
                return {"where": "op %d key %s" % (i, k), "impl": pg[k], "model": pm[k]}
    return None
