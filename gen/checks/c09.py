"""C09 - decided on the ParseArgs model; see parsecheck.CONFIG["C09"]."""
from . import parsecheck


def run(rep, tier, rng, replay=None):
    rep.cov["rule"] = parsecheck.rule_text("C09")
    parsecheck.run_property(rep, rng, "C09", tier, replay)
