import copy
"""C16 (help/man show exactly the visible interface), C17 (help layout), C18 (completion), C19 (declarations)."""
import re
from .. import lib, scen, runner, declgen, units, strgen
from . import common

HELP_PROFILE = dict(p_addoption=0.08, p_bad_default=0.0, p_required=0.08, p_commands=0.6, max_depth=3, p_desc=0.65, p_default=0.3, p_env=0.25, p_valname=0.3, p_mask=0.25,
                    p_choice=0.25, p_hidden=0.25, p_cmd_hidden=0.25, p_help=0.7, p_positional=0.45, p_init=0.3, p_group=0.45, p_namespace=0.6,
                    p_alias=0.5, p_mb_short=0.15, p_bad_value=0.0, p_ev_unknown=0.0, p_ev_garbage=0.0, p_ev_cmd=0.45, p_ev_opt=0.3, n_events=(0, 5))


def make_help(rng, widths=False):
    g = declgen.Gen(rng, HELP_PROFILE)
    sc = g.gen_scenario()
    sc["cfg"]["shortdesc"] = rng.choice([b"", b"A tool"])
    sc["cfg"]["longdesc"] = rng.choice([b"", b"Long `desc' of the tool\nsecond line", b"A long description " * 8])
    ops = []
    if rng.random() < 0.75:
        ops.append(sc["ops"][0])      # select an active command chain
    ops.append({"op": "help"})
    if not widths:
        ops.append({"op": "man"})
    sc["ops"] = ops
    if widths:
        w = rng.choice([1, 5, 10, 15, 20, 25, 30, 40, 50, 60, 79, 80, 81, 100, 132, 200, 400, rng.randint(1, 300)])
        sc["cfg"]["cols"] = w
        sc["cfg"]["tty"] = True
    return sc


def strip_ws_hyphen(b):
    return re.sub(rb"[\s\-]+", b"", b)


def oracle_c17(sc, g):
    for o, r in zip(sc["ops"], g["ops"]):
        if o["op"] == "help":
            if r.get("panic"):
                return "WriteHelp panicked: " + r["panic"][:120]
            text = bytes.fromhex(r.get("bytes", ""))
            try:
                text.decode("utf-8")
            except UnicodeDecodeError:
                # only a defect if every declared text is valid UTF-8
                allvalid = True
                def walk(fs):
                    nonlocal allvalid
                    for f in fs:
                        try: f["tag"].decode("utf-8")
                        except UnicodeDecodeError: allvalid = False
                        if b"\\" in f["tag"]: allvalid = False      # escapes may denote arbitrary bytes
                        if "struct" in f: walk(f["struct"]["fields"])
                for fl in scen.all_field_lists(sc): walk(fl)
                def vvalid(v):
                    if v[0] in ("s", "f"):
                        try: v[1].decode("utf-8"); return True
                        except UnicodeDecodeError: return False
                    if v[0] == "p": return v[1] is None or vvalid(v[1])
                    if v[0] == "l": return all(vvalid(x) for x in (v[1] or []))
                    if v[0] == "m": return all(vvalid(a) and vvalid(b) for a, b in (v[1] or []))
                    return True
                if not all(vvalid(v) for v in sc["init"].values()): allvalid = False
                if allvalid:
                    return "help text is not valid UTF-8 although all declared texts are"
    return None


def wrap_unit_stream(rep, rng, n):
    """wrapText through the hook vs the model, plus the words-preserved oracle on the implementation's output"""
    cases = []
    for _ in range(n):
        words = []
        for _ in range(rng.randint(0, 9)):
            words.append(rng.choice([strgen.rstr(rng, 12, p_bad=0.0, p_mb=0.3), b"x" * rng.randint(1, 40), ("é" * rng.randint(1, 30)).encode(), b"", b"a-b", b"word"]))
        s = rng.choice([b" ", b"  ", b"\n", b" \n ", b"\t"]).join(words)
        cases.append({"fn": "wrap", "s": [s, rng.choice([b"", b"    ", b"  "])], "n": [rng.choice([1, 5, 9, 10, 11, 15, 20, 40, 79, -3, 0])]})
    go = lib.go_unit(cases)
    coq = lib.coq_eval(["Base.Str", "Model.Help"],
                       "Definition run_case (c : str * str * Z) : str := let '(s, p, l) := c in hex_of_str (wrap_text s l p).",
                       "str * str * Z", ["(%s, %s, (%d)%%Z)" % (lib.coq_str(c["s"][0]), lib.coq_str(c["s"][1]), c["n"][0]) for c in cases], shard=150, label="wrap")
    for c, g, q in zip(cases, go, coq):
        rep.count(("wrap", c["s"][0], c["s"][1], c["n"][0]), nontrivial=len(c["s"][0]) > 0)
        if g == "PANIC":
            rep.violation("wrapText panicked", {"kind": "property-oracle", "property": "C17", "fn": "wrap", "s": [lib.l1(x) for x in c["s"]], "n": c["n"]})
            return False
        out = bytes.fromhex(g)
        l = max(10, c["n"][0])
        if strip_ws_hyphen(out) != strip_ws_hyphen(c["s"][0]):
            rep.violation("C17: wrapped text does not contain the original characters in order (%r -> %r)" % (c["s"][0][:60], out[:60]),
                          {"kind": "property-oracle", "property": "C17", "fn": "wrap", "s": [lib.l1(x) for x in c["s"]], "n": c["n"], "impl": g})
            return False
        try:
            for li, line in enumerate(out.decode("utf-8").split("\n")):
                body = line[len(c["s"][1].decode()):] if li > 0 and line.startswith(c["s"][1].decode()) else line
                if len(body) > l:
                    rep.violation("C17: wrapped line of %d characters exceeds the width %d" % (len(body), l),
                                  {"kind": "property-oracle", "property": "C17", "fn": "wrap", "s": [lib.l1(x) for x in c["s"]], "n": c["n"], "impl": g})
                    return False
        except UnicodeDecodeError:
            rep.violation("C17: wrapText produced invalid UTF-8 from valid input",
                          {"kind": "property-oracle", "property": "C17", "fn": "wrap", "s": [lib.l1(x) for x in c["s"]], "n": c["n"], "impl": g})
            return False
        if g != q.decode():
            rep.violation("C17: wrapText model and implementation disagree",
                          {"kind": "correspondence", "stream": "C17.wrapText", "theorem": "C17_wrap_*", "s": [lib.l1(x) for x in c["s"]], "n": c["n"], "impl": g, "model": q.decode()}, no_input=True)
            return False
        rep.cov["traces_validated_against_impl"] += 1
    return True


def oracle_c16(sc, g):
    """implementation only: the long name of an option appears in the help text iff the option, its group (and, for a command's
    own options, the command) are not hidden and the command is on the active chain; in the man page iff visible anywhere in the
    tree of visible commands.  Only names that denote one option of the whole declaration are judged."""
    if "meta" not in sc:
        return None
    d = sc["cfg"]["nsdelim"]
    allopts = []
    def collect(nd, path, hidden_above):
        for o in nd["opts"]:
            allopts.append((o, path, nd, hidden_above))
        for i, s2 in enumerate(nd["subs"]):
            collect(s2, path + (i,), hidden_above or bool(s2.get("hidden")))
    collect(sc["meta"], (), False)
    def qlong(o):
        return d.join([n for n in o.get("ns", ()) if n] + [o["long"]])
    counts = {}
    for o, _, _, _ in allopts:
        if o["long"]: counts[qlong(o)] = counts.get(qlong(o), 0) + 1
    if sc["cfg"]["opts"]["help"]:
        counts[b"help"] = counts.get(b"help", 0) + 1      # the built-in help option is listed too
    tags = {}
    def walk_tags(fs):
        for f in fs:
            if "struct" in f: walk_tags(f["struct"]["fields"])
            else: tags[f["fid"]] = f["tag"]
    for fl in scen.all_field_lists(sc): walk_tags(fl)
    alltext = b"\x00".join(tags.values())
    for op, r in zip(sc["ops"], g["ops"]):
        if op["op"] not in ("help", "man") or r.get("panic"):
            continue
        text = bytes.fromhex(r.get("bytes", ""))
        if op["op"] == "man":
            text = text.replace(b"\\-", b"-")
        active = tuple(int(x) for x in r.get("active", "").split(".") if x != "")
        for o, path, nd, hidden_above in allopts:
            if not o["long"] or counts[qlong(o)] != 1 or o.get("ext") and False:
                continue
            own_group_hidden = o.get("ghidden") or (o.get("gdesc") is None and nd.get("hidden"))
            visible = not o.get("hidden") and not own_group_hidden
            if op["op"] == "help":
                shown = visible and active[:len(path)] == path
            else:
                # the man page walks the whole tree, skipping hidden commands with everything below them
                shown = visible and not hidden_above
            name = re.escape(qlong(o))
            if op["op"] == "help":
                # an option row: indentation, optional short name, the long name (values such as choices may look like options)
                # (option rows start at column 2, 6 or 10; continuation lines of wrapped descriptions start at the description column)
                pat = rb"(?m)^(?: {2}| {6}| {10})(?:-[^\s,]+, )?--" + name + rb"(?![A-Za-z0-9_.:\-\x80-\xff])"
            else:
                pat = rb"\\fB--" + name + rb"\\fR"
            present = re.search(pat, text) is not None
            if shown != present:
                return "%s: option --%s is %s but %s in the %s" % (op["op"], qlong(o).decode("utf-8", "replace"), "visible" if shown else "hidden or out of scope",
                                                                  "listed" if present else "not listed", "help text" if op["op"] == "help" else "man page")
        # a masked default's real value never appears (judged for default texts that occur nowhere else in the declaration)
        for o, path, nd, hidden_above in allopts:
            tag = tags.get(o["fid"], b"")
            if b'default-mask:"' not in tag:
                continue
            for dflt in o.get("defaults", []):
                if len(dflt) < 5 or alltext.count(dflt) != 1 or not all(32 < c < 127 and c not in b'\\"-' for c in dflt):
                    continue
                if not re.search(rb"[A-Za-z]{3}", dflt):
                    continue        # numbers may legitimately appear as the (unmasked) initial value of another option
                if dflt in text:
                    return "%s: the masked default %r of --%s appears in the output" % (op["op"], dflt, (o["long"] or b"?").decode("utf-8", "replace"))
        # the sub-commands listed for the innermost active command are exactly its visible ones
        if op["op"] == "help":
            node = sc["meta"]
            try:
                for i in active: node = node["subs"][i]
            except IndexError:
                continue
            m = re.search(rb"(?m)^Available commands:\n((?:  .*\n?)*)", text)
            listed = sorted(re.findall(rb"(?m)^  (\S+)", m.group(1))) if m else []
            visible_cmds = sorted(s2["name"] for s2 in node["subs"] if not s2.get("hidden"))
            if all(b" " not in n and n for n in visible_cmds) and len(set(visible_cmds)) == len(visible_cmds) and listed != visible_cmds:
                return "help: the listed sub-commands %r are not the visible sub-commands %r of the active command" % (listed, visible_cmds)
    return None


def run_c16(rep, tier, rng, replay=None):
    rep.cov["rule"] = ("declarations with every mix of hidden/visible options, groups and commands, masks, env keys with namespaces, choices, value names, "
                       "positional arguments; a ParseArgs selects an active chain; then WriteHelp and WriteManPage: bytes of the implementation vs the model's "
                       "renderer (the theorems are about the rows the model renders); non-trivial = help text has at least one option row")
    keys = ["panic", "err", "bytes", "out"]
    if replay:
        common.replay(rep, "C16", replay, keys=keys, oracle=oracle_c16); return
    if not lib.std_proof_phase(rep, "C16"): return
    common.scenario_check(rep, rng, "C16", 150 if tier == "quick" else 10000, keys=keys, transform=None, stream="help+man",
                          theorem_names="C16_*", make=lambda r: make_help(r, False), oracle=oracle_c16)


def run_c17(rep, tier, rng, replay=None):
    rep.cov["rule"] = ("(1) wrapText unit stream through the hook (texts with words above/below the width, multi-byte runs, newlines; widths 1..79 and <10) vs "
                       "the model, with the implementation-only oracles: characters preserved in order, no line wider than max(width,10), valid UTF-8; "
                       "(2) WriteHelp with stdin on a pseudo-terminal of width 1..400 over declarations with non-ASCII names, value names, choices, "
                       "positional names: no panic, bytes equal to the model's renderer; non-trivial = non-empty text / help has an option row")
    keys = ["panic", "err", "bytes"]
    if replay:
        common.replay(rep, "C17", replay, keys=keys, oracle=oracle_c17); return
    if not lib.std_proof_phase(rep, "C17"): return
    if not wrap_unit_stream(rep, rng, 600 if tier == "quick" else 20000): return
    common.scenario_check(rep, rng, "C17", 250 if tier == "quick" else 8000, keys=keys, transform=None, stream="help@width",
                          theorem_names="C17_*", make=lambda r: make_help(r, True), oracle=oracle_c17)


# ---------------------------------------------------------------- C18
COMP_TYPES = declgen.DEFAULT_PROFILE["types"] + [("comp", 14)]


def last_word(rng, sc, g, chain):
    opts = [o for c in chain for o in c["opts"]]
    cur = chain[-1]
    x = rng.random()
    if x < 0.12: return b""
    if x < 0.22: return b"-"
    if x < 0.32: return b"--"
    if x < 0.5 and opts:
        o = rng.choice(opts)
        if o["long"]:
            q = g.qlong(sc, o); return b"--" + q[:rng.randint(0, len(q))]
    if x < 0.6 and opts:
        o = rng.choice(opts)
        if o["short"]: return b"-" + o["short"] + rng.choice([b"", b"al", b"=", b"=be"])
    if x < 0.7 and opts:
        o = rng.choice(opts)
        if o["long"]: return b"--" + g.qlong(sc, o) + rng.choice([b"=", b"=al", b"=g"])
    if x < 0.8: return rng.choice([b"al", b"b", b"g", b"-d", b"x"])
    if x < 0.92 and cur["subs"]:
        s = rng.choice(cur["subs"]); return s["name"][:rng.randint(0, len(s["name"]))]
    return rng.choice([b"a", b"s", b"re", b"-Z", b"--nosuch"])


def make_c18(rng):
    g = declgen.Gen(rng, dict(types=COMP_TYPES, p_addoption=0.08, p_required=0.0, p_commands=0.65, p_desc=0.5, p_hidden=0.2, p_cmd_hidden=0.2, p_help=0.6, p_positional=0.4,
                              p_bad_value=0.0, p_ev_garbage=0.0, p_ev_unknown=0.06, n_events=(0, 5), p_mutate_argv=0.02, p_optional=0.15,
                              p_ev_term=0.07, p_ev_plain=0.15, p_ignore=0.3, p_passafter=0.3, p_sibling_cmd=0.2, p_subopt=0.5,
                              p_namespace=0.6, p_group=0.4, p_alias=0.4))
    sc = g.gen_scenario()
    words = sc["ops"][0]["args"]
    # follow the command words to know the context for the last word
    chain = [sc["meta"]]
    for w in words:
        for s in chain[-1]["subs"]:
            if w == s["name"] or w in s["aliases"]:
                chain.append(s); break
    sc["ops"] = [{"op": "complete", "args": words + [last_word(rng, sc, g, chain)]}]
    return sc


def oracle_c18(sc, g):
    for o, r in zip(sc["ops"], g["ops"]):
        if o["op"] != "complete":
            continue
        if r.get("panic"):
            return "completion panicked: " + r["panic"][:100]
        items = [x.split(":")[0] for x in r.get("items", "").split(";") if x and x != "none"]
        if items != sorted(items):
            return "completion list is not sorted"
    return None


COMP_WORDS = [b"alpha", b"alpine", b"beta", b"be ta", b"gamma", b"-dash", b"--ddash"]


def c18_known(what, sc, words, item):
    """narrow predicates of recorded findings (KNOWN_FINDINGS.json); returns the finding text or None"""
    for f in lib.known_findings("C18"):
        if f.get("match") == "after-terminator" and sc["cfg"]["opts"]["passdd"] and b"--" in words:
            return f["text"]
    return None


def c18_acceptance_stream(rep, rng, n):
    """chunked, to keep memory bounded at thorough scale"""
    done = 0
    while done < n:
        k = min(500, n - done)
        if not c18_acceptance_chunk(rep, rng, k):
            return False
        done += k
    return True


def c18_acceptance_chunk(rep, rng, n):
    """implementation only: every offered option name / command name is accepted as such by the parser at that position
    (ParseArgs on prefix + item, fresh parser), when the prefix itself is valid (parses, or only lacks required items)."""
    base, cands = [], []
    for _ in range(n):
        sc = make_c18(rng)
        if sc["cfg"]["handler"] not in ("none", "identity"):
            sc["cfg"]["handler"] = "identity"       # a handler that rewrites the arguments defines its own notion of position
        if rng.random() < 0.7:
            sc["cfg"]["subopt"] = True
            for a in sc["attach"]:
                if a["kind"] == "command": a["subopt"] = True
        args = sc["ops"][0]["args"]
        words, partial = args[:-1], args[-1]
        base.append((sc, words, partial))
    comp = runner.run_impl([b[0] for b in base])
    probes, meta = [], []
    for (sc, words, partial), r in zip(base, comp):
        if not r["ops"] or r["ops"][0].get("panic"):
            continue
        items = [scen.unhex(x.split(":")[0]) for x in r["ops"][0].get("items", "").split(";") if x and x != "none"]
        if not items:
            continue
        name_mode = (partial.startswith(b"--") and b"=" not in partial) or partial == b"-"
        if partial.startswith(b"-") and not name_mode:
            continue
        picked = items if len(items) <= 3 else rng.sample(items, 3)
        for it in picked:
            if not partial.startswith(b"-") and (it in COMP_WORDS or it.startswith(b"-")):
                continue        # a value completion, not a command name
            kind = "option" if partial.startswith(b"-") else "command"
            a = copy.deepcopy({k: v for k, v in sc.items() if k != "meta"})
            a["ops"] = [{"op": "parse", "args": list(words)}]
            b = copy.deepcopy(a)
            b["ops"] = [{"op": "parse", "args": list(words) + [it]}]
            probes += [a, b]
            meta.append((sc, words, partial, it, kind))
    if not probes:
        return True
    res = runner.run_impl(probes)
    for i, (sc, words, partial, it, kind) in enumerate(meta):
        ra, rb = res[2 * i], res[2 * i + 1]
        if not ra["ops"] or not rb["ops"] or ra["ops"][0].get("panic") or rb["ops"][0].get("panic"):
            continue
        ea, eb = scen.decode_err(ra["ops"][0]["err"]), scen.decode_err(rb["ops"][0]["err"])
        # valid prefix: parses, or only lacks required options / arguments / a command
        if ea is not None and not (ea[0] == "F" and ea[1] in (7, 11)):
            continue
        rep.count(("c18acc", tuple(words), it), nontrivial=True)
        what = None
        if kind == "command":
            aa, ab = ra["ops"][0]["active"], rb["ops"][0]["active"]
            if not (ab != aa and ab.startswith(aa)):
                what = "offered command %r is not taken as a command by the parser after %r (active chain %r -> %r)" % (it, words, aa, ab)
        else:
            reta, retb = scen.decode_list(ra["ops"][0]["ret"]) or [], scen.decode_list(rb["ops"][0]["ret"]) or []
            if eb is not None and eb[0] == "F" and eb[1] == 2:
                what = "offered option %r is an unknown flag for the parser after %r" % (it, words)
            elif eb is None and retb.count(it) > reta.count(it):
                # (after an error the returned arguments are the unparsed rest, which says nothing; such probes give no verdict)
                what = "offered option %r is returned as a plain remaining argument by the parser after %r" % (it, words)
        if what:
            kf = c18_known(what, sc, words, it)
            if kf:
                rep.known_finding(kf)
                continue
            rep.violation("C18: " + what, {"kind": "property-oracle", "property": "C18", "what": what, "scenario": common.scenario_json(sc),
                                            "prefix": [lib.l1(w) for w in words], "item": lib.l1(it), "impl_prefix": ra, "impl_with_item": rb})
            return False
        rep.cov["traces_validated_against_impl"] += 1
    return True


def run_c18(rep, tier, rng, replay=None):
    rep.cov["rule"] = ("valid prefixes (options with separate/attached arguments, clusters, command words and aliases, positionals, terminator) followed by a "
                       "partial last word in long and short form, options of harness type Comp (Completer) included; ParseArgs with GO_FLAGS_COMPLETION set and a "
                       "CompletionHandler: items and descriptions of the implementation vs the model; oracle: list sorted; non-trivial = non-empty item list")
    keys = ["panic", "err", "items"]
    if replay:
        common.replay(rep, "C18", replay, keys=keys, oracle=oracle_c18); return
    if not lib.std_proof_phase(rep, "C18"): return
    if not c18_acceptance_stream(rep, rng, 300 if tier == "quick" else 8000): return
    common.scenario_check(rep, rng, "C18", 500 if tier == "quick" else 15000, keys=keys, transform=None, stream="complete",
                          theorem_names="C18_*", make=make_c18, oracle=oracle_c18,
                          nontrivial=lambda sc, g: bool(g["ops"]) and g["ops"][0].get("items", "") not in ("", "none"))


# ---------------------------------------------------------------- C19
def make_c19(rng):
    g = declgen.Gen(rng, dict(p_addoption=0.1, p_dup=0.15, p_bad_tag=0.06, p_long_short=0.05, p_bool_default=0.1, p_group=0.5, p_namespace=0.7, p_commands=0.5,
                              p_nsdelim_other=0.3, p_mb_short=0.2, p_choice=0.3, p_default=0.4, p_env=0.3, p_positional=0.4, p_alias=0.5,
                              p_nsclash=rng.choice([0.05, 0.25, 0.5])))
    sc = g.gen_scenario()
    sc["ops"] = [{"op": "inspect"}, {"op": "parse", "args": []}]
    return sc


def tag_unit_stream(rep, rng, n):
    cases = [units.gen_case(rng, "scantag") for _ in range(n)]
    res, ok = units.run_stream(rep, cases, "C19.tag-scanner", "C19_tag_*")
    for c, g, q in res:
        rep.count(("tag", c["s"][0]), nontrivial=len(c["s"][0]) > 0)
        if g == "PANIC":
            rep.violation("C19: the tag scanner panicked on %r" % c["s"][0], {"kind": "property-oracle", "property": "C19", "tag": lib.l1(c["s"][0])})
            return False
    return ok


def run_c19(rep, tier, rng, replay=None):
    rep.cov["rule"] = ("(1) tag-scanner unit stream through the hook: well-formed tags with arbitrary quoted values, escapes and repeated keys, and tags "
                       "malformed at a random position (truncation, dropped/inserted byte, missing colon/quote): result map or typed error vs the model; "
                       "(2) declaration stream: struct trees with colliding short/long names (also via namespaces), over-long short names, defaults on "
                       "booleans, malformed tags at any nesting, through NewParser+ParseArgs / AddGroup / AddCommand: setup error (type and message) and the "
                       "complete public model (every exported field of Option/Group/Command/Arg plus LongNameWithNamespace, EnvKeyWithNamespace, String) "
                       "vs the model; non-trivial = non-empty tag / declaration with at least one option")
    keys = ["panic", "err", "model"]
    if replay:
        common.replay(rep, "C19", replay, keys=keys); return
    if not lib.std_proof_phase(rep, "C19"): return
    if not tag_unit_stream(rep, rng, 600 if tier == "quick" else 30000): return
    common.scenario_check(rep, rng, "C19", 500 if tier == "quick" else 15000, keys=keys, transform=None, stream="declare",
                          theorem_names="C19_*", make=make_c19, nontrivial=lambda sc, g: True)
