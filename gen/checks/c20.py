"""C20 - unknown-command diagnostics name the truly nearest command."""
from .. import lib, strgen
from . import common


def ref_lev(a, b):
    """textbook Levenshtein on rune lists (the property's notion of distance)"""
    prev = list(range(len(b) + 1))
    for i, x in enumerate(a, 1):
        cur = [i]
        for j, y in enumerate(b, 1):
            cur.append(min(prev[j] + 1, cur[j - 1] + 1, prev[j - 1] + (0 if x == y else 1)))
        prev = cur
    return prev[-1]


def gen_pairs(rng, n):
    out = []
    for _ in range(n):
        r = rng.random()
        alpha = rng.choice(["ab", "abc", strgen.ASCII])
        s = strgen.rstr(rng, 7, alpha)
        if r < 0.5:
            t = strgen.mutate(rng, s, alpha)
        elif r < 0.6:
            t = s
        else:
            t = strgen.rstr(rng, 7, alpha)
        out.append((s, t))
    return out


def distance_stream(rep, rng, n, exhaustive=False):
    pairs = [(b"x", b"abc"), ("é".encode(), b"e"), (b"rmive", b"remove"), (b"", b""), (b"", b"abc"), (b"abc", b""),
             (b"a", b"\xff"), (b"\xff", b"\xfe"), ("日本".encode(), "本日".encode())]
    pairs += gen_pairs(rng, n)
    if exhaustive:
        import itertools
        alpha = [b"a", b"b", "é".encode()]
        words = [b"".join(w) for k in range(0, 5) for w in itertools.product(alpha, repeat=k)]
        pairs += [(s, t) for s in words for t in words]
        rep.extra["exhaustive_pairs_alphabet_a_b_eacute_len_le_4"] = len(words) ** 2
    go = lib.go_unit([{"fn": "lev", "s": [s, t]} for s, t in pairs])
    coq = lib.coq_eval(["Base.Str", "Base.Utf8", "Model.Closest"],
                       "Definition run_case (c : str * str) : str := dec_of_N (N.of_nat (lev_go (fst c) (snd c))).",
                       "str * str", ["(%s, %s)" % (lib.coq_str(s), lib.coq_str(t)) for s, t in pairs], shard=4000, label="c20lev")
    hist = {}
    for (s, t), g, c in zip(pairs, go, coq):
        rs, rt = strgen.go_runes(s), strgen.go_runes(t)
        want = ref_lev(rs, rt)
        rep.count(("lev", s, t), nontrivial=(s != t and s and t))
        hist[want] = hist.get(want, 0) + 1
        rep.sample({"stream": "distance", "s": lib.l1(s), "t": lib.l1(t), "impl": g, "model": c.decode(), "true_distance": want})
        if g == "PANIC" or int(g) != want:
            rep.violation("levenshtein(%r,%r) = %s, true Levenshtein distance over characters is %d" % (s, t, g, want),
                          {"kind": "property-oracle", "fn": "lev", "s": lib.l1(s), "t": lib.l1(t), "impl": g, "expected": want,
                           "replay": "echo '{\"fn\":\"lev\",\"s\":[%s,%s]}' | build/harness.bin unit" % (lib.json.dumps(lib.l1(s)), lib.json.dumps(lib.l1(t)))})
            return False
        if g != c.decode():
            # correspondence broken but the implementation still computes the true distance here
            rep.violation("model lev_go and implementation disagree on (%r,%r): %s vs %s" % (s, t, c.decode(), g),
                          {"kind": "correspondence", "stream": "C20.distance", "theorem": "C20_distance", "s": lib.l1(s), "t": lib.l1(t),
                           "impl": g, "model": c.decode()}, no_input=True)
            return False
        rep.cov["traces_validated_against_impl"] += 1
    rep.extra["distance_histogram"] = {str(k): v for k, v in sorted(hist.items())}
    return True


def run(rep, tier, rng, replay=None):
    rep.cov["rule"] = ("distance stream: pairs (s,t) of byte strings (ASCII / multi-byte / invalid UTF-8, lengths 0-7, t a small edit of s "
                       "half of the time) through the hook VerifLevenshtein vs model lev_go (evaluated in Coq) vs a Python reference; "
                       "message stream: random command sets (visible/hidden/aliases) x words through ParseArgs vs the model; "
                       "non-trivial = both strings non-empty and different / scenario reaches estimateCommand; distinct by content hash")
    if replay:
        from . import parsecheck
        common.replay(rep, "C20", replay, keys=["panic", "err"]); return
    if not lib.std_proof_phase(rep, "C20"):
        return
    if not distance_stream(rep, rng, 600 if tier == "quick" else 20000, exhaustive=(tier == "thorough")):
        return
    from . import parsecheck
    cfg = parsecheck.CONFIG["C20"]
    common.scenario_check(rep, rng, "C20", 400 if tier == "quick" else 15000, profile=cfg["profile"], keys=cfg["keys"], transform=None,
                          theorem_names="C20_message", stream="message",
                          nontrivial=lambda sc, g: bool(g["ops"]) and g["ops"][0].get("err", "").startswith(("F:11", "F:12")))
