"""C20 - unknown-command diagnostics name the truly nearest command."""
from .. import lib, strgen, scen
from . import common


def ref_lev(a, b):
    """textbook Levenshtein on rune lists (the property's notion of distance)"""
    prev = list(range(len(b) + 1))
    for i, x in enumerate(a, 1):
        cur = [i]
        for j, y in enumerate(b, 1):
            cur.append(min(prev[j] + 1, cur[j - 1] + 1, prev[j - 1] + (0 if x == y else 1)))
        prev = cur
    return prev[-1]


def gen_pairs(rng, n):
    out = []
    for _ in range(n):
        r = rng.random()
        alpha = rng.choice(["ab", "abc", strgen.ASCII])
        s = strgen.rstr(rng, 7, alpha)
        if r < 0.5:
            t = strgen.mutate(rng, s, alpha)
        elif r < 0.6:
            t = s
        else:
            t = strgen.rstr(rng, 7, alpha)
        out.append((s, t))
    return out


def distance_stream(rep, rng, n, exhaustive=False):
    pairs = [(b"x", b"abc"), ("é".encode(), b"e"), (b"rmive", b"remove"), (b"", b""), (b"", b"abc"), (b"abc", b""),
             (b"a", b"\xff"), (b"\xff", b"\xfe"), ("日本".encode(), "本日".encode())]
    pairs += gen_pairs(rng, n)
    if exhaustive:
        import itertools
        alpha = [b"a", b"b", "é".encode()]
        words = [b"".join(w) for k in range(0, 5) for w in itertools.product(alpha, repeat=k)]
        pairs += [(s, t) for s in words for t in words]
        rep.extra["exhaustive_pairs_alphabet_a_b_eacute_len_le_4"] = len(words) ** 2
    go = lib.go_unit([{"fn": "lev", "s": [s, t]} for s, t in pairs])
    coq = lib.coq_eval(["Base.Str", "Base.Utf8", "Model.Closest"],
                       "Definition run_case (c : str * str) : str := dec_of_N (N.of_nat (lev_go (fst c) (snd c))).",
                       "str * str", ["(%s, %s)" % (lib.coq_str(s), lib.coq_str(t)) for s, t in pairs], shard=4000, label="c20lev")
    hist = {}
    for (s, t), g, c in zip(pairs, go, coq):
        rs, rt = strgen.go_runes(s), strgen.go_runes(t)
        want = ref_lev(rs, rt)
        rep.count(("lev", s, t), nontrivial=(s != t and s and t))
        hist[want] = hist.get(want, 0) + 1
        rep.sample({"stream": "distance", "s": lib.l1(s), "t": lib.l1(t), "impl": g, "model": c.decode(), "true_distance": want})
        if g == "PANIC" or int(g) != want:
            rep.violation("levenshtein(%r,%r) = %s, true Levenshtein distance over characters is %d" % (s, t, g, want),
                          {"kind": "property-oracle", "fn": "lev", "s": lib.l1(s), "t": lib.l1(t), "impl": g, "expected": want,
                           "replay": "echo '{\"fn\":\"lev\",\"s\":[%s,%s]}' | build/harness.bin unit" % (lib.json.dumps(lib.l1(s)), lib.json.dumps(lib.l1(t)))})
            return False
        if g != c.decode():
            # correspondence broken but the implementation still computes the true distance here
            rep.violation("model lev_go and implementation disagree on (%r,%r): %s vs %s" % (s, t, c.decode(), g),
                          {"kind": "correspondence", "stream": "C20.distance", "theorem": "C20_distance", "s": lib.l1(s), "t": lib.l1(t),
                           "impl": g, "model": c.decode()}, no_input=True)
            return False
        rep.cov["traces_validated_against_impl"] += 1
    rep.extra["distance_histogram"] = {str(k): v for k, v in sorted(hist.items())}
    return True


def oracle_c20_message(sc, g):
    """implementation only: the ErrCommandRequired / ErrUnknownCommand message names the visible command nearest to the given word
    (reference Levenshtein over characters; any of the nearest on ties) if its distance is below half its length, otherwise it
    enumerates exactly the visible commands in sorted order; hidden commands never appear"""
    if "meta" not in sc:
        return None
    hidden_now = {}
    for o, r in zip(sc["ops"], g["ops"]):
        if o["op"] == "hide":
            hidden_now[tuple(o["path"])] = o["hidden"]
        if o["op"] != "parse" or r.get("panic"):
            continue
        e = scen.decode_err(r["err"])
        if e is None or e[0] != "F" or e[1] not in (11, 12):
            continue
        # the command the parser was in: follow the command words of this argument vector (Command.Active is not reset between
        # parses, so the observed active chain of a later parse may be stale)
        node = sc["meta"]
        apath = ()
        for tok in o["args"]:
            if tok.startswith(b"-") or node["pos"]:
                break
            hit = [(i, s2) for i, s2 in enumerate(node["subs"]) if tok == s2["name"] or tok in s2["aliases"]]
            if not hit:
                break
            i, node = hit[-1]
            apath += (i,)
        if any(t.startswith(b"-") for t in o["args"]):
            continue            # options may consume words; keep to plain command lines
        names = sorted(s2["name"] for i, s2 in enumerate(node["subs"]) if not hidden_now.get(apath + (i,), bool(s2.get("hidden"))))
        if len(set(names)) != len(names):
            continue
        def enum():
            if len(names) == 1: return None
            return b", ".join(names[:-1]) + b" or " + names[-1]
        msg = e[2]
        if e[1] == 11:
            want = b"" if not names else (b"Please specify the " + names[0] + b" command" if len(names) == 1 else b"Please specify one command of: " + enum())
            if msg != want:
                return "ErrCommandRequired message %r, expected %r (visible commands %r)" % (msg, want, names)
            continue
        pre = b"Unknown command `"
        if not msg.startswith(pre):
            return "ErrUnknownCommand message has an unexpected shape: %r" % (msg,)
        tails = [(b"', did you mean `" + c + b"'?", ("mean", c)) for c in names]
        if len(names) == 1: tails.append((b"'. You should use the " + names[0] + b" command", ("enum", None)))
        if len(names) > 1: tails.append((b"'. Please specify one command of: " + enum(), ("enum", None)))
        if not names: tails.append((b"'", ("none", None)))
        hit = [(t, k) for t, k in tails if msg.endswith(t)]
        if not hit:
            return "ErrUnknownCommand message %r neither suggests a visible command nor enumerates the visible commands %r" % (msg, names)
        t, (kind, c) = max(hit, key=lambda x: len(x[0]))
        word = msg[len(pre):len(msg) - len(t)]
        if not names:
            continue
        dist = {n: ref_lev(strgen.go_runes(word), strgen.go_runes(n)) for n in names}
        best = min(dist.values())
        near = [n for n in names if dist[n] == best]
        # the threshold is ambiguous between bytes and characters for non-ASCII names: judge only when both readings agree
        def below(n):
            a = dist[n] / len(n) < 0.5 if len(n) else False
            b = dist[n] / len(strgen.go_runes(n)) < 0.5 if len(n) else False
            return a if a == b else None
        if kind == "mean":
            if c not in near:
                return "suggested %r (distance %d) but %r is nearer to %r (distance %d)" % (c, dist[c], near[0], word, best)
            if below(c) is False:
                return "suggested %r although its distance %d to %r is not below half its length" % (c, dist[c], word)
        else:
            if all(below(n) is True for n in near):
                return "no suggestion although %r is at distance %d (< half its length) from %r" % (near[0], best, word)
    return None


def run(rep, tier, rng, replay=None):
    rep.cov["rule"] = ("distance stream: pairs (s,t) of byte strings (ASCII / multi-byte / invalid UTF-8, lengths 0-7, t a small edit of s "
                       "half of the time) through the hook VerifLevenshtein vs model lev_go (evaluated in Coq) vs a Python reference; "
                       "message stream: random command sets (visible/hidden/aliases) x words through ParseArgs vs the model; "
                       "non-trivial = both strings non-empty and different / scenario reaches estimateCommand; distinct by content hash")
    if replay:
        from . import parsecheck
        common.replay(rep, "C20", replay, keys=["panic", "err"]); return
    if not lib.std_proof_phase(rep, "C20"):
        return
    if not distance_stream(rep, rng, 600 if tier == "quick" else 20000, exhaustive=(tier == "thorough")):
        return
    from . import parsecheck
    cfg = parsecheck.CONFIG["C20"]
    common.scenario_check(rep, rng, "C20", 400 if tier == "quick" else 15000, profile=cfg["profile"], keys=cfg["keys"], transform=None,
                          theorem_names="C20_message", stream="message", oracle=oracle_c20_message,
                          nontrivial=lambda sc, g: bool(g["ops"]) and g["ops"][0].get("err", "").startswith(("F:11", "F:12")))
