from . import inichecks


def run(rep, tier, rng, replay=None):
    inichecks.run_c14(rep, tier, rng, replay)
