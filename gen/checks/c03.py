"""C03 - decided on the ParseArgs model; see parsecheck.CONFIG["C03"]."""
from . import parsecheck


def run(rep, tier, rng, replay=None):
    rep.cov["rule"] = parsecheck.rule_text("C03")
    parsecheck.run_property(rep, rng, "C03", tier, replay)
