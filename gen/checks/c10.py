"""C10 - decided on the ParseArgs model; see parsecheck.CONFIG["C10"]."""
from . import parsecheck


def run(rep, tier, rng, replay=None):
    rep.cov["rule"] = parsecheck.rule_text("C10")
    parsecheck.run_property(rep, rng, "C10", tier, replay)
