"""C01 - decided on the ParseArgs model; see parsecheck.CONFIG["C01"]."""
from . import parsecheck


def run(rep, tier, rng, replay=None):
    rep.cov["rule"] = parsecheck.rule_text("C01")
    parsecheck.run_property(rep, rng, "C01", tier, replay)
