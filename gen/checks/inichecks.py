"""C13, C14, C15: INI-related checks (model correspondence + implementation-only oracles)."""
import copy
from .. import lib, scen, runner, declgen, inigen, units
from . import common, parsecheck

INI_KEYS = ["panic", "err", "vals", "calls", "bytes", "set"]
PROFILE = dict(p_addoption=0.08, p_dupfield=0.1, p_bad_default=0.0, p_required=0.03, p_commands=0.45, p_group=0.45, p_namespace=0.6, p_ininame=0.3, p_inicross=0.12, p_noini=0.06, p_hidden=0.05,
               p_default=0.25, p_env=0.05, p_init=0.1, p_choice=0.08, p_positional=0.1, p_help=0.3)


def make_ini_scenario(rng, profile=None, p_noise=0.3, p_fault=0.1, p_unknown=0.06, asdef_p=0.4, with_parse=True, write=False):
    g = declgen.Gen(rng, dict(PROFILE, **(profile or {})))
    sc = g.gen_scenario()
    ini = {"op": "ini", "text": inigen.gen_ini(g, sc, rng, p_noise=p_noise, p_fault=p_fault, p_unknown=p_unknown), "asdefaults": rng.random() < asdef_p}
    x = rng.random()
    if not with_parse or x < 0.35:
        ops = [ini]
    elif x < 0.7:
        ops = [ini, sc["ops"][0]]
    else:
        ops = [sc["ops"][0], ini]
    if write:
        ops.append({"op": "writeini", "iniopts": rng.choice([0, 2, 6, 8, 10, 14])})
    sc["ops"] = ops
    return sc, g


# ---------------------------------------------------------------- C13
def c13_equivalence_stream(rep, rng, n):
    """metamorphic, implementation only: entries of one section vs the equivalent flags on a fresh parser"""
    pairs = []
    for _ in range(n):
        g = declgen.Gen(rng, dict(PROFILE, p_required=0.0, p_init=0.0, p_env=0.0, p_choice=0.05, p_default=0.15, p_optional=0.0, p_help=0.0,
                                  p_exec=0.0, p_cmdhandler=0.0, p_handler=0.0, p_positional=0.0, p_subopt=1.0, p_print=0.0, p_hidden=0.0, p_noini=0.0))
        sc = g.gen_scenario()
        sc["cfg"]["env"] = []
        sc["cfg"]["subopt"] = True
        secs = [(name, [o for o in opts if o["long"] and o["type"][0] != "func"]) for name, opts in inigen.sections_of(sc)]
        secs = [(nm, os_) for nm, os_ in secs if os_]
        if not secs:
            continue
        name, opts = rng.choice(secs)
        # the command path of the section = leading command names
        path = []
        node = sc["meta"]
        parts = name.split(b".") if name else []
        for p in parts:
            nxt = [s for s in node["subs"] if s["name"] == p]
            if not nxt: break
            path.append(p); node = nxt[0]
        # names that denote exactly one option of the whole declaration, whatever naming form is used
        allnames = {}
        def collect(nd):
            for o2 in nd["opts"]:
                forms = set()
                if o2.get("ininame"): forms.add(o2["ininame"].lower())
                forms.add(o2["field"]); forms.add(o2["field"].lower())
                if o2["long"]: forms.add(g.qlong(sc, o2)); forms.add(g.qlong(sc, o2).lower())
                if o2["short"]: forms.add(o2["short"])
                for f in forms: allnames[f] = allnames.get(f, 0) + 1
            for s2 in nd["subs"]: collect(s2)
        collect(sc["meta"])
        entries = []
        flags_ = list(path)
        asdef = rng.random() < 0.4
        for _k in range(rng.randint(1, 4)):
            o = rng.choice(opts)
            if o["isbool"]:
                v = b""
                flags_.append(b"--" + g.qlong(sc, o))
            else:
                v = rng.choice(o["choices"]) if o["choices"] else g.value_text(o["type"], o["base"], True)
                if v.startswith(b'"') or v != v.strip() or b"\n" in v or b"\r" in v:
                    continue
                try:
                    if v.decode("utf-8").strip().encode() != v: continue
                except UnicodeDecodeError:
                    continue
                if o["type"][0] == "map" and b":" in v and v.partition(b":")[2].startswith(b'"'):
                    continue
                flags_.append(b"--" + g.qlong(sc, o) + b"=" + v)
            en = inigen.entry_name(rng, sc, o)
            ql = g.qlong(sc, o)
            if allnames.get(en, 0) != 1 or allnames.get(en.lower(), 0) > 1 or allnames.get(ql, 0) != 1:
                # the entry name, and the long name used for the equivalent flag, must each denote exactly this option
                flags_.pop()
                continue
            entries.append(en + rng.choice([b"=", b" = ", b"\t=  "]) + v)
        if not entries:
            continue
        sec_line = [] if name == b"" else [b"[" + rng.choice([name, name.upper() if not path else name]) + b"]"]
        text = b"\n".join(sec_line + entries) + b"\n"
        a = copy.deepcopy({k: v for k, v in sc.items() if k != "meta"})
        a["ops"] = [{"op": "ini", "text": text, "asdefaults": asdef}, {"op": "parse", "args": list(path)}]
        b = copy.deepcopy({k: v for k, v in sc.items() if k != "meta"})
        b["ops"] = [{"op": "parse", "args": flags_}]
        # unquoting applies on the command line: skip values that the flag form would unquote
        if any(f.partition(b"=")[2].startswith(b'"') for f in flags_):
            continue
        pairs.append((a, b, text, flags_))
    if not pairs:
        return True
    ga = runner.run_impl([p[0] for p in pairs])
    gb = runner.run_impl([p[1] for p in pairs])
    for (a, b, text, fl), ra, rb in zip(pairs, ga, gb):
        rep.count(("c13", text, tuple(fl)))
        rep.sample({"stream": "ini-vs-flags", "ini": lib.l1(text), "flags": [lib.l1(x) for x in fl]})
        if not ra["ops"] or not rb["ops"]:
            continue
        ia = ra["ops"][0]
        if ia.get("panic"):
            rep.violation("C13: reading INI panicked", {"kind": "property-oracle", "property": "C13", "scenario": common.scenario_json(a), "impl": ra})
            return False
        ea, eb = scen.decode_err(ia["err"]), scen.decode_err(rb["ops"][0]["err"])
        if (ea is None) != (eb is None or (eb[0] == "F" and eb[1] in (7, 11, 12))):
            # the flag form may additionally fail on required/command checks, which INI reading does not perform
            if ea is None and eb is not None:
                continue
            rep.violation("C13: INI entries rejected (%r) but the equivalent flags %r are accepted" % (ea, fl),
                          {"kind": "property-oracle", "property": "C13", "ini": lib.l1(text), "flags": [lib.l1(x) for x in fl],
                           "scenario": common.scenario_json(a), "impl_ini": ra, "impl_flags": rb})
            return False
        if ea is None and eb is None and len(ra["ops"]) > 1 and ra["ops"][1]["err"] == "nil":
            va, vb = ra["ops"][1]["vals"], rb["ops"][0]["vals"]
            if va != vb:
                da = [(x, y) for x, y in zip(va.split(";"), vb.split(";")) if x != y][:3]
                rep.violation("C13: INI entries and the equivalent flags store different values: %r" % da,
                              {"kind": "property-oracle", "property": "C13", "ini": lib.l1(text), "flags": [lib.l1(x) for x in fl],
                               "scenario": common.scenario_json(a), "impl_ini": ra, "impl_flags": rb})
                return False
        rep.cov["traces_validated_against_impl"] += 1
    return True


def run_c13(rep, tier, rng, replay=None):
    rep.cov["rule"] = ("(1) INI-vs-flags metamorphic stream on the implementation: a section with 1-4 entries (named by ini-name/field/long/short, "
                       "random section spelling) against the equivalent --long=value flags on a fresh parser, values compared; (2) correspondence "
                       "stream: random declaration x generated INI text (all naming forms, noise, faults) x read mode x order relative to ParseArgs, "
                       "implementation vs Gallina model on error, values, callbacks; non-trivial = at least one entry reached an option")
    if replay:
        common.replay(rep, "C13", replay, keys=INI_KEYS); return
    if not lib.std_proof_phase(rep, "C13"): return
    n = 400 if tier == "quick" else 12000
    if not c13_equivalence_stream(rep, rng, n // 2): return
    common.scenario_check(rep, rng, "C13", n, keys=INI_KEYS, transform=None, stream="ini", theorem_names="C13_*",
                          make=lambda r: make_ini_scenario(r, p_fault=0.03, p_unknown=0.03)[0])


# ---------------------------------------------------------------- C14
def oracle_c14(sc, g):
    for o, r in zip(sc["ops"], g["ops"]):
        if o["op"] == "ini" and r.get("panic"):
            return "IniParser.Parse panicked: " + r["panic"][:160]
    return None


def make_c14(rng):
    x = rng.random()
    sc, g = make_ini_scenario(rng, p_noise=0.5, p_fault=0.45, p_unknown=0.3, with_parse=False)
    if x < 0.25:
        # arbitrary bytes
        sc["ops"][0]["text"] = b"\n".join(units.wild(rng, 12) for _ in range(rng.randint(0, 6)))
    elif x < 0.35:
        t = sc["ops"][0]["text"]
        if t:
            i = rng.randrange(len(t))
            sc["ops"][0]["text"] = t[:i] + rng.choice([b"\x00", b"[", b"]", b"=", b'"', b"\r", b"\n\n", b":", b"\xff"]) + t[i:]
    elif x < 0.4:
        sc["ops"][0]["text"] = sc["ops"][0]["text"].replace(b"\n", b"\n;" + b"x" * 5000 + b"\n", 1)
    elif x < 0.415:
        # a line longer than 64 KiB (comment, or an entry whose name is unknown) in front of the rest
        long_line = rng.choice([b";" + b"y" * 70000, b"#" + b" z" * 40000, b"nosuchoption = " + b"v" * 66000])
        t = sc["ops"][0]["text"]
        sc["ops"][0]["text"] = (long_line + b"\n" + t) if rng.random() < 0.5 else t.replace(b"\n", b"\n" + long_line + b"\n", 1)
    return sc


def noise_metamorphic_stream(rep, rng, n):
    """inserting blank/comment lines and padding shifts reported line numbers by exactly the number of inserted lines before the fault
    and changes nothing else (implementation only)"""
    base, noisy, shifts = [], [], []
    for _ in range(n):
        sc, g = make_ini_scenario(rng, p_noise=0.0, p_fault=0.3, p_unknown=0.15, with_parse=False)
        text = sc["ops"][0]["text"]
        if b"\r" in text:
            continue
        lines = text.split(b"\n")
        out, ins_before = [], []
        count = 0
        for ln in lines:
            while rng.random() < 0.35:
                if rng.random() < 0.04:
                    # arbitrarily long lines: beyond bufio's 4096-byte buffer and beyond the 64 KiB Scanner token limit
                    out.append(rng.choice([b";", b"#", b" ; "]) + b"L" * rng.choice([5000, 70000, 200000]))
                else:
                    out.append(rng.choice([b"", b"  ", b"; c", b"# c", b"\t"]))
                count += 1
            ins_before.append(count)
            out.append(rng.choice([b"", b" ", b"\t"]) + ln + rng.choice([b"", b"  "]) if ln.strip() else ln)
        sc2 = copy.deepcopy({k: v for k, v in sc.items() if k != "meta"})
        sc2["ops"][0]["text"] = b"\n".join(out).replace(b"\n", rng.choice([b"\n", b"\r\n"]))
        base.append(sc); noisy.append(sc2); shifts.append(ins_before)
    ga, gb = runner.run_impl(base), runner.run_impl(noisy)
    for sc, sc2, sh_, ra, rb in zip(base, noisy, shifts, ga, gb):
        rep.count(("c14noise", sc2["ops"][0]["text"]))
        if not ra["ops"] or not rb["ops"]:
            continue
        a, b = ra["ops"][0], rb["ops"][0]
        ea, eb = scen.decode_err(a["err"]), scen.decode_err(b["err"])
        bad = None
        if a.get("panic") or b.get("panic"):
            bad = "panic"
        elif (ea is None) != (eb is None):
            bad = "noise changed success into failure or back: %r vs %r" % (ea, eb)
        elif ea is not None:
            if ea[0] != eb[0] or (ea[0] != "I" and ea[1:] != eb[1:]):
                bad = "noise changed the error: %r vs %r" % (ea, eb)
            elif ea[0] == "I":
                k = ea[1]
                want = k + (sh_[k - 1] if 0 < k <= len(sh_) else 0)
                msg_a = ea[2] if not ea[2].startswith(b"malformed key=value") else b"malformed"
                msg_b = eb[2] if not eb[2].startswith(b"malformed key=value") else b"malformed"
                if eb[1] != want or msg_a != msg_b:
                    bad = "line %d of the clean file is reported as line %d after inserting %d lines before it (message %r vs %r)" % (
                        k, eb[1], want - k, ea[2][:40], eb[2][:40])
        elif a["vals"] != b["vals"]:
            bad = "noise lines changed the values"
        if bad:
            rep.violation("C14: " + bad, {"kind": "property-oracle", "property": "C14", "what": bad, "scenario": common.scenario_json(sc),
                                           "noisy": lib.l1(sc2["ops"][0]["text"]), "impl_clean": ra, "impl_noisy": rb})
            return False
        rep.cov["traces_validated_against_impl"] += 1
    return True


def run_c14(rep, tier, rng, replay=None):
    rep.cov["rule"] = ("(1) correspondence stream: declaration x INI text (structured with noise lines, CRLF, padding, 5000- and 70000-byte lines, one injected fault; "
                       "or arbitrary bytes) with/without IgnoreUnknown: implementation vs model on panic, error (type, line, message) and values; "
                       "(2) metamorphic noise stream on the implementation: inserted blank/comment lines (some 5000-200000 bytes long) and padding must shift the reported line by "
                       "exactly the inserted count and change nothing else; non-trivial = text has at least one non-noise line")
    if replay:
        common.replay(rep, "C14", replay, keys=INI_KEYS, oracle=oracle_c14); return
    if not lib.std_proof_phase(rep, "C14"): return
    n = 500 if tier == "quick" else 15000
    if not noise_metamorphic_stream(rep, rng, n // 2): return
    common.scenario_check(rep, rng, "C14", n, keys=["panic", "err", "vals"], transform=None, stream="ini", theorem_names="C14_*",
                          make=make_c14, oracle=oracle_c14)


# ---------------------------------------------------------------- C15
def tie_word(names, rng):
    """a word at the same (small) edit distance from two of the given names, if one is found by single substitutions"""
    from .c20 import ref_lev
    from .. import strgen
    names = [n for n in names if n and all(c < 128 for c in n)]
    rng.shuffle(names)
    for a in names[:6]:
        for b in names[:6]:
            if a == b or len(a) != len(b):
                continue
            for i in range(len(a)):
                for ch in set(b) | {ord("x")}:
                    w = a[:i] + bytes([ch]) + a[i + 1:]
                    if w in names:
                        continue
                    da, db = ref_lev(list(w), list(a)), ref_lev(list(w), list(b))
                    if da == db and 0 < da < len(a) / 2:
                        return w
    return None


def make_c15(rng):
    x = rng.random()
    prof = dict(PROFILE, p_init=0.5, p_desc=0.6, p_default=0.3, p_required=0.15, p_commands=0.5,
                types=[("map", 30), ("slice", 10), ("string", 10), ("int", 8), ("bool", 8), ("ptr", 4), ("float64", 3), ("custom", 3), ("comp", 4), ("func", 3)])
    sc, g = make_ini_scenario(rng, prof, p_fault=0.1, p_unknown=0.1, write=True)
    # the same keys in several sections: duplicate one section's entries into the global section
    t = sc["ops"][[o["op"] for o in sc["ops"]].index("ini")]["text"]
    if rng.random() < 0.5 and b"[" in t:
        body = [l for l in t.split(b"\n") if b"=" in l and not l.strip().startswith((b";", b"#"))]
        if body:
            t = b"\n".join(rng.sample(body, min(2, len(body)))) + b"\n" + t
            sc["ops"][[o["op"] for o in sc["ops"]].index("ini")]["text"] = t
    sc["ops"] += [{"op": "help"}, {"op": "man"}, {"op": "complete", "args": [rng.choice([b"-", b"--", b"", b"--a"])]}]
    # an unknown command word equally near to two commands (names or aliases): the diagnostic must not depend on map order
    root = sc["meta"]
    names = [x for s2 in root["subs"] for x in [s2["name"]] + s2["aliases"]]
    w = tie_word(names, rng) if len(names) > 1 else None
    if w is None and names and rng.random() < 0.5:
        w = rng.choice(names)[:-1] + b"x"
    if w:
        sc["ops"].append({"op": "parse", "args": [w]})
    sc["repeat"] = 6
    return sc


def oracle_c15(sc, g):
    if g.get("nondet"):
        return "repeated evaluation gives different observations (%s)" % g["nondet"]
    return None


def run_c15(rep, tier, rng, replay=None):
    rep.cov["rule"] = ("history scenarios (INI read incl. the same key in several sections, ParseArgs, IniParser.Write, WriteHelp, WriteManPage, completion) "
                       "over declarations rich in maps with several entries; the harness runs every scenario 6 times in one process (Go randomises each "
                       "map range) and demands byte-identical observations, and the single model result (which has no order parameter) must equal them; "
                       "non-trivial = scenario has at least one operation that ranges over a Go map")
    keys = INI_KEYS + ["items", "out"]
    if replay:
        common.replay(rep, "C15", replay, keys=keys, oracle=oracle_c15); return
    if not lib.std_proof_phase(rep, "C15"): return
    n = 120 if tier == "quick" else 8000
    common.scenario_check(rep, rng, "C15", n, keys=keys, transform=None, stream="history", theorem_names="C15_*", make=make_c15, oracle=oracle_c15)
