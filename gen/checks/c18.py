from . import helpchecks


def run(rep, tier, rng, replay=None):
    helpchecks.run_c18(rep, tier, rng, replay)
