"""C02 - decided on the ParseArgs model; see parsecheck.CONFIG["C02"]."""
from . import parsecheck


def run(rep, tier, rng, replay=None):
    rep.cov["rule"] = parsecheck.rule_text("C02")
    parsecheck.run_property(rep, rng, "C02", tier, replay)
