"""C04 - decided on the ParseArgs model; see parsecheck.CONFIG["C04"]."""
from . import parsecheck


def run(rep, tier, rng, replay=None):
    rep.cov["rule"] = parsecheck.rule_text("C04")
    parsecheck.run_property(rep, rng, "C04", tier, replay)
