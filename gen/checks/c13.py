from . import inichecks


def run(rep, tier, rng, replay=None):
    inichecks.run_c13(rep, tier, rng, replay)
