"""C06 - decided on the ParseArgs model; see parsecheck.CONFIG["C06"]."""
from . import parsecheck


def run(rep, tier, rng, replay=None):
    rep.cov["rule"] = parsecheck.rule_text("C06")
    parsecheck.run_property(rep, rng, "C06", tier, replay)
