"""Table-driven checks for the properties decided on the ParseArgs model (C01-C11, C20 message)."""
from .. import lib, scen, runner, declgen
from . import common

ERR_TYPE_ONLY = None


def t_err_type_only(d):
    """compare errors by kind and type, not message text"""
    d = common.hide_help(d)
    e = d.get("err", "")
    if e.startswith("F:") or e.startswith("I:"):
        d["err"] = ":".join(e.split(":")[:2])
    elif e.startswith("X:"):
        d["err"] = "X"
    if "out" in d:
        d["out"] = d["out"][:2]
    return d


def is_subsequence(small, big):
    it = iter(big)
    return all(any(x == y for y in it) for x in small)


# ---------------------------------------------------------------- implementation-only property oracles
def oracle_c03(sc, g):
    if sc["cfg"]["handler"] != "none":
        return None
    for o, r in zip(sc["ops"], g["ops"]):
        if o["op"] != "parse" or r.get("panic"):
            continue
        if r["err"] == "nil":
            ret = scen.decode_list(r["ret"]) or []
            if not is_subsequence(ret, o["args"]):
                return "returned args %r are not an in-order subsequence of argv %r" % (ret, o["args"])
            ex = r.get("exec", "")
            if ex:
                args = scen.decode_list(ex.split(":", 2)[2])
                if args != ret:
                    return "command received %r but parser returned %r" % (args, ret)
    return None


def oracle_c04(sc, g):
    for o, r in zip(sc["ops"], g["ops"]):
        if o["op"] != "parse":
            continue
        if r.get("panic"):
            return "ParseArgs panicked: %s" % r["panic"][:200]
        e = scen.decode_err(r["err"])
        out = r.get("out", "")
        if not sc["cfg"]["opts"]["print"]:
            if out:
                return "output written although PrintErrors is off: %s" % out[:80]
        else:
            if e is None and out:
                return "output written on success"
            if e is not None:
                text = (e[2] if e[0] != "I" else b":%d: " % e[1] + e[2]) + b"\n"
                want = ("1:" if (e[0] == "F" and e[1] == 5) else "2:") + text.hex()
                if out != want:
                    return "error text not written exactly once to the right stream (got %s...)" % out[:60]
    return None


def oracle_c09(sc, g):
    for o, r in zip(sc["ops"], g["ops"]):
        if o["op"] != "parse" or r.get("panic"):
            continue
        e = scen.decode_err(r["err"])
        ex = [x for x in r.get("exec", "").split(";") if x]
        from_exec = e is not None and e[0] == "X" and e[2].startswith(b"exec failed")
        if e is not None and not from_exec and ex:
            return "command executed although parsing failed with %r" % (e,)
        if len(ex) > 1:
            return "more than one command invocation: %r" % ex
        if e is None and ex:
            args = scen.decode_list(ex[0].split(":", 2)[2])
            if args != (scen.decode_list(r["ret"]) or []):
                return "executed with %r, parser returned %r" % (args, r["ret"])
    return None


def oracle_c06(sc, g):
    """implementation only: the required options of the parser and the active chain that are not set (Option.IsSet, observed
    after the parse) are exactly the ones ErrRequired names; nothing is executed then; no ErrRequired about options otherwise"""
    import re
    if "meta" not in sc:
        return None
    d = sc["cfg"]["nsdelim"]
    for o, r in zip(sc["ops"], g["ops"]):
        if o["op"] != "parse" or r.get("panic"):
            continue
        e = scen.decode_err(r["err"])
        if e is not None and not (e[0] == "F" and e[1] in (7, 11, 12)):
            continue                    # an error of the argument loop: the required check is not reached
        node = sc["meta"]
        chain = [node]
        try:
            for idx in [int(x) for x in r.get("active", "").split(".") if x != ""]:
                node = node["subs"][idx]
                chain.append(node)
        except (IndexError, ValueError):
            continue
        bits = {}
        for ent in r.get("set", "").split(";"):
            if ent:
                k, _, b = ent.rpartition(":")
                bits[k] = b
        missing = set()
        for nd in chain:
            for info in nd["opts"]:
                if not info.get("required"):
                    continue
                sh = info["short"].decode("utf-8", "replace") if info["short"] else ""
                key = "%s|%s|%d" % (info["field"].hex(), (info["long"] or b"").hex(), ord(sh) if len(sh) == 1 else 0)
                b = bits.get(key)
                if b is None or b[0] == "1":
                    continue            # not a live option of the parser (nil pointer struct ...) or supplied
                name = []
                if info["short"]: name.append(b"-" + info["short"])
                if info["long"]: name.append(b"--" + d.join([n for n in info.get("ns", ()) if n] + [info["long"]]))
                missing.add(b", ".join(name))
        ex = [x for x in r.get("exec", "").split(";") if x]
        if missing:
            if not (e is not None and e[1] == 7):
                return "required option(s) %r were not supplied but the parse did not fail with ErrRequired (%r)" % (sorted(missing), e)
            named = set(re.findall(rb"`([^']*)'", e[2]))
            if named != missing:
                return "ErrRequired names %r, the missing required options are %r" % (sorted(named), sorted(missing))
            if ex:
                return "a command was executed although required options are missing"
        elif e is not None and e[1] == 7 and not e[2].startswith(b"the required argument"):
            return "ErrRequired about options although every required option of the parser and the active chain is set: %r" % (e[2][:120],)
    return None


def oracle_c07_handler(sc, g):
    """implementation only: with the identity handler installed (and nothing that ends option parsing early), every stand-alone
    unknown token --nosuch / --nosuch=1 / -Z / -Z=3 of a successful parse caused exactly one handler call, with its name, its inline
    argument and exactly the tokens after it; under IgnoreUnknown (no handler call) each of them is among the returned arguments"""
    cfg = sc["cfg"]
    if cfg["opts"]["passdd"] or cfg["opts"]["passafter"]:
        return None
    probes = {b"--nosuch": (b"nosuch", None), b"--nosuch=1": (b"nosuch", b"1"), b"-Z": (b"Z", None), b"-Z=3": (b"Z", b"3")}
    for o, r in zip(sc["ops"], g["ops"]):
        if o["op"] != "parse" or r.get("panic") or r["err"] != "nil":
            continue
        args = o["args"]
        idx = [i for i, t in enumerate(args) if t in probes]
        if not idx:
            continue
        if cfg["opts"]["ignore"]:
            def has_pos(nd):
                return bool(nd["pos"]) or any(has_pos(x) for x in nd["subs"])
            if "meta" not in sc or has_pos(sc["meta"]):
                continue            # passed-through tokens go to unfilled positional arguments first
            ret = scen.decode_list(r["ret"]) or []
            for i in idx:
                if ret.count(args[i]) < sum(1 for j in idx if args[j] == args[i]):
                    return "the unknown option %r was not passed through to the remaining arguments under IgnoreUnknown" % (args[i],)
            continue
        if cfg["handler"] != "identity":
            continue
        calls = []
        for ent in [x for x in r.get("unknown", "").split(";") if x]:
            nm, ar, rest = ent.split(":", 2)
            calls.append((scen.unhex(nm), None if ar == "nil" else scen.unhex(ar), scen.decode_list(rest) or []))
        for i in idx:
            nm, ar = probes[args[i]]
            hits = [c for c in calls if c[0] == nm and c[1] == ar and c[2] == list(args[i + 1:])]
            if len(hits) != 1:
                return "the handler was called %d times for the unknown option %r at position %d (expected once, with the %d tokens after it)" % (
                    len(hits), args[i], i, len(args) - i - 1)
    return None


def make_c01(profile):
    def mk(rng):
        sc = declgen.Gen(rng, profile).gen_scenario()
        sc["ops"].insert(0, {"op": "observe"})      # observation of every field before anything is parsed
        return sc
    return mk


def oracle_c01_untouched(sc, g):
    """implementation only: fields that carry no option tag hold after every operation what they held before the first one"""
    if not g["ops"] or sc["ops"][0]["op"] != "observe":
        return None
    plain = set()
    def walk(fs):
        for f in fs:
            if "struct" in f: walk(f["struct"]["fields"])
            elif f["name"].startswith(b"P"): plain.add(f["fid"])      # declgen.gen_plain_field: no long/short/ini-name tag
    for fl in scen.all_field_lists(sc): walk(fl)
    def vals(r):
        d = {}
        for part in r.get("vals", "").split(";"):
            if part:
                k, _, v = part.partition(":")
                d[int(k)] = v
        return d
    before = vals(g["ops"][0])
    for o, r in zip(sc["ops"][1:], g["ops"][1:]):
        if r.get("panic"):
            continue
        after = vals(r)
        for fid in plain:
            if fid in before and fid in after and before[fid] != after[fid]:
                return "the untagged field with id %d was %s before and is %s after %s" % (fid, before[fid], after[fid], o["op"])
    return None


def combine(*fs):
    def f(sc, g):
        for x in fs:
            m = x(sc, g)
            if m:
                return m
        return None
    return f


FULL = runner.ALL_KEYS

CONFIG = {
    "C01": dict(profile=dict(p_mid_attach=0.08, p_addoption=0.08, p_repeat_opt=0.5, p_required=0.03, p_bad_value=0.03, p_ev_unknown=0.02, p_ev_garbage=0.01, p_group=0.45, p_namespace=0.7,
                             p_commands=0.5, n_events=(1, 9), p_untagged=0.2, p_init=0.3, p_mutate_argv=0.03),
                keys=["panic", "err", "vals", "calls", "attached", "set"], transform=t_err_type_only, theorems="C01_*",
                oracle=oracle_c01_untouched, make="c01"),
    "C02": dict(profile=dict(p_required=0.02, p_mb_short=0.25, p_quoted=0.3, p_bad_value=0.05, p_commands=0.2, p_ev_unknown=0.02, p_ev_garbage=0.01),
                keys=FULL, transform=common.hide_help, theorems="C02_*"),
    "C03": dict(profile=dict(p_required=0.02, p_passdd=0.7, p_passafter=0.4, p_ignore=0.4, p_ev_plain=0.3, p_ev_term=0.1, p_ev_unknown=0.12,
                             p_positional=0.5, p_bad_value=0.02, p_handler=0.05, n_events=(1, 10)),
                keys=["panic", "err", "ret", "vals", "exec"], transform=t_err_type_only, oracle=oracle_c03, theorems="C03_*"),
    "C04": dict(profile=dict(p_ev_garbage=0.25, p_ev_unknown=0.15, p_mutate_argv=0.5, p_bad_value=0.25, p_mb_short=0.2, p_print=0.6, n_events=(0, 8), p_addoption=0.12),
                keys=["panic", "err", "out"], transform=common.hide_help, oracle=oracle_c04, theorems="C04_*"),
    "C05": dict(profile=dict(p_addoption=0.08, p_default=0.5, p_env=0.5, p_init=0.5, p_env_set=0.9, p_required=0.02, p_ev_opt=0.4, n_events=(0, 4), p_bad_value=0.03,
                             p_group=0.6, p_envns=0.7, p_ev_unknown=0.01, p_ev_garbage=0.0, p_mutate_argv=0.0, p_bad_default=0.02,
                             types=[("bool", 6), ("int", 8), ("uint8", 3), ("float64", 3), ("string", 12), ("duration", 2), ("custom", 3),
                                    ("ptr", 6), ("slice", 18), ("map", 14), ("func", 3)]),
                keys=["panic", "err", "vals", "set"], transform=t_err_type_only, theorems="C05_*"),
    "C06": dict(profile=dict(p_addoption=0.08, p_required=0.45, p_positional=0.6, p_pos_required=0.7, p_commands=0.6, p_bad_value=0.01, p_ev_unknown=0.01, p_ev_garbage=0.0,
                             p_default=0.1, n_events=(0, 7), p_mutate_argv=0.02),
                keys=["panic", "err", "exec", "set"], transform=common.hide_help, oracle=combine(oracle_c09, oracle_c06), theorems="C06_*"),
    "C07": dict(profile=dict(p_ev_unknown=0.3, p_wrong_scope=0.3, p_ignore=0.35, p_handler=0.45, p_required=0.02, p_commands=0.6, p_bad_value=0.02,
                             p_namespace=0.8, p_group=0.4, p_ev_cmd=0.2, max_depth=3, p_subopt=0.4, p_sibling_cmd=0.35),
                keys=["panic", "err", "unknown", "ret", "vals"], transform=common.hide_help, theorems="C07_*", oracle=oracle_c07_handler, n_parses=2),
    "C08": dict(profile=dict(p_mid_attach=0.2, p_commands=0.95, max_depth=3, p_alias=0.6, p_subopt=0.4, p_ev_cmd=0.35, p_required=0.02, p_bad_value=0.02,
                             p_ev_unknown=0.03, n_events=(1, 9), p_positional=0.15, p_sibling_cmd=0.25),
                keys=["panic", "err", "active", "vals", "ret"], transform=common.hide_help, theorems="C08_*", n_quick=250, n_parses=2),
    "C09": dict(profile=dict(p_addoption=0.08, p_commands=0.95, p_exec=0.9, p_cmdhandler=0.5, p_exec_err=0.3, p_ev_cmd=0.3, p_required=0.15, p_bad_value=0.1,
                             p_ev_unknown=0.08, p_help=0.7, n_events=(1, 8)),
                keys=["panic", "err", "exec", "ret"], transform=common.hide_help, oracle=oracle_c09, theorems="C09_*", n_quick=400),
    "C10": dict(profile=dict(p_positional=0.95, n_pos=(1, 4), p_ev_plain=0.4, p_ev_term=0.08, p_passdd=0.8, p_required=0.02, p_commands=0.4,
                             p_bad_value=0.04, p_ev_unknown=0.02, n_events=(1, 10), p_pos_required=0.2),
                keys=["panic", "err", "vals", "ret"], transform=t_err_type_only, theorems="C10_*", n_parses=2),
    "C11": dict(profile=dict(p_bad_value=0.35, p_base=0.4, p_choice=0.3, p_required=0.01, p_commands=0.15, p_ev_unknown=0.01, p_ev_garbage=0.0,
                             p_ev_opt=0.85, n_events=(1, 5), p_mutate_argv=0.0, p_quoted=0.03,
                             types=[("bool", 3), ("int", 8), ("int8", 8), ("int16", 5), ("int32", 5), ("int64", 6), ("uint", 5), ("uint8", 8), ("uint16", 4),
                                    ("uint32", 4), ("uint64", 6), ("float32", 9), ("float64", 5), ("string", 3), ("duration", 4), ("custom", 4), ("comp", 4),
                                    ("ptr", 8), ("slice", 8), ("map", 8), ("func", 3)]),
                keys=["panic", "err", "vals", "calls"], transform=common.hide_help, theorems="C11_*"),
    "C20": dict(profile=dict(p_mid_hide=0.2, p_commands=1.0, p_tagcmd=0.6, n_cmds=(1, 4), p_cmd_hidden=0.3, p_subopt=0.05, p_ev_cmd=0.1, p_ev_plain=0.4, p_required=0.0,
                             p_positional=0.0, p_bad_value=0.0, p_ev_unknown=0.0, p_ev_garbage=0.02, n_events=(0, 3), n_opts=(0, 2)),
                keys=["panic", "err"], transform=common.hide_help, theorems="C20_message"),
}


def c05_history_stream(rep, rng, tier):
    """C05: INI (normal / as-defaults) before or after the command line, with env, default tags and initial values present at once"""
    from . import inichecks
    prof = dict(CONFIG["C05"]["profile"], p_ininame=0.2)
    def make(r):
        sc, g = inichecks.make_ini_scenario(r, prof, p_noise=0.05, p_fault=0.0, p_unknown=0.0, asdef_p=0.65, with_parse=True)
        return sc
    return common.scenario_check(rep, rng, "C05", 250 if tier == "quick" else 8000, keys=["panic", "err", "vals", "set"], transform=t_err_type_only,
                                 theorem_names="C05_*", stream="ini+parse", make=make)


def run_property(rep, rng, pid, tier, replay=None, extra_streams=None):
    cfg = CONFIG[pid]
    if replay:
        common.replay(rep, pid, replay, keys=cfg["keys"], transform=cfg["transform"], oracle=cfg.get("oracle"))
        return
    if not lib.std_proof_phase(rep, pid):
        return
    n = cfg.get("n_quick", 600) if tier == "quick" else cfg.get("n_thorough", 20000)
    if pid == "C05":
        extra_streams = [c05_history_stream]
        n = cfg.get("n_quick", 350) if tier == "quick" else 12000
    if extra_streams:
        for f in extra_streams:
            if not f(rep, rng, tier):
                return
    common.scenario_check(rep, rng, pid, n, profile=cfg["profile"], keys=cfg["keys"], transform=cfg["transform"],
                          oracle=cfg.get("oracle"), theorem_names=cfg["theorems"], stream="parse", n_parses=cfg.get("n_parses", 1),
                          make=make_c01(cfg["profile"]) if cfg.get("make") == "c01" else None)


def rule_text(pid):
    c = CONFIG[pid]
    return ("scenarios = random declaration (struct tree with tags: option types, groups/namespaces, tag- and API-declared commands, positional "
            "structs, initial values, environment) x parser options x handler x argv rendered from an event list (option occurrences in every "
            "spelling, clusters, command words/aliases, plain tokens, terminator, unknown and garbage tokens, mutations), generator profile "
            "overrides: %s; each scenario runs through the Go harness (reflect.StructOf declaration, real ParseArgs) and through the Gallina "
            "model evaluated inside Coq; compared keys: %s; non-trivial = ParseArgs reached (no setup error), distinct by scenario content hash"
            % (", ".join("%s=%s" % (k, v) for k, v in sorted(c["profile"].items()) if k != "types"), ",".join(c["keys"])))
