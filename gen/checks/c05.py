"""C05 - decided on the ParseArgs model; see parsecheck.CONFIG["C05"]."""
from . import parsecheck


def run(rep, tier, rng, replay=None):
    rep.cov["rule"] = parsecheck.rule_text("C05")
    parsecheck.run_property(rep, rng, "C05", tier, replay)
