"""Scenario-level correspondence shared by the checks (filled in as the model grows)."""
from .. import lib


def scenario_stream(rep, rng, pid, tier):
    return True
