"""Scenario-level correspondence + property oracles + shrinking, shared by the checks."""
import collections
import copy
import json
import os

from .. import lib, scen, runner, declgen

CORPUS = os.path.join(lib.VERIF, "corpus")


def hide_help(d):
    """identity since WriteHelp is modelled byte-exactly (kept as the default projection hook)"""
    return d


def err_class(o):
    e = o.get("err", "")
    if e in ("nil", ""):
        return "ok"
    return e.split(":")[0] + (":" + e.split(":")[1] if e[0] in "FI" else "")


def scenario_json(sc):
    """JSON-able copy (bytes -> latin-1 strings) used in replay files and the corpus"""
    def conv(x):
        if isinstance(x, bytes): return {"b": lib.l1(x)}
        if isinstance(x, dict): return {str(k): conv(v) for k, v in x.items() if k != "meta"}
        if isinstance(x, (list, tuple)): return [conv(v) for v in x]
        return x
    return conv(sc)


def scenario_unjson(j):
    def conv(x, key=None):
        if isinstance(x, dict):
            if set(x.keys()) == {"b"}: return lib.unl1(x["b"])
            d = {}
            for k, v in x.items():
                d[int(k) if key == "init" else k] = conv(v, k)
            return d
        if isinstance(x, list):
            return [conv(v) for v in x]
        return x
    sc = conv(j)
    # tuples for types / values
    def tup(x):
        if isinstance(x, list) and x and isinstance(x[0], str) and x[0] in ("k", "ptr", "slice", "map", "func", "b", "i", "s", "f", "p", "l", "m", "fn"):
            return tuple(tup(v) for v in x)
        if isinstance(x, list): return [tup(v) for v in x]
        if isinstance(x, dict): return {k: tup(v) for k, v in x.items()}
        return x
    sc = tup(sc)
    def fix_fields(fs):
        for f in fs:
            if "struct" in f: fix_fields(f["struct"]["fields"])
    sc["cfg"]["env"] = [tuple(e) for e in sc["cfg"].get("env", [])]
    return sc


def shrink_candidates(sc):
    """one-step reductions of a scenario"""
    out = []
    for oi, o in enumerate(sc["ops"]):
        if o["op"] in ("parse", "complete"):
            for i in range(len(o["args"])):
                c = copy.deepcopy(sc); del c["ops"][oi]["args"][i]; out.append(c)
            for i, a in enumerate(o["args"]):
                if len(a) > 2:
                    c = copy.deepcopy(sc); c["ops"][oi]["args"][i] = a[:len(a) // 2 + 1]; out.append(c)
        if len(sc["ops"]) > 1:
            c = copy.deepcopy(sc); del c["ops"][oi]; out.append(c)
    for ai in range(len(sc["attach"]) - 1, -1, -1):
        c = copy.deepcopy(sc)
        path = c["attach"][ai]["path"]
        del c["attach"][ai]
        out.append(c)

    def field_lists(s):
        ls = []
        if s["data"] is not None: ls.append(s["data"])
        for a in s["attach"]: ls.append(a["fields"])
        return ls

    def rec(fs, acc):
        acc.append(fs)
        for f in fs:
            if "struct" in f: rec(f["struct"]["fields"], acc)
    base_lists = []
    for fl in field_lists(sc): rec(fl, base_lists)
    for li, fl in enumerate(base_lists):
        for fi in range(len(fl)):
            c = copy.deepcopy(sc)
            cl = []
            for x in field_lists(c): rec(x, cl)
            del cl[li][fi]
            out.append(c)
    if sc["cfg"].get("env"):
        c = copy.deepcopy(sc); c["cfg"]["env"] = []; out.append(c)
    for k, v in sc["cfg"]["opts"].items():
        if v:
            c = copy.deepcopy(sc); c["cfg"]["opts"][k] = False; out.append(c)
    return out


def valid_scenario(sc):
    """attach paths must stay valid after deletions"""
    counts = {(): 0}
    # count tag-declared top-level commands is not possible here cheaply; be conservative: keep only if every
    # attach path refers to commands created by earlier attach ops or is the root
    created = {(): True}
    n_children = collections.Counter()

    def tagcmds(fs):
        n = 0
        for f in fs:
            if "struct" in f and b'command:"' in f["tag"]:
                n += 1
            elif "struct" in f and b'group:"' not in f["tag"] and b"positional-args" not in f["tag"]:
                n += tagcmds(f["struct"]["fields"])
        return n
    if sc["data"] is not None:
        n_children[()] = tagcmds(sc["data"])
    for a in sc["attach"]:
        p = tuple(a["path"])
        if p not in created:
            return False
        if a["kind"] == "option" and len(a["fields"]) != 1:
            return False
        if a["kind"] == "command":
            idx = n_children[p]
            n_children[p] += 1
            created[p + (idx,)] = True
            n_children[p + (idx,)] = tagcmds(a["fields"])
        else:
            n_children[p] += tagcmds(a["fields"])
    return True


def evaluate(scs):
    go = runner.run_impl(scs)
    mod, _ = runner.run_model(scs)
    return go, mod


def shrink(sc, still_fails, rounds=6, width=48):
    """greedy batch shrinking; still_fails(list of scenarios) -> list of bool"""
    cur = sc
    if os.environ.get("VERIF_NO_SHRINK") == "1":
        return cur
    for _ in range(rounds):
        cands = [c for c in shrink_candidates(cur) if valid_scenario(c)][:width]
        if not cands:
            break
        flags_ = still_fails(cands)
        nxt = None
        for c, f in zip(cands, flags_):
            if f:
                nxt = c
                break
        if nxt is None:
            break
        cur = nxt
    return cur


def load_corpus(pid):
    d = os.path.join(CORPUS, pid)
    out = []
    if os.path.isdir(d):
        for fn in sorted(os.listdir(d)):
            if fn.endswith(".json"):
                out.append((fn, scenario_unjson(json.load(open(os.path.join(d, fn)))["scenario"])))
    return out


def scenario_check(rep, rng, pid, n, profile=None, keys=runner.ALL_KEYS, transform=hide_help, oracle=None,
                   nontrivial=None, n_parses=1, stream="parse", make=None, theorem_names="", known=None, batch=2000):
    """Generate n scenarios, run both sides, compare the projection `keys`, evaluate the property oracle.
    oracle(sc, go_result) -> None | str (property violated on the implementation).
    known(sc, go_result, diff_or_oraclemsg) -> None | str (text of a KNOWN_FINDINGS entry that explains it).
    Returns True if nothing (new) was found."""
    corpus = load_corpus(pid)
    scs = [sc for _, sc in corpus]
    for _ in range(n):
        if make is not None:
            scs.append(make(rng))
        else:
            scs.append(declgen.Gen(rng, profile).gen_scenario(n_parses=n_parses))
    hist = collections.Counter()
    status = collections.Counter()
    ok = True
    for start in range(0, len(scs), batch):
        part = scs[start:start + batch]
        go, mod = evaluate(part)
        for sc, g, m in zip(part, go, mod):
            st = runner.model_status(m)
            status[st] += 1
            triv = not g["ops"]
            for o in g["ops"]:
                hist[err_class(o)] += 1
            key = json.dumps(scenario_json(sc), sort_keys=True)
            nt = (not triv) if nontrivial is None else nontrivial(sc, g)
            rep.count(key, nontrivial=nt)
            if len(rep.cov["samples"]) < 4 and nt:
                rep.sample({"stream": stream, "ops": [[lib.l1(a) for a in o.get("args", [])] for o in sc["ops"]],
                            "parser_options": [k for k, v in sc["cfg"]["opts"].items() if v],
                            "impl": [{k: o.get(k) for k in ("err", "ret", "active")} for o in g["ops"]][:2]})
            if g.get("hang"):
                rep.violation("%s: the implementation does not terminate on this history (%s); the model terminates by construction" % (pid, g["hang"]),
                              {"kind": "non-termination", "property": pid, "theorems": theorem_names, "scenario": scenario_json(sc), "impl": g,
                               "replay": "bin/check %s --replay <this file>" % pid})
                return False
            if g.get("fatal"):
                rep.violation("harness failure: " + g["fatal"], {"kind": "machinery", "scenario": scenario_json(sc), "fatal": g["fatal"]}, no_input=True)
                return False
            # property oracle on the implementation alone
            msg = oracle(sc, g) if oracle else None
            if msg:
                kf = known(sc, g, msg) if known else None
                if kf:
                    rep.known_finding(kf)
                else:
                    decl0 = json.dumps(scenario_json({"data": sc["data"], "attach": sc["attach"]}), sort_keys=True)
                    def still_o(cands):
                        # oracles read the generator's description of the declaration (sc["meta"]): only candidates that keep the
                        # declaration (they shrink argument vectors, operations, configuration) are meaningful for them
                        keep = [json.dumps(scenario_json({"data": c["data"], "attach": c["attach"]}), sort_keys=True) == decl0 for c in cands]
                        gg = runner.run_impl(cands)
                        return [k and (not a.get("fatal")) and (not a.get("hang")) and bool(oracle(c, a)) for k, c, a in zip(keep, cands, gg)]
                    sc = shrink(sc, still_o, rounds=40, width=200)
                    g = runner.run_impl([sc])[0]
                    msg = oracle(sc, g) or msg
                    rep.violation("%s: property oracle failed: %s" % (pid, msg),
                                  {"kind": "property-oracle", "property": pid, "what": msg, "scenario": scenario_json(sc), "impl": g,
                                   "replay": "bin/check %s --replay <this file>" % pid})
                    ok = False
                    return False
            if st != "ok":
                continue
            diff = runner.compare(g, m, keys=keys, transform=transform)
            if diff:
                kf = known(sc, g, diff) if known else None
                if kf:
                    rep.known_finding(kf)
                    continue
                # shrink on "still differs on the projection"
                def still(cands):
                    gg, mm = evaluate(cands)
                    return [runner.model_status(b) == "ok" and runner.compare(a, b, keys=keys, transform=transform) is not None for a, b in zip(gg, mm)]
                small = shrink(sc, still)
                g2, m2 = evaluate([small])
                d2 = runner.compare(g2[0], m2[0], keys=keys, transform=transform) or diff
                # the theorem says the model's answer is the one the property demands: inside the guard a
                # different implementation answer is a property failure with this scenario as the failing input
                rep.violation("%s: implementation differs from the proven model at %s (impl=%s model=%s)" % (
                                  pid, d2["where"], str(d2.get("impl"))[:120], str(d2.get("model"))[:120]),
                              {"kind": "model-vs-implementation", "property": pid, "theorems": theorem_names, "diff": d2,
                               "scenario": scenario_json(small), "impl": g2[0], "model": m2[0],
                               "replay": "bin/check %s --replay <this file>" % pid})
                return False
            rep.cov["traces_validated_against_impl"] += 1
    rep.extra.setdefault("outcome_histogram", {}).update({stream + ":" + k: v for k, v in hist.items()})
    rep.extra.setdefault("model_status", {}).update({stream + ":" + k: v for k, v in status.items()})
    return ok


def replay(rep, pid, path, keys=runner.ALL_KEYS, transform=hide_help, oracle=None):
    j = json.load(open(path))
    if "scenario" not in j:
        print("replay file has no scenario: " + j.get("kind", "?"))
        return
    sc = scenario_unjson(j["scenario"])
    go, mod = evaluate([sc])
    diff = runner.compare(go[0], mod[0], keys=keys, transform=transform)
    msg = oracle(sc, go[0]) if oracle else None
    print(json.dumps({"impl": go[0], "model": mod[0], "diff": diff, "oracle": msg}, indent=1)[:6000])
    if diff or msg:
        rep.violation("replayed: " + (msg or str(diff["where"])), j)
