"""C07 - decided on the ParseArgs model; see parsecheck.CONFIG["C07"]."""
from . import parsecheck


def run(rep, tier, rng, replay=None):
    rep.cov["rule"] = parsecheck.rule_text("C07")
    parsecheck.run_property(rep, rng, "C07", tier, replay)
