"""C11 - decided on the ParseArgs model (parsecheck.CONFIG["C11"]) plus an implementation-only reference oracle for integers."""
from .. import lib
from . import parsecheck

DIGITS = "0123456789abcdefghijklmnopqrstuvwxyz"
RANGES = {"int8": (-2 ** 7, 2 ** 7 - 1), "int16": (-2 ** 15, 2 ** 15 - 1), "int32": (-2 ** 31, 2 ** 31 - 1), "int64": (-2 ** 63, 2 ** 63 - 1),
          "int": (-2 ** 63, 2 ** 63 - 1), "uint8": (0, 2 ** 8 - 1), "uint16": (0, 2 ** 16 - 1), "uint32": (0, 2 ** 32 - 1),
          "uint64": (0, 2 ** 64 - 1), "uint": (0, 2 ** 64 - 1)}


def reference(text, kind, base):
    """None (rejected) or the integer the text denotes in the base, if it lies in the kind's range.  Only explicit bases 2..36 and
    texts of the form [+-]digits are judged (no prefixes, no underscores): exactly the textbook positional reading."""
    t = text
    neg = False
    if t[:1] in ("+", "-"):
        if kind.startswith("u"):
            return None
        neg = t[0] == "-"
        t = t[1:]
    if not t:
        return None
    n = 0
    for ch in t.lower():
        d = DIGITS.find(ch)
        if d < 0 or d >= base:
            return None
        n = n * base + d
    if neg: n = -n
    lo, hi = RANGES[kind]
    return n if lo <= n <= hi else None


def integer_reference_stream(rep, rng, n):
    """convert() of go-flags (through the hook) against the positional-value reference: accepted iff in range, stored exactly"""
    cases = []
    for _ in range(n):
        kind = rng.choice(sorted(RANGES))
        base = rng.choice([10, 10, 10, 2, 8, 16, 36, 7, 3, 35])
        lo, hi = RANGES[kind]
        x = rng.random()
        if x < 0.45: v = rng.choice([lo, hi, lo - 1, hi + 1, lo + 1, hi - 1, 0, -1, 1, hi * 2, 2 ** 64, -2 ** 63 - 1])
        elif x < 0.8: v = rng.randint(lo - 3, hi + 3) if rng.random() < 0.5 else rng.randint(-300, 300)
        else: v = rng.randint(-2 ** 70, 2 ** 70)
        digits = ""
        a = abs(v)
        while True:
            digits = DIGITS[a % base] + digits
            a //= base
            if a == 0: break
        if rng.random() < 0.3: digits = digits.upper()
        if rng.random() < 0.15: digits = "0" * rng.randint(1, 3) + digits
        text = ("-" if v < 0 else ("+" if rng.random() < 0.1 else "")) + digits
        if rng.random() < 0.06:
            text = rng.choice([text + "z", "", "-", "+", text + " ", " " + text, text.replace(digits[:1], "", 1)])
        cases.append((text, kind, base))
    go = lib.go_unit([{"fn": "convert", "s": [t.encode(), k.encode(), b'base:"%d"' % b]} for t, k, b in cases])
    for (t, k, b), g in zip(cases, go):
        if any(c not in "+-" + DIGITS + DIGITS.upper() for c in t):
            continue        # outside the reference's domain
        want = reference(t, k, b)
        rep.count(("c11ref", t, k, b), nontrivial=True)
        got = None if g == "ERR" else int(g[4:]) if g.startswith("OK:i") else "?"
        if got != want:
            rep.violation("C11: convert(%r) into %s in base %d gives %s, the text denotes %s" % (
                              t, k, b, "an error" if got is None else got, "no %s" % k if want is None else want),
                          {"kind": "property-oracle", "property": "C11", "text": t, "type": k, "base": b, "impl": g, "expected": want,
                           "replay": "echo '{\"fn\":\"convert\",\"s\":[%s,%s,%s]}' | build/harness.bin unit" % (
                               lib.json.dumps(t), lib.json.dumps(k), lib.json.dumps('base:"%d"' % b))})
            return False
        rep.cov["traces_validated_against_impl"] += 1
    return True


def run(rep, tier, rng, replay=None):
    rep.cov["rule"] = parsecheck.rule_text("C11") + ("; plus an integer reference stream: convert() of go-flags through the hook on texts at and around the "
                                                     "limits of every integer kind in bases 2..36 against the positional-value reading (accepted iff in range, "
                                                     "stored exactly)")
    parsecheck.run_property(rep, rng, "C11", tier, replay,
                            extra_streams=None if replay else [lambda rep, rng, tier: integer_reference_stream(rep, rng, 1500 if tier == "quick" else 60000)])
