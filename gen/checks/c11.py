"""C11 - decided on the ParseArgs model; see parsecheck.CONFIG["C11"]."""
from . import parsecheck


def run(rep, tier, rng, replay=None):
    rep.cov["rule"] = parsecheck.rule_text("C11")
    parsecheck.run_property(rep, rng, "C11", tier, replay)
