"""C12 - INI write/read round trip."""
import copy
from .. import lib, scen, runner, declgen, inigen
from . import common, parsecheck

PROFILE = dict(p_bad_default=0.0, p_plain_mapkey=1.0, p_required=0.05, p_init=0.0, p_hidden=0.08, p_noini=0.05, p_ininame=0.2, p_commands=0.45, p_group=0.4, p_default=0.3,
               p_bad_value=0.0, p_ev_unknown=0.0, p_ev_garbage=0.0, p_mutate_argv=0.0, p_ev_opt=0.85, p_ev_cmd=0.1, p_ev_plain=0.03, p_ev_term=0.0,
               n_events=(2, 9), p_base=0.25, p_env=0.0, p_choice=0.06, p_positional=0.1, p_optional=0.08, p_help=0.0, p_print=0.0,
               p_handler=0.0, p_cmdhandler=0.0, p_exec=0.3, p_exec_err=0.0, p_quoted=0.05, p_mb_short=0.1, p_nil_ptr=0.3, p_long_value=0.04, p_addoption=0.1, p_dupfield=0.15)

INIOPTS = [0, 2, 4, 6, 8, 10, 12, 14]
KEYS = ["panic", "err", "vals", "bytes"]


def make(rng):
    g = declgen.Gen(rng, PROFILE)
    sc = g.gen_scenario()
    sc["cfg"]["env"] = []
    sc["ops"] = [sc["ops"][0], {"op": "writeini", "iniopts": rng.choice(INIOPTS)}]
    return sc


def option_fids(sc):
    """fids of options that the writer emits: not func, not hidden, not no-ini (recursively over the meta tree)"""
    out = {}
    if "meta" not in sc:
        # corpus scenario: every exported leaf with an option tag, outside hidden groups (none in the hand-written corpus)
        def leaves(fs):
            for f in fs:
                if "struct" in f: leaves(f["struct"]["fields"])
                elif f["exported"] and (b'long:"' in f["tag"] or b'short:"' in f["tag"]):
                    out[f["fid"]] = {"fid": f["fid"], "type": f["type"], "field": f["name"],
                                     "hidden": b'hidden:"' in f["tag"], "noini": b'no-ini:"' in f["tag"]}
        for fl in scen.all_field_lists(sc): leaves(fl)
        return out
    def walk(node, chidden):
        for o in node["opts"]:
            # the command's own options live in the command's group, whose Hidden mark is the command's
            own_group_hidden = o.get("ghidden") or (o.get("gdesc") is None and node.get("hidden"))
            if not chidden and not own_group_hidden:
                out[o["fid"]] = o
        for s in node["subs"]:
            walk(s, chidden or s.get("hidden"))
    walk(sc["meta"], False)
    return out


def vals_dict(v):
    d = {}
    for part in v.split(";"):
        if part:
            k, _, x = part.partition(":")
            d[int(k)] = x
    return d


def classify_known(o, a, b, sc, text):
    """narrow predicates of recorded findings; returns text or None"""
    return None


def roundtrip_stream(rep, rng, n):
    scs = [c for _, c in common.load_corpus("C12")] + [make(rng) for _ in range(n)]
    go, mod = common.evaluate(scs)
    second = []
    idx = []
    for i, (sc, g, m) in enumerate(zip(scs, go, mod)):
        if runner.model_status(m) != "ok":
            continue
        d = runner.compare(g, m, keys=KEYS)
        if d:
            rep.violation("C12: writer/reader model differs from the implementation at %s" % d["where"],
                          {"kind": "model-vs-implementation", "property": "C12", "theorems": "C12_*", "diff": d,
                           "scenario": common.scenario_json(sc), "impl": g, "model": m})
            return False
        if len(g["ops"]) < 2 or g["ops"][0].get("panic") or g["ops"][0]["err"] != "nil":
            rep.count(("c12", i), nontrivial=False)
            continue
        text = bytes.fromhex(g["ops"][1].get("bytes", ""))
        sc2 = copy.deepcopy({k: v for k, v in sc.items() if k != "meta"})
        sc2["ops"] = [{"op": "ini", "text": text, "asdefaults": False}, {"op": "parse", "args": []}]
        second.append(sc2)
        idx.append(i)
    go2 = runner.run_impl(second)
    written = 0
    for j, (i, g2) in enumerate(zip(idx, go2)):
        sc, g1 = scs[i], go[i]
        opts = option_fids(sc)
        text = bytes.fromhex(g1["ops"][1].get("bytes", ""))
        rep.count(("c12", text, sc["ops"][1]["iniopts"]), nontrivial=len(text) > 0)
        if len(text):
            written += 1
        rep.sample({"stream": "roundtrip", "args": [lib.l1(a) for a in sc["ops"][0]["args"]], "iniopts": sc["ops"][1]["iniopts"], "ini": lib.l1(text)[:300]})
        what = None
        r_ini, r_parse = g2["ops"][0], (g2["ops"][1] if len(g2["ops"]) > 1 else None)
        if r_ini.get("panic"):
            what = "reading the written text panicked: " + r_ini["panic"][:100]
        elif r_ini["err"] != "nil":
            what = "reading the written text failed: %r" % (scen.decode_err(r_ini["err"]),)
        elif r_parse is not None and not r_parse.get("panic"):
            e = scen.decode_err(r_parse["err"])
            if e is not None and not (e[0] == "F" and e[1] in (7, 11, 12)) and not (e[0] == "X"):
                what = "applying defaults after the re-read failed: %r" % (e,)
            elif e is None:
                a, b = vals_dict(g1["ops"][0]["vals"]), vals_dict(r_parse["vals"])
                for fid, o in opts.items():
                    if o["type"][0] == "func" or o.get("hidden") or o.get("noini"):
                        continue
                    if fid in a and fid in b and a[fid].replace("f2d30", "f30") != b[fid].replace("f2d30", "f30"):
                        what = "option %s (fid %d, type %s) was %s, is %s after write+read" % (o["field"].decode(), fid, o["type"], a[fid], b[fid])
                        break
        if what:
            kf = None
            for pred, match in KNOWN:
                if _finding_text(match) and pred(sc, g1, g2, what):
                    kf = _finding_text(match)       # only findings still listed in KNOWN_FINDINGS.json are recognised
                    break
            if kf:
                rep.known_finding(kf)
                continue
            rep.violation("C12: " + what,
                          {"kind": "property-oracle", "property": "C12", "what": what, "scenario": common.scenario_json(sc),
                           "written": lib.l1(text), "first": g1, "second": g2})
            return False
        rep.cov["traces_validated_against_impl"] += 1
    rep.extra["roundtrips_with_nonempty_text"] = written
    return True


def _leaf_specs(sc):
    """fid -> (type, tag) of every leaf of the declaration"""
    out = {}
    def walk(fs):
        for f in fs:
            if "struct" in f: walk(f["struct"]["fields"])
            else: out[f["fid"]] = (f["type"], f["tag"])
    for fl in scen.all_field_lists(sc): walk(fl)
    return out


def known_choice_canonical_text(sc, g1, g2, what):
    """reading back fails with ErrInvalidChoice for a text X which the writer produced for an option that declares choices,
    X not being one of them (canonical rendering of a converted value, or the zero value of an option never given)"""
    import re
    from .. import units
    w = what.encode("latin-1", "replace") if isinstance(what, str) else what
    # the message is the repr of a tuple holding the bytes of the error text
    m = re.search(r"Invalid value `(.*?)' for option `(.*?)'\. Allowed values are", what, re.S)
    if not m:
        return False
    try:
        msg = eval(what[what.index("("):])[2]
    except Exception:
        return False
    mm = re.search(rb"Invalid value `(.*)' for option `(.*?)'\. Allowed values are", msg, re.S)
    if not mm:
        return False
    x, optstr = mm.group(1), mm.group(2)
    for ty, tag in _leaf_specs(sc).values():
        if b'choice:"' not in tag:
            continue
        lm = re.search(rb'long:"([^"\\]*)"', tag)
        sm = re.search(rb'short:"([^"\\]*)"', tag)
        named = (lm and optstr.endswith(lm.group(1))) or (sm and (b"-" + sm.group(1)) in optstr)
        if named and (b"choice:" + units.go_quote(x)) not in tag:
            return True
    return False


def known_map_key_line_break(sc, g1, g2, what):
    """a map option holds a key with a line break or a leading double quote (visible in the first run's values)"""
    vals = g1["ops"][0].get("vals", "")
    for part in vals.split(";"):
        _, _, v = part.partition(":")
        if v.startswith("m{"):
            for kv in v[2:-1].split(","):
                k = kv.partition(">")[0]
                if k.startswith("s"):
                    kb = scen.unhex(k[1:])
                    if b"\n" in kb or b"\r" in kb or kb.startswith(b'"'):
                        return True
    return False


def known_nil_pointer_with_default(sc, g1, g2, what):
    """an optional-argument option was empty (nil pointer, empty slice or map) before the write - it had been given bare after a
    value - and holds the value of its default tags after write + read + defaults"""
    import re
    m = re.match(r"option \S+ \(fid (\d+), type .*\) was (pn|ln|l\[\]|mn|m\{\}), is ", what)
    if not m:
        return False
    ty_tag = _leaf_specs(sc).get(int(m.group(1)))
    return bool(ty_tag) and b'default:"' in ty_tag[1] and b'optional:"' in ty_tag[1]


def _finding_text(match):
    for f in lib.known_findings("C12"):
        if f.get("match") == match:
            return f["text"]
    return None


KNOWN = [(known_choice_canonical_text, "choice-canonical-text"), (known_map_key_line_break, "map-key-line-break"),
         (known_nil_pointer_with_default, "nil-pointer-with-default")]


def run(rep, tier, rng, replay=None):
    rep.cov["rule"] = ("round-trip stream: random declaration, argv setting options, IniParser.Write with one of the 8 IniOptions, then the text is "
                       "read by a FRESH parser over the same declaration followed by ParseArgs([]) (defaults); oracle: every written option has "
                       "the same value; the writer/reader model (evaluated in Coq) must agree byte for byte with the implementation on text and values; "
                       "non-trivial = non-empty INI text; distinct by (text, options)")
    if replay:
        common.replay(rep, "C12", replay, keys=KEYS)
        return
    if not lib.std_proof_phase(rep, "C12"):
        return
    roundtrip_stream(rep, rng, 500 if tier == "quick" else 15000)
