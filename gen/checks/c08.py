"""C08 - decided on the ParseArgs model; see parsecheck.CONFIG["C08"]."""
from . import parsecheck


def run(rep, tier, rng, replay=None):
    rep.cov["rule"] = parsecheck.rule_text("C08")
    parsecheck.run_property(rep, rng, "C08", tier, replay)
