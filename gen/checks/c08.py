"""C08 - decided on the ParseArgs model (parsecheck.CONFIG["C08"]) plus an implementation-only metamorphic stream."""
import copy
from .. import lib, scen, runner, declgen
from . import common, parsecheck


def names_below(node):
    """long and short names declared anywhere below (and in) a command node"""
    longs, shorts = set(), set()
    def walk(nd):
        for o in nd["opts"]:
            if o["long"]: longs.add(o["long"])
            if o["short"]: shorts.add(o["short"])
        for s2 in nd["subs"]: walk(s2)
    walk(node)
    return longs, shorts


def swap_stream(rep, rng, n):
    """chunked (declarations of command trees are large: keep at most a few hundred pairs in memory)"""
    done = 0
    while done < n:
        k = min(400, n - done)
        if not swap_chunk(rep, rng, k):
            return False
        done += k
    return True


def swap_chunk(rep, rng, n):
    """implementation only: `app FLAG cmd rest` and `app cmd FLAG rest` have the same outcome when FLAG is a flag of the parser that
    the command (and everything below it) does not redeclare - errors, values, active chain, remaining arguments, set marks."""
    pairs = []
    prof = dict(parsecheck.CONFIG["C08"]["profile"], p_mid_attach=0.0, p_required=0.0, p_addoption=0.05)
    for _ in range(n):
        g = declgen.Gen(rng, prof)
        sc = g.gen_scenario()
        root = sc["meta"]
        subs = [s2 for s2 in root["subs"] if s2["name"]]
        flags_ = [o for o in root["opts"] if o["isbool"] and o["type"][0] != "func" and not o.get("ns") and (o["long"] or (o["short"] and len(o["short"].decode("utf-8", "replace")) == 1))]
        flags_ = [o for o in flags_ if o["long"] != b"help" and o["short"] != b"h"]      # help shows the command active at that point
        # separately added groups may declare the same name again (the lookup's last binding wins): keep to names that denote one option
        flags_ = [o for o in flags_ if (not o["long"] or sum(1 for x in root["opts"] if x["long"] == o["long"]) == 1)
                  and (not o["short"] or sum(1 for x in root["opts"] if x["short"] == o["short"]) == 1)]
        if not subs or not flags_:
            continue
        s2 = rng.choice(subs)
        o = rng.choice(flags_)
        longs, shorts = names_below(s2)
        if (o["long"] and o["long"] in longs) or (o["short"] and o["short"] in shorts):
            continue
        word = rng.choice([s2["name"]] + s2["aliases"])
        if o["long"] and (not o["short"] or rng.random() < 0.5): tok = b"--" + o["long"]
        elif o["short"]: tok = b"-" + o["short"]
        else: continue
        rest = []
        for _k in range(rng.randint(0, 2)):
            pool = [x for x in s2["opts"] if x["isbool"] and x["long"] and not x.get("ns")]
            if pool: rest.append(b"--" + rng.choice(pool)["long"])
        a = copy.deepcopy({k: v for k, v in sc.items() if k != "meta"})
        b = copy.deepcopy(a)
        a["ops"] = [{"op": "parse", "args": [tok, word] + rest}]
        b["ops"] = [{"op": "parse", "args": [word, tok] + rest}]
        pairs.append((a, b))
    if not pairs:
        return True
    ga = runner.run_impl([p[0] for p in pairs])
    gb = runner.run_impl([p[1] for p in pairs])
    for (a, b), ra, rb in zip(pairs, ga, gb):
        rep.count(("c08swap", tuple(a["ops"][0]["args"])), nontrivial=True)
        if not ra["ops"] or not rb["ops"]:
            continue
        x, y = ra["ops"][0], rb["ops"][0]
        if x.get("panic") or y.get("panic"):
            continue
        # after an error the state is the partial one reached when the failing token was met, and the returned arguments are the
        # unparsed rest: both legitimately depend on the order; the error itself must be the same
        keys = ["err"] + (["vals", "active", "set", "calls", "exec", "ret"] if x["err"] == "nil" and y["err"] == "nil" else ["exec"])
        for k in keys:
            if x.get(k) != y.get(k):
                rep.violation("C08: %r and %r differ in %s (%s vs %s)" % (a["ops"][0]["args"], b["ops"][0]["args"], k, str(x.get(k))[:80], str(y.get(k))[:80]),
                              {"kind": "property-oracle", "property": "C08", "what": "flag/command order changes %s" % k,
                               "scenario": common.scenario_json(a), "other_args": [lib.l1(t) for t in b["ops"][0]["args"]], "impl_first": ra, "impl_second": rb})
                return False
        rep.cov["traces_validated_against_impl"] += 1
    return True


def run(rep, tier, rng, replay=None):
    rep.cov["rule"] = parsecheck.rule_text("C08") + ("; plus a metamorphic stream on the implementation: a flag of the parser placed before or after a "
                                                     "command word (name or alias) that does not redeclare it gives the same outcome")
    parsecheck.run_property(rep, rng, "C08", tier, replay,
                            extra_streams=None if replay else [lambda rep, rng, tier: swap_stream(rep, rng, 300 if tier == "quick" else 8000)])
