"""Shared machinery for the go-flags checks: building, running both sides, auditing
proofs, comparing, reporting.  Python 3 stdlib only."""
import hashlib
import json
import os
import random
import re
import shutil
import subprocess
import sys
import time

VERIF = os.path.dirname(os.path.dirname(os.path.abspath(__file__)))
REPO = os.environ.get("VERIF_REPO", "/repo")
BUILD = os.path.join(VERIF, "build")
COQ = os.path.join(VERIF, "coq")
HARNESS_BIN = os.path.join(BUILD, "harness.bin")
NPROC = os.cpu_count() or 4

GOENV = dict(os.environ, GOFLAGS="-mod=mod", GOPROXY="off", GOSUMDB="off", GOTOOLCHAIN="local",
             SOURCE_DATE_EPOCH="86400", CGO_ENABLED="0")
GOENV.pop("GO_FLAGS_COMPLETION", None)


class CheckError(Exception):
    pass


def sh(cmd, timeout=600, cwd=None, env=None, inp=None):
    p = subprocess.run(cmd, cwd=cwd, env=env, input=inp, capture_output=True, timeout=timeout)
    return p.returncode, p.stdout, p.stderr


# ---------------------------------------------------------------- strings on the wire
def l1(b):
    """bytes -> JSON-safe str whose code points are the bytes"""
    if isinstance(b, str):
        b = b.encode("utf-8")
    return b.decode("latin-1")


def unl1(s):
    return s.encode("latin-1")


def hx(b):
    if isinstance(b, str):
        b = b.encode("utf-8")
    return b.hex()


def coq_str(b):
    return 'hx "%s"' % hx(b)


def coq_list(items):
    return "[" + "; ".join(items) + "]"


# ---------------------------------------------------------------- building
def cleanup_coqcases():
    """remove generated case files left behind by runs that were killed (file names carry the pid of their run)"""
    d = os.path.join(BUILD, "coqcases")
    if not os.path.isdir(d):
        return
    for fn in os.listdir(d):
        m = re.match(r"\.?[a-z0-9]+_(\d+)_", fn)
        if m and not os.path.exists("/proc/%s" % m.group(1)):
            try:
                os.remove(os.path.join(d, fn))
            except OSError:
                pass


def build_harness():
    os.makedirs(BUILD, exist_ok=True)
    cleanup_coqcases()
    hdir = os.path.join(VERIF, "harness")
    if REPO != "/repo":
        # scratch copy of the harness pointing at another tree
        hdir2 = os.path.join(BUILD, "harness-alt")
        shutil.rmtree(hdir2, ignore_errors=True)
        shutil.copytree(hdir, hdir2)
        gm = open(os.path.join(hdir2, "go.mod")).read().replace("=> /repo", "=> " + REPO)
        open(os.path.join(hdir2, "go.mod"), "w").write(gm)
        hdir = hdir2
    shutil.copy(os.path.join(REPO, "go.sum"), os.path.join(hdir, "go.sum"))
    cover = ["-cover", "-coverpkg=./...,github.com/jessevdk/go-flags"] if os.environ.get("VERIF_COVER") else []
    if cover:
        # statement coverage of go-flags under the correspondence streams (bin/coverage); counters go to GOCOVERDIR
        os.makedirs(os.environ.get("GOCOVERDIR", os.path.join(BUILD, "cover")), exist_ok=True)
        GOENV["GOCOVERDIR"] = os.environ.get("GOCOVERDIR", os.path.join(BUILD, "cover"))
    rc, out, err = sh(["go", "build", "-tags", "verif"] + cover + ["-o", HARNESS_BIN, "."], cwd=hdir, env=GOENV, timeout=600)
    if rc != 0:
        raise CheckError("harness build failed (does /repo still compile with -tags verif?):\n" + err.decode(errors="replace"))


def go_unit(cases, timeout=600):
    """cases: list of dicts {fn, s:[bytes], n:[int]} -> list of result strings"""
    inp = "\n".join(json.dumps({"fn": c["fn"], "s": [l1(x) for x in c.get("s", [])], "n": c.get("n", [])})
                    for c in cases).encode()
    rc, out, err = sh([HARNESS_BIN, "unit"], env=GOENV, inp=inp, timeout=timeout)
    if rc != 0:
        raise CheckError("harness unit run failed: rc=%d %s" % (rc, err.decode(errors="replace")[:2000]))
    lines = out.decode().split("\n")
    if lines and lines[-1] == "":
        lines.pop()
    if len(lines) != len(cases):
        raise CheckError("harness produced %d results for %d cases" % (len(lines), len(cases)))
    return lines


def go_scenarios(scs, timeout=900, extra_env=None):
    env = dict(GOENV)
    if extra_env:
        env.update(extra_env)
    os.makedirs(os.path.join(BUILD, "coqcases"), exist_ok=True)
    path = os.path.join(BUILD, "coqcases", "scen_%d_%d.jsonl" % (os.getpid(), next(_scen_counter)))
    results = []
    todo = list(scs)
    hangs = 0
    while todo:
        with open(path, "w") as f:
            f.write("\n".join(json.dumps(s) for s in todo))
        try:
            rc, out, err = sh([HARNESS_BIN, "scenario", path], env=env, timeout=timeout)
        finally:
            try:
                os.remove(path)
            except OSError:
                pass
        lines = [json.loads(l) for l in out.decode().split("\n") if l]
        if rc == 3 and lines and lines[-1].get("hang") and hangs < 20:
            # the implementation did not terminate on the last reported scenario: the harness left
            # (a goroutine cannot be stopped); carry on with the scenarios after it
            hangs += 1
            results += lines
            todo = todo[len(lines):]
            continue
        if rc != 0:
            raise CheckError("harness scenario run failed: rc=%d %s" % (rc, err.decode(errors="replace")[-3000:]))
        if len(lines) != len(todo):
            raise CheckError("harness produced %d results for %d scenarios; stderr: %s" % (len(lines), len(todo), err.decode(errors="replace")[-2000:]))
        results += lines
        todo = []
    return results


def make_coq(clean=False, timeout=3000):
    """full .vo build of the development; returns (ok, log)"""
    if clean:
        sh(["make", "clean"], cwd=COQ, timeout=300)
    if not os.path.exists(os.path.join(COQ, "Makefile")):
        rc, out, err = sh(["coq_makefile", "-f", "_CoqProject", "-o", "Makefile"], cwd=COQ)
        if rc != 0:
            return False, err.decode()
    rc, out, err = sh(["make", "-j%d" % NPROC], cwd=COQ, timeout=timeout)
    return rc == 0, (out + err).decode(errors="replace")


_coq_counter = [0]
_scen_counter = __import__('itertools').count()


def _big_stack():
    import resource
    try:
        resource.setrlimit(resource.RLIMIT_STACK, (resource.RLIM_INFINITY, resource.RLIM_INFINITY))
    except (ValueError, OSError):
        try:
            soft, hard = resource.getrlimit(resource.RLIMIT_STACK)
            resource.setrlimit(resource.RLIMIT_STACK, (hard, hard))
        except (ValueError, OSError):
            pass


def coq_eval(imports, defs, exprs_type, exprs, timeout=1800, shard=400, label="cases"):
    """Evaluate, inside Coq with vm_compute, [f c] for every c in exprs, where the
    Gallina function text `defs` defines `run_case : exprs_type -> str`.
    Returns the list of result byte strings.  Sharded over processes."""
    tmp = os.path.join(BUILD, "coqcases")
    os.makedirs(tmp, exist_ok=True)
    shards = [exprs[i:i + shard] for i in range(0, len(exprs), shard)]
    procs = []
    results = [None] * len(shards)
    running = []

    def start(k):
        _coq_counter[0] += 1
        name = "%s_%d_%d" % (label, os.getpid(), _coq_counter[0])
        path = os.path.join(tmp, name + ".v")
        with open(path, "w") as f:
            f.write("From GoFlags Require Import %s.\n" % " ".join(imports))
            f.write(defs + "\n")
            f.write("Definition cases : list (%s) := [\n" % exprs_type)
            f.write(";\n".join(shards[k]))
            f.write("\n].\n")
            f.write("Definition out := Eval vm_compute in map (fun c => l2s (hex_of_str (run_case c))) cases.\nPrint out.\n")
        fo = open(path[:-2] + ".out", "wb")
        fe = open(path[:-2] + ".err", "wb")
        p = subprocess.Popen(["coqc", "-Q", os.path.join(COQ, "theories"), "GoFlags", path],
                             cwd=tmp, stdout=fo, stderr=fe, preexec_fn=_big_stack)
        fo.close()
        fe.close()
        return (k, p, path, time.time())

    pending = list(range(len(shards)))
    retries = {}
    maxpar = NPROC
    while pending or running:
        while pending and len(running) < maxpar:
            running.append(start(pending.pop(0)))
        still = []
        for (k, p, path, t0) in running:
            if p.poll() is None:
                if time.time() - t0 > timeout:
                    p.kill()
                    raise CheckError("coqc timed out evaluating cases")
                still.append((k, p, path, t0))
                continue
            out = open(path[:-2] + ".out", "rb").read()
            err = open(path[:-2] + ".err", "rb").read()
            if p.returncode < 0 and retries.get(k, 0) < 4:
                # killed by a signal (typically the kernel's out-of-memory killer): evaluate the shard again, with fewer processes at once
                retries[k] = retries.get(k, 0) + 1
                maxpar = max(2, maxpar // 2)
                pending.insert(0, k)
                time.sleep(5)
                continue
            if p.returncode != 0:
                raise CheckError("coqc failed (exit status %d) on generated cases file %s:\n%s" % (p.returncode, path, err.decode(errors="replace")[-3000:]))
            txt = out.decode()
            vals = re.findall(r'"([0-9a-f\s]*)"', txt)
            vals = [bytes.fromhex(re.sub(r"\s+", "", v)) for v in vals]
            if len(vals) != len(shards[k]):
                raise CheckError("coq printed %d results for %d cases in %s" % (len(vals), len(shards[k]), path))
            results[k] = vals
            for ext in (".v", ".vo", ".vok", ".vos", ".glob", ".out", ".err"):
                try:
                    os.remove(path[:-2] + ext)
                except OSError:
                    pass
            try:
                os.remove(os.path.join(tmp, "." + os.path.basename(path)[:-2] + ".aux"))
            except OSError:
                pass
        running = still
        if running:
            time.sleep(0.02)
    flat = []
    for r in results:
        flat.extend(r)
    return flat


# ---------------------------------------------------------------- proof audit
FORBIDDEN = re.compile(r"\b(Admitted|admit|Axiom|Axioms|Parameter|Parameters|Conjecture|Conjectures|Hypothesis|Hypotheses|Variable|Variables)\b|Unset\s+Guard|bypass_check|Admit\s+Obligations|type-in-type|impredicative-set|Unset\s+Positivity|Unset\s+Universe")
ALLOWED_AXIOMS = set()  # the development is expected to be closed under the global context


def strip_comments(src):
    out = []
    depth = 0
    i = 0
    instr = False
    while i < len(src):
        if not instr and src.startswith("(*", i):
            depth += 1
            i += 2
            continue
        if not instr and depth > 0 and src.startswith("*)", i):
            depth -= 1
            i += 2
            continue
        if depth == 0:
            if src[i] == '"':
                instr = not instr
            out.append(src[i])
        i += 1
    return "".join(out)


def scan_sources():
    """grep the whole development for forbidden declarations; Variable/Hypothesis are
    allowed only inside a Section.  Returns list of problems."""
    problems = []
    for root, _, files in os.walk(os.path.join(COQ, "theories")):
        for fn in files:
            if not fn.endswith(".v"):
                continue
            p = os.path.join(root, fn)
            src = strip_comments(open(p).read())
            # drop string literals
            src_ns = re.sub(r'"[^"]*"', '""', src)
            depth = 0
            for ln, line in enumerate(src_ns.split("\n"), 1):
                if re.match(r"\s*Section\b", line):
                    depth += 1
                if re.match(r"\s*End\b", line) and depth > 0:
                    depth -= 1
                for m in FORBIDDEN.finditer(line):
                    w = m.group(0)
                    if w in ("Variable", "Variables", "Hypothesis", "Hypotheses") and depth > 0:
                        continue
                    if w in ("Variable", "Variables", "Hypothesis", "Hypotheses", "Context"):
                        problems.append("%s:%d: %s outside a section" % (p, ln, w))
                    else:
                        problems.append("%s:%d: forbidden %r" % (p, ln, w))
    return problems


def audit_props(pid):
    """(Re)compile Props/<pid>.v on its own, parse theorem names and Print Assumptions.
    Returns dict(obligations, discharged, theorems, axioms, problems, cmd)."""
    path = os.path.join(COQ, "theories", "Props", pid + ".v")
    res = {"obligations": 0, "discharged": 0, "theorems": [], "axioms": [], "problems": [], "cmd": ""}
    if not os.path.exists(path):
        res["problems"].append("no property file " + path)
        return res
    src = strip_comments(open(path).read())
    thms = re.findall(r"\b(?:Theorem|Lemma|Corollary|Example)\s+([A-Za-z0-9_']+)", src)
    res["theorems"] = thms
    res["obligations"] = len(thms)
    cmd = ["coqc", "-Q", os.path.join(COQ, "theories"), "GoFlags", path]
    res["cmd"] = "make -C coq -j%d && %s" % (NPROC, " ".join(cmd))
    rc, out, err = sh(cmd, cwd=COQ, timeout=1200)
    txt = (out + err).decode(errors="replace")
    if rc != 0:
        res["problems"].append("property file does not check: " + txt[-1500:])
        return res
    closed = len(re.findall(r"Closed under the global context", txt))
    ax_blocks = re.findall(r"Axioms:\n((?:.+\n?)+?)(?:\n|$)", txt)
    axioms = []
    for b in ax_blocks:
        for l in b.split("\n"):
            m = re.match(r"^([A-Za-z0-9_.']+)\s*:", l)
            if m:
                axioms.append(m.group(1))
    res["axioms"] = sorted(set(axioms))
    bad = [a for a in res["axioms"] if a not in ALLOWED_AXIOMS]
    if bad:
        res["problems"].append("theorems depend on axioms: " + ", ".join(bad))
    n_print = len(re.findall(r"\bPrint\s+Assumptions\b", src))
    need = re.findall(r"\b(?:Theorem|Lemma|Corollary)\s+([A-Za-z0-9_']+)", src)
    if n_print < len(need):
        res["problems"].append("missing Print Assumptions for some theorem")
    res["discharged"] = len(thms) if not res["problems"] else 0
    return res


# ---------------------------------------------------------------- PRNG
class Rng(random.Random):
    pass


def seed_from_env(default=1):
    try:
        return int(os.environ.get("VERIF_SEED", default))
    except ValueError:
        return default


# ---------------------------------------------------------------- known findings
def load_findings():
    p = os.path.join(VERIF, "KNOWN_FINDINGS.json")
    if not os.path.exists(p):
        return {"findings": [], "fixed": []}
    return json.load(open(p))


def known_findings(pid):
    """recorded (unrepaired) findings of one property: dicts with 'property', 'match' (narrow predicate name) and 'text'"""
    return [f for f in load_findings().get("findings", []) if isinstance(f, dict) and f.get("property") == pid]


# ---------------------------------------------------------------- reporting
class Report:
    def __init__(self, pid, tier, seed):
        self.pid = pid
        self.tier = tier
        self.seed = seed
        self.t0 = time.time()
        self.violations = []      # (replay_path, no_input_found)
        self.known = []           # text lines
        self.cov = {"evaluations": 0, "distinct_nontrivial": 0, "rule": "", "samples": [],
                    "obligations": 0, "discharged": 0, "checker_cmd": "", "trusted_base": [],
                    "traces_validated_against_impl": 0}
        self.assumptions = []
        self.extra = {}
        self._seen = set()

    def count(self, case_key, nontrivial=True):
        self.cov["evaluations"] += 1
        if nontrivial:
            h = hashlib.sha1(repr(case_key).encode()).digest()[:8]
            if h not in self._seen:
                self._seen.add(h)
                self.cov["distinct_nontrivial"] += 1

    def sample(self, s, limit=6):
        if len(self.cov["samples"]) < limit:
            self.cov["samples"].append(s)

    def violation(self, what, replay_obj, no_input=False):
        d = os.path.join(os.environ.get("VERIF_EVIDENCE_DIR") or os.path.join(VERIF, "evidence"), "replays")
        os.makedirs(d, exist_ok=True)
        blob = json.dumps(replay_obj, indent=1, sort_keys=True, default=str)
        h = hashlib.sha1(blob.encode()).hexdigest()[:10]
        path = os.path.join(d, "%s-%s.json" % (self.pid, h))
        with open(path, "w") as f:
            f.write(blob)
        self.violations.append((path, no_input, what))
        return path

    def known_finding(self, text):
        if text not in self.known:
            self.known.append(text)

    def finish(self):
        for k in self.known:
            print("KNOWN-FINDING: property=%s %s" % (self.pid, k))
        ev = {
            "property_id": self.pid, "tier": self.tier, "seed": self.seed, "level": "proof",
            "coverage": dict(self.cov, **self.extra),
            "assumptions": self.assumptions,
            "wall_s": round(time.time() - self.t0, 2),
            "violations": len(self.violations),
        }
        ev["coverage"]["known_findings_reconfirmed"] = self.known
        evdir = os.environ.get("VERIF_EVIDENCE_DIR") or os.path.join(VERIF, "evidence")    # the mutant self-test writes elsewhere
        os.makedirs(evdir, exist_ok=True)
        with open(os.path.join(evdir, self.pid + ".json"), "w") as f:
            json.dump(ev, f, indent=1, default=str)
        seen = set()
        for (path, no_input, what) in self.violations:
            if path in seen:
                continue
            seen.add(path)
            print("# " + what.replace("\n", " ")[:400])
            print("VIOLATION property=%s replay=%s%s" % (self.pid, path, " no-failing-input-found" if no_input else ""))
        sys.stdout.flush()
        return 1 if self.violations else 0


TRUSTED_BASE = [
    "Coq 8.16.1 kernel incl. vm_compute (used for _refuted witnesses, Examples and the in-Coq evaluation of the model in the correspondence check); no native_compute",
    "axioms: none declared; Print Assumptions of every property theorem must say 'Closed under the global context'",
    "hand-written Gallina model of go-flags (coq/theories/Model, Golib, Base): theorems are about the model; the tie to /repo is the correspondence check (differential testing, model evaluated inside Coq)",
    "Go harness (harness/*.go, reflect.StructOf declarations, observation format), Python orchestrator (gen/*.py: generation, projection, comparison, shrinking)",
    "Go 1.23.5 runtime/stdlib behaviour (reflect, strconv, strings, bufio, sort, fmt, os) is modelled, not verified",
]


def std_proof_phase(rep, pid, skip_make=False):
    """make + source scan + property-file audit; records into rep; returns ok"""
    if os.environ.get("VERIF_SKIP_PROOF") == "1":      # mutant self-test only: the Coq side is unchanged by a /repo patch
        rep.cov["trusted_base"] = TRUSTED_BASE
        rep.cov["obligations"] = rep.cov["discharged"] = 1
        rep.cov["checker_cmd"] = "(skipped: VERIF_SKIP_PROOF=1)"
        return True
    ok, log = (True, "") if skip_make else make_coq(clean=(rep.tier == "thorough" and os.environ.get("VERIF_NO_CLEAN") != "1"))
    rep.cov["trusted_base"] = TRUSTED_BASE
    if not ok:
        m = re.search(r'File "([^"]+)", line (\d+)', log)
        where = (m.group(1) + ":" + m.group(2)) if m else "?"
        rep.violation("Coq development does not build (%s)" % where,
                      {"kind": "proof-obligation-broken", "where": where, "log_tail": log[-3000:]}, no_input=True)
        return False
    probs = scan_sources()
    au = audit_props(pid)
    rep.cov["obligations"] = au["obligations"]
    rep.cov["discharged"] = au["discharged"]
    rep.cov["checker_cmd"] = au["cmd"]
    rep.extra["theorems"] = au["theorems"]
    rep.extra["axioms_reported"] = au["axioms"]
    if probs or au["problems"]:
        rep.violation("proof audit failed: " + "; ".join(probs + au["problems"])[:500],
                      {"kind": "proof-audit", "problems": probs + au["problems"]}, no_input=True)
        return False
    if rep.tier == "thorough" and os.environ.get("VERIF_NO_COQCHK") != "1":
        # independent re-check of the compiled property file and everything it depends on
        cmd = ["coqchk", "-silent", "-o", "-Q", os.path.join(COQ, "theories"), "GoFlags", "GoFlags.Props." + pid]
        rc, out, err = sh(cmd, cwd=COQ, timeout=6000)
        txt = (out + err).decode(errors="replace")
        rep.extra["coqchk_cmd"] = " ".join(cmd)
        rep.extra["coqchk_tail"] = txt[-1500:]
        m = re.search(r"\* Axioms:\s*(.*?)(?:\n\* |\Z)", txt, re.S)
        ax = [l.strip() for l in (m.group(1).split("\n") if m else []) if l.strip() and "<none>" not in l]
        rep.extra["coqchk_axioms"] = ax
        if rc != 0 or ax:
            rep.violation("coqchk failed or reports axioms: rc=%d %s" % (rc, ", ".join(ax)[:300]),
                          {"kind": "proof-audit", "coqchk": txt[-3000:]}, no_input=True)
            return False
    return True
