"""Unit-level correspondence: the same (fn, args) through the Go harness and through
Model/UnitRun.run_unit evaluated inside Coq."""
from . import lib, strgen

SPECIAL_BYTES = [b'"', b"\\", b"\n", b"\t", b" ", b"=", b":", b"-", b"`", b"'", b"\x00", b"\x7f", b"\xc2\xa0", b"\xe2\x80\x83", b"\xe3\x80\x80", b"\xc2\x85"]


def wild(rng, maxlen=10):
    out = b""
    for _ in range(rng.randint(0, maxlen)):
        x = rng.random()
        if x < 0.35:
            out += rng.choice(SPECIAL_BYTES)
        elif x < 0.5:
            out += rng.choice(strgen.BAD)
        elif x < 0.6:
            out += rng.choice(strgen.MB).encode()
        elif x < 0.65:
            out += bytes([rng.randrange(256)])
        else:
            out += rng.choice(strgen.ASCII + "0123456789ABCXYZ").encode()
    return out


def go_quote(b):
    # only used to build well-formed literals for unquote; relies on the Go side for truth
    out = '"'
    for ch in b.decode("utf-8", errors="surrogateescape"):
        o = ord(ch)
        if 0xDC80 <= o <= 0xDCFF:
            out += "\\x%02x" % (o - 0xDC00)
        elif ch == '"':
            out += '\\"'
        elif ch == "\\":
            out += "\\\\"
        elif o < 32 or o == 127:
            out += "\\x%02x" % o
        else:
            out += ch
    return (out + '"').encode("utf-8", errors="surrogateescape")


def gen_escape_lit(rng):
    parts = []
    for _ in range(rng.randint(0, 6)):
        k = rng.randrange(12)
        if k == 0: parts.append(b"\\" + rng.choice(b"abfnrtv\\\"'zq0").to_bytes(1, "big"))
        elif k == 1: parts.append(b"\\x" + bytes(rng.choice(b"0123456789abcdefABCDEFg") for _ in range(rng.randint(0, 3))))
        elif k == 2: parts.append(b"\\u" + bytes(rng.choice(b"0123456789abcdefDg") for _ in range(rng.randint(2, 5))))
        elif k == 3: parts.append(b"\\U" + bytes(rng.choice(b"0123456789abcdef0000") for _ in range(rng.randint(6, 9))))
        elif k == 4: parts.append(b"\\" + bytes(rng.choice(b"01234567089") for _ in range(rng.randint(1, 4))))
        elif k == 5: parts.append(rng.choice(strgen.BAD))
        elif k == 6: parts.append(rng.choice(strgen.MB).encode())
        elif k == 7: parts.append(rng.choice([b'"', b"\n", b"'"]))
        else: parts.append(strgen.rstr(rng, 4))
    body = b"".join(parts)
    r = rng.random()
    if r < 0.8:
        return b'"' + body + b'"'
    if r < 0.9:
        return b'"' + body
    return body + b'"'


NUMS = ["0", "1", "-1", "+1", "127", "128", "-128", "-129", "255", "256", "32767", "32768", "-32768", "-32769", "65535", "65536",
        "2147483647", "2147483648", "-2147483648", "-2147483649", "4294967295", "4294967296", "9223372036854775807",
        "9223372036854775808", "-9223372036854775808", "-9223372036854775809", "18446744073709551615", "18446744073709551616",
        "99999999999999999999999", "007", "0x1f", "0X1F", "0b101", "0o17", "017", "1_000", "0x_1f", "_1", "1_", "1__0", "0_7", "-0x80", "", "+", "-",
        " 1", "1 ", "1e3", "0x", "0b", "z", "Zz", "7fffffff", "ffffffffffffffff", "-ff", "1.0", "١"]


def gen_num(rng):
    r = rng.random()
    if r < 0.4:
        return rng.choice(NUMS).encode()
    if r < 0.7:
        sign = rng.choice(["", "", "-", "+"])
        digs = "".join(rng.choice("0123456789abcdefxyzABCXYZ_") for _ in range(rng.randint(1, 22)))
        return (sign + rng.choice(["", "", "0x", "0b", "0o", "0"]) + digs).encode()
    if r < 0.9:
        sign = rng.choice(["", "-"])
        return (sign + str(rng.choice([2 ** k + d for k in (7, 8, 15, 16, 31, 32, 63, 64) for d in (-2, -1, 0, 1)]))).encode()
    return wild(rng, 6)


TAGKEYS = ["long", "short", "description", "default", "choice", "required", "optional", "optional-value", "env", "env-delim", "value-name",
           "default-mask", "hidden", "ini-name", "no-ini", "base", "group", "namespace", "command", "alias", "x", ""]


def gen_tag(rng, malformed_p=0.35):
    parts = []
    for _ in range(rng.randint(0, 5)):
        k = rng.choice(TAGKEYS)
        v = wild(rng, 6) if rng.random() < 0.5 else strgen.rstr(rng, 6)
        lit = go_quote(v) if rng.random() < 0.8 else gen_escape_lit(rng)
        parts.append(rng.choice([b"", b" ", b"  "]) + k.encode() + b":" + lit)
    t = rng.choice([b" ", b"", b"\t", b"  "]).join(parts) if rng.random() < 0.1 else b" ".join(parts)
    if rng.random() < malformed_p and t:
        op = rng.randrange(5)
        i = rng.randrange(len(t))
        if op == 0: t = t[:i]
        elif op == 1: t = t[:i] + t[i + 1:]
        elif op == 2: t = t[:i] + rng.choice([b'"', b":", b" ", b"\\", b"\n"]) + t[i:]
        elif op == 3: t = t.replace(b":", b"", 1)
        else: t = t + rng.choice([b"x", b"x:", b'x:"', b' "'])
    return t


def gen_case(rng, fn):
    if fn in ("quote", "quoteif", "trimspace", "tolower", "isopt"):
        if fn == "isopt":
            return {"fn": fn, "s": [rng.choice([b"", b"-", b"--", b"---", b"---x", b"-x", b"--x", b"-=", b"--=", b"x", b"-\xff", b"--\xc3"]) if rng.random() < 0.6 else wild(rng, 4)]}
        if fn == "trimspace":
            pad = lambda: b"".join(rng.choice([b" ", b"\t", b"\n", b"\r", b"\x0b", b"\x0c", b"\xc2\xa0", b"\xc2\x85", b"\xe2\x80\x83", b"\xe3\x80\x80", b"\xe1\x9a\x80", b"\xe2\x80", b"\x80", b"\xa0", b"\xc2"]) for _ in range(rng.randint(0, 3)))
            return {"fn": fn, "s": [pad() + wild(rng, 5) + pad()]}
        if fn == "tolower":
            return {"fn": fn, "s": [rng.choice(["ÀÉÎ", "ǅ", "İ", "Ω", "ẞ", "ABCxyz", "Ǆ", "Σ"]).encode() + wild(rng, 5) if rng.random() < 0.5 else wild(rng, 8)]}
        return {"fn": fn, "s": [wild(rng, 10)]}
    if fn in ("unquote", "unquoteif"):
        r = rng.random()
        if r < 0.4:
            return {"fn": fn, "s": [go_quote(wild(rng, 8))]}
        if r < 0.85:
            return {"fn": fn, "s": [gen_escape_lit(rng)]}
        return {"fn": fn, "s": [wild(rng, 6)]}
    if fn in ("parseint", "parseuint"):
        base = rng.choice([10, 10, 10, 0, 2, 8, 16, 36, 7, 1, 37, -3, 35])
        bits = rng.choice([8, 16, 32, 64])
        return {"fn": fn, "s": [gen_num(rng)], "n": [base, bits]}
    if fn == "parsebool":
        return {"fn": fn, "s": [rng.choice([b"1", b"t", b"T", b"TRUE", b"true", b"True", b"0", b"f", b"F", b"FALSE", b"false", b"False", b"", b"yes", b"tRUE", b" true"]) if rng.random() < 0.8 else wild(rng, 4)]}
    if fn == "formatint":
        v = rng.choice([0, 1, -1, 255, -256, 2 ** 63 - 1, -2 ** 63, rng.randrange(-2 ** 63, 2 ** 63), rng.randrange(-1000, 1000)])
        return {"fn": fn, "n": [v, rng.choice([10, 2, 8, 16, 36, 7, 1, 0, 37, -2])]}
    if fn == "scantag":
        return {"fn": fn, "s": [gen_tag(rng)]}
    raise ValueError(fn)


def coq_case(c):
    return "(%s, %s, %s)" % (lib.coq_str(c["fn"]), lib.coq_list([lib.coq_str(x) for x in c.get("s", [])]),
                             lib.coq_list(["(%d)%%Z" % n for n in c.get("n", [])]))


def run_stream(rep, cases, stream_name, theorem_hint="correspondence of the stdlib model"):
    """returns list of (case, go_result, coq_result); reports a no-failing-input violation on mismatch"""
    go = lib.go_unit(cases)
    coq = lib.coq_eval(["Base.Str", "Model.UnitRun"],
                       "Definition run_case (c : str * list str * list Z) : str := let '(f, ss, ns) := c in run_unit f ss ns.",
                       "str * list str * list Z", [coq_case(c) for c in cases], shard=500, label="unit")
    res = []
    bad = None
    for c, g, q in zip(cases, go, coq):
        q = q.decode()
        res.append((c, g, q))
        if g != q and bad is None:
            bad = (c, g, q)
        else:
            rep.cov["traces_validated_against_impl"] += 1
    if bad:
        c, g, q = bad
        rep.violation("%s: model and implementation disagree on %s(%r %r): impl=%s model=%s" % (stream_name, c["fn"], c.get("s"), c.get("n"), g[:80], q[:80]),
                      {"kind": "correspondence", "stream": stream_name, "names": theorem_hint, "fn": c["fn"],
                       "s": [lib.l1(x) for x in c.get("s", [])], "n": c.get("n", []), "impl": g, "model": q}, no_input=True)
    return res, bad is None
