"""String generators shared by the checks (all randomness from the passed rng)."""
MB = ["é", "ü", "日", "本", "😀", "ß", "Ω"]
ASCII = "abcdefghijklmnopqrstuvwxyz"
BAD = [b"\xff", b"\xc3", b"\xe2\x82", b"\x80", b"\xf0\x9f", b"\xed\xa0\x80", b"\xc0\xaf"]


def rstr(rng, maxlen=8, alphabet=None, p_mb=0.15, p_bad=0.05):
    n = rng.randint(0, maxlen)
    out = b""
    alpha = alphabet or ASCII
    for _ in range(n):
        x = rng.random()
        if x < p_bad:
            out += rng.choice(BAD)
        elif x < p_bad + p_mb:
            out += rng.choice(MB).encode()
        else:
            out += rng.choice(alpha).encode()
    return out


def mutate(rng, s, alphabet=None):
    """small edit of a byte string, on rune boundaries when possible"""
    try:
        chars = list(s.decode("utf-8"))
    except UnicodeDecodeError:
        chars = [bytes([b]).decode("latin-1") for b in s]
        enc = lambda cs: "".join(cs).encode("latin-1")
    else:
        enc = lambda cs: "".join(cs).encode("utf-8")
    alpha = (alphabet or ASCII) + "".join(MB)
    k = rng.randint(1, 3)
    for _ in range(k):
        op = rng.randint(0, 3)
        if op == 0 and chars:
            del chars[rng.randrange(len(chars))]
        elif op == 1:
            chars.insert(rng.randint(0, len(chars)), rng.choice(alpha))
        elif op == 2 and chars:
            chars[rng.randrange(len(chars))] = rng.choice(alpha)
        elif op == 3 and len(chars) > 1:
            i = rng.randrange(len(chars) - 1)
            chars[i], chars[i + 1] = chars[i + 1], chars[i]
    try:
        return enc(chars)
    except UnicodeEncodeError:
        return "".join(chars).encode("utf-8")


def go_runes(b):
    """decode like Go's range over string: invalid byte -> U+FFFD, width 1"""
    out = []
    i = 0
    n = len(b)
    while i < n:
        c = b[i]
        if c < 0x80:
            out.append(c); i += 1; continue
        need = 0
        if 0xC2 <= c <= 0xDF: need = 1
        elif 0xE0 <= c <= 0xEF: need = 2
        elif 0xF0 <= c <= 0xF4: need = 3
        else:
            out.append(0xFFFD); i += 1; continue
        if i + need >= n + 0 and i + need > n - 1 + 0 and i + need > n - 1:
            pass
        chunk = b[i:i + need + 1]
        try:
            ch = chunk.decode("utf-8")
            if len(chunk) == need + 1 and len(ch) == 1:
                out.append(ord(ch)); i += need + 1; continue
        except UnicodeDecodeError:
            pass
        out.append(0xFFFD); i += 1
    return out
