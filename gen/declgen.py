"""Random declarations (struct trees with tags), parser configurations and argument
vectors.  Everything is driven by one rng and a profile of probabilities so each
check can put its emphasis where its property lives."""
from . import scen, strgen, units

WORDS = ["verbose", "name", "num", "file", "out", "in", "host", "port", "level", "mode", "tag", "key", "value", "debug", "force",
         "all", "quiet", "count", "size", "path", "user", "pass", "add", "rm", "list", "get", "set", "show", "init", "push", "pull"]
SHORTS = "abcdefgijklmnopqrstuvwxyzABCDEFG0123456789"
MB_SHORTS = ["é", "ü", "日", "ß", "Ω", "😀"]

DEFAULT_PROFILE = dict(
    n_opts=(1, 6), p_short=0.6, p_long=0.75, p_mb_short=0.08, p_desc=0.3, p_default=0.2, p_required=0.12, p_optional=0.1,
    p_choice=0.1, p_env=0.1, p_hidden=0.08, p_valname=0.1, p_mask=0.05, p_ininame=0.05, p_inicross=0.0, p_addoption=0.0, p_mid_attach=0.0, p_mid_hide=0.0, p_noini=0.03, p_base=0.1, p_unquote_false=0.03,
    p_group=0.25, p_ptr_group=0.4, p_nil_ptr=0.5, p_namespace=0.5, p_plain_nested=0.08, p_unexported=0.05, p_untagged=0.1, p_noflag=0.03,
    p_commands=0.45, max_depth=2, n_cmds=(1, 3), p_alias=0.3, p_cmd_hidden=0.1, p_subopt=0.25, p_exec=0.6, p_exec_err=0.2,
    p_tagcmd=0.5, p_positional=0.3, n_pos=(1, 3), p_pos_slice=0.4, p_pos_required=0.4,
    p_attach_group=0.25,
    p_help=0.5, p_passdd=0.6, p_ignore=0.2, p_print=0.3, p_passafter=0.2, p_handler=0.2, p_cmdhandler=0.3,
    p_nsdelim_other=0.15, p_init=0.15, p_env_set=0.6,
    n_events=(0, 7), p_ev_opt=0.55, p_ev_cmd=0.18, p_ev_plain=0.15, p_ev_term=0.04, p_ev_unknown=0.05, p_ev_garbage=0.03,
    p_bad_value=0.08, p_quoted=0.08, p_mutate_argv=0.1, p_wrong_scope=0.05,
    types=[("bool", 14), ("int", 8), ("int8", 3), ("int16", 2), ("int32", 2), ("int64", 3), ("uint", 3), ("uint8", 3), ("uint16", 1),
           ("uint32", 1), ("uint64", 2), ("float32", 2), ("float64", 3), ("string", 14), ("duration", 3), ("custom", 3),
           ("ptr", 6), ("slice", 10), ("map", 6), ("func", 6)],
    p_bad_default=0.05, p_plain_mapkey=0.7, p_envns=0.3, p_dup=0.0, p_bad_tag=0.0, p_long_short=0.0, p_bool_default=0.0, p_bool_choice=0.03,
)


def wchoice(rng, items):
    tot = sum(w for _, w in items)
    x = rng.random() * tot
    for v, w in items:
        x -= w
        if x < 0:
            return v
    return items[-1][0]


SCALARS = ["bool", "int", "int8", "int16", "int32", "int64", "uint", "uint8", "uint16", "uint32", "uint64", "float32", "float64",
           "string", "duration", "custom"]
ARG_SCALARS = [k for k in SCALARS if k != "bool"]
MAPKEYS = ["string", "string", "int", "uint8", "custom"]


def int_range(kind):
    b = scen.INT_BITS[kind]
    return (0, 2 ** b - 1) if kind.startswith("u") else (-2 ** (b - 1), 2 ** (b - 1) - 1)


def fmt_base(n, base):
    if base == 10: return str(n)
    digs = "0123456789abcdefghijklmnopqrstuvwxyz"
    neg = n < 0
    n = abs(n)
    s = ""
    while True:
        s = digs[n % base] + s
        n //= base
        if n == 0: break
    return ("-" if neg else "") + s


class Gen:
    def __init__(self, rng, profile=None):
        self.rng = rng
        self.p = dict(DEFAULT_PROFILE)
        if profile:
            self.p.update(profile)
        self.fid = 0
        self.sid = 0
        self.init = {}
        self.used_gdesc = set()
        self.used_long = set()
        self.used_short = set()
        self.fname = 0
        self.longs = []          # (namespace tuple, long name) of the options generated so far

    def chance(self, key):
        return self.rng.random() < self.p[key]

    # ---------------------------------------------------------------- types and values
    def gen_type(self):
        k = wchoice(self.rng, self.p["types"])
        r = self.rng
        if k == "ptr": return ("ptr", r.choice(["string", "int", "bool", "float64", "custom", "uint8", "duration"]))
        if k == "slice":
            e = r.choice(["string", "int", "bool", "int8", "float64", "custom", "uint16", "duration", "ptr"])
            return ("slice", ("ptr", r.choice(["int", "string"])) if e == "ptr" else ("k", e))
        if k == "map": return ("map", r.choice(MAPKEYS), r.choice(["string", "int", "bool", "float64", "custom", "int8"]))
        if k == "func":
            a = r.choice([None, None, "string", "int", "int8", "custom"])
            return ("func", a, r.random() < 0.5)
        return ("k", k)

    def scalar_text(self, kind, base=10, valid=True):
        r = self.rng
        if not valid:
            if kind == "string": return strgen.rstr(r, 5)
            if kind in ("custom", "comp"): return b"!" + strgen.rstr(r, 3, p_bad=0)
            if kind == "bool": return r.choice([b"maybe", b"yes", b"2", b"tru"])
            if kind in scen.IKINDS:
                lo, hi = int_range(kind)
                return r.choice([b"abc", b"", b"1.5", b" 1", str(hi + 1).encode(), str(lo - 1).encode(), b"0x1g", b"--1", b"1_0"])
            if kind in ("float32", "float64"): return r.choice([b"abc", b"1e", b"1e400", b"", b"1,5"] + ([b"3.5e38", b"-1e39", b"3.5e38"] if kind == "float32" else [b"1e309"]))
            if kind == "duration": return r.choice([b"1", b"h", b"1x", b"", b"1h2"])
        if kind == "bool": return r.choice([b"true", b"false", b"1", b"0", b"t", b"F", b"TRUE", b"False"])
        if kind in scen.IKINDS:
            lo, hi = int_range(kind)
            x = r.random()
            if x < 0.3: n = r.choice([lo, hi, 0, 1, hi - 1, lo + 1])
            elif x < 0.6: n = r.randint(max(lo, -300), min(hi, 300))
            else: n = r.randint(lo, hi)
            if 2 <= base <= 36:
                t = fmt_base(n, base)
                if r.random() < 0.1 and n >= 0 and not kind.startswith("u"): t = "+" + t
                if r.random() < 0.1:
                    t = t.replace("-", "-0") if n < 0 else (t.replace("+", "+0") if t.startswith("+") else "0" + t)
                return t.encode()
            if base == 0:
                form = r.choice(["d", "x", "o", "b", "0"])
                a = abs(n)
                t = {"d": str(a), "x": "0x%x" % a, "o": "0o%o" % a, "b": "0b" + bin(a)[2:], "0": "0%o" % a}[form]
                return (("-" if n < 0 else "") + t).encode()
            return str(n).encode()
        if kind == "float32": return r.choice([b"1.5", b"-2.25", b"1e3", b"3.4e38", b"0", b"-0", b".5", b"16777217", b"0.1", b"1e-45", b"-1.5e-3", b"inf", b"+Inf", b"0x1p-2", b"1_0",
                                               # a decimal just above a rounding midpoint (no double rounding); out-of-range texts are among the invalid ones
                                               b"1.00000005960464477539062500000000000001"])
        if kind == "float64": return r.choice([b"1.5", b"-2.25", b"1e3", b"1.7976931348623157e308", b"0", b".5", b"-.5", b"0.1", b"5e-324", b"123456789.123456789", b"-Inf", b"infinity", b"1e308", b"-7"])
        if kind == "duration": return r.choice([b"1h", b"2m30s", b"1.5s", b"300ms", b"-1h", b"0", b"1h2m3s4ms5us6ns", b"2562047h", b"1us", b"+5m", b".5h"])
        if kind == "custom": return strgen.rstr(r, 5, p_bad=0.02)
        # string
        x = r.random()
        if self.p.get("p_long_value", 0.0) and getattr(self, "in_argv", False) and r.random() < self.p["p_long_value"]:
            # longer than bufio's 4096-byte buffer: the INI reader reassembles such lines from chunks
            n = r.choice([4080, 4096, 4100, 5000, 9000])
            return (strgen.rstr(r, 6, p_bad=0) + b"0123456789abcdef" * (n // 16 + 1))[:n] + r.choice([b"", b"Z", b" end", b'"'])
        if x < 0.55: return strgen.rstr(r, 6, p_bad=0.02)
        if x < 0.7: return r.choice([b"", b"=", b"=x", b"-", b"--", b"-x", b"--name", b"a b", b" lead", b"trail ", b"a=b", b"a:b", b"\"", b"\"q\"", b"'", b"\\", b"x\"y", b"-1", b"-.5", b"%d", b"\xff"])
        return units.wild(r, 6)

    def value_text(self, t, base=10, valid=True):
        r = self.rng
        if t[0] in ("k", "ptr"): return self.scalar_text(t[1], base, valid)
        if t[0] == "slice": return self.value_text(t[1], base, valid)
        if t[0] == "map":
            kt = self.scalar_text(t[1], base, True)
            if t[1] in ("string", "custom") and self.chance("p_plain_mapkey"):
                kt = strgen.rstr(r, 5, p_bad=0) or b"k"
            if t[1] in ("string", "custom"):
                # keys the key:value syntax can express: non-empty, no ':', no surrounding white space, no leading quote
                kt = kt.replace(b":", b"")
                try:
                    kt = kt.decode("utf-8").strip().encode("utf-8")
                except UnicodeDecodeError:
                    kt = kt.strip()
                kt = kt.lstrip(b'"') or b"k"
                if t[1] == "custom":
                    kt = kt.lstrip(b"!").rstrip(b'"') or b"k"
            vt = self.scalar_text(t[2], base, valid)
            x = r.random()
            if x < 0.06 and (t[2] in ("string", "bool", "custom") or not valid): return kt            # no colon: empty value
            if x < 0.16 and (t[2] in ("string", "custom") or (x < 0.09 and not valid)):
                # further colons belong to the value (SplitN at the first one)
                vt = r.choice([vt + b":" + vt, b"http://host:80", b":", b"::", vt + b":", b":" + vt, b"12:30:05", b"true:x"])
                if t[2] == "custom": vt = vt.lstrip(b"!") or b"c"
            return kt + b":" + vt
        if t[0] == "func": return self.scalar_text(t[1], base, valid) if t[1] else b""
        raise ValueError(t)

    def init_value(self, t):
        r = self.rng
        def sv(kind):
            if kind == "bool": return ("b", r.random() < 0.5)
            if kind in scen.IKINDS:
                lo, hi = int_range(kind)
                return ("i", r.choice([0, 1, hi, lo, 7, 42 if hi >= 42 else 3]))
            if kind == "duration": return ("i", r.choice([0, 10 ** 9, 90 * 10 ** 9, -5]))
            if kind in ("float32", "float64"): return ("f", r.choice([b"0", b"1.5", b"-2", b"0.25"]))
            if kind == "custom": return ("s", r.choice([b"", b"x", b"raw"]))
            return ("s", r.choice([b"", b"init", b"a b", "é".encode()]))
        if t[0] == "k": return sv(t[1])
        if t[0] == "ptr": return ("p", None if r.random() < 0.5 else sv(t[1]))
        if t[0] == "slice":
            x = r.random()
            if x < 0.4: return ("l", None)
            if x < 0.5: return ("l", [])
            return ("l", [self.init_value(t[1]) for _ in range(r.randint(1, 2))])
        if t[0] == "map":
            x = r.random()
            if x < 0.4: return ("m", None)
            if x < 0.5: return ("m", [])
            ks = []
            out = []
            for _ in range(r.randint(1, 2)):
                k = sv(t[1])
                if k in ks: continue
                ks.append(k)
                out.append((k, sv(t[2])))
            return ("m", out)
        if t[0] == "func": return ("fn", False, r.random() < 0.25 and t[2])
        raise ValueError(t)

    # ---------------------------------------------------------------- names
    def new_long(self, scope, ns=()):
        r = self.rng
        if self.p.get("p_nsclash", 0.0) and r.random() < self.p["p_nsclash"]:
            # a long name whose namespaced spelling coincides with that of an option of another group
            # (top-level db.host vs host inside namespace db, at any nesting): the duplicate check must see it
            pre = b".".join(ns) + b"." if ns else b""
            cands = []
            for ns2, l2 in self.longs:
                q2 = b".".join(list(ns2) + [l2])
                if ns2 != tuple(ns) and q2.startswith(pre) and len(q2) > len(pre):
                    cands.append(q2[len(pre):])
            if not ns: cands.append(r.choice([b"sub", b"db", b"x"]) + b"." + r.choice(WORDS[:5]).encode())
            else: cands.append(r.choice(WORDS[:5]).encode())
            return r.choice(cands)
        for _ in range(50):
            w = r.choice(WORDS)
            x = r.random()
            if x < 0.15: w = w + "-" + r.choice(WORDS)
            elif x < 0.2: w = w + str(r.randint(0, 9))
            elif x < 0.24: w = w.capitalize()
            elif x < 0.27: w = w + "é"
            elif x < 0.3: w = r.choice(["h", "help", "x", "a.b", "a_b"])
            if self.chance("p_dup") or w not in scope["long"]:
                scope["long"].add(w)
                return w.encode()
        return ("opt%d" % r.randint(0, 10 ** 6)).encode()

    def new_short(self, scope):
        r = self.rng
        for _ in range(50):
            c = r.choice(MB_SHORTS) if self.chance("p_mb_short") else r.choice(SHORTS)
            if r.random() < 0.03: c = "h"
            if self.chance("p_dup") or c not in scope["short"]:
                scope["short"].add(c)
                return c.encode()
        return None

    def tag_of(self, kvs):
        parts = []
        for k, v in kvs:
            parts.append(k + b":" + units.go_quote(v))
        return b" ".join(parts)

    # ---------------------------------------------------------------- fields
    def gen_option(self, scope, exported=True, ns=()):
        r = self.rng
        self.fid += 1
        self.fname += 1
        fid = self.fid
        t = getattr(self, "force_type", None) or self.gen_type()
        kvs = []
        short = long = None
        if self.chance("p_short"): short = self.new_short(scope)
        if self.chance("p_long") or short is None:
            long = self.new_long(scope, ns)
            self.longs.append((tuple(ns), long))
        if self.chance("p_long_short") and short: short = short + r.choice([b"x", "é".encode()])
        if short: kvs.append((b"short", short))
        if long: kvs.append((b"long", long))
        isbool = t == ("k", "bool") or t == ("ptr", "bool") or t == ("slice", ("k", "bool")) or (t[0] == "func" and t[1] is None)
        base = 10
        info = {"fid": fid, "type": t, "short": short, "long": long, "isbool": isbool, "optional": False, "choices": None,
                "required": False, "base": 10, "unquote": True, "hidden": False, "defaults": [], "env": None, "optvals": []}
        uses_int = any(k in scen.IKINDS for k in self.kinds_of(t))
        if uses_int and self.chance("p_base"):
            base = r.choice([2, 8, 16, 36, 0, 7])
            kvs.append((b"base", str(base).encode()))
            info["base"] = base
        if self.chance("p_desc"): kvs.append((b"description", r.choice([b"Show things", b"A description", b"Use `x' here", "Beschreibung é".encode(), b"A rather long description that goes on for a while to force wrapping of the text in help output"])))
        if isbool and t[0] != "func" and self.chance("p_bool_choice"):
            for c in (b"true", b"false"): kvs.append((b"choice", c))
        if not isbool and self.chance("p_choice") and t[0] != "func":
            n = r.randint(1, 3)
            ch = []
            for _ in range(n):
                ch.append(self.value_text(t, base))
            info["choices"] = ch
            for c in ch: kvs.append((b"choice", c))
        if (not isbool or self.chance("p_bool_default")) and self.chance("p_default"):
            n = r.randint(1, 2) if t[0] in ("slice", "map") else 1
            for _ in range(n):
                d = r.choice(info["choices"]) if info["choices"] else self.value_text(t, base, valid=not self.chance("p_bad_default"))
                info["defaults"].append(d)
                kvs.append((b"default", d))
        if self.chance("p_required"):
            v = r.choice([b"true", b"yes", b"1", b"x", b"false", b"no", b"0"])
            kvs.append((b"required", v))
            info["required"] = v not in (b"false", b"no", b"0")
        if not isbool and self.chance("p_optional"):
            v = r.choice([b"true", b"yes", b"false"])
            kvs.append((b"optional", v))
            info["optional"] = v != b"false"
            for _ in range(r.randint(0, 2) if t[0] in ("slice", "map") else r.randint(0, 1)):
                ov = r.choice(info["choices"]) if info["choices"] else self.value_text(t, base)
                info["optvals"].append(ov)
                kvs.append((b"optional-value", ov))
        if self.chance("p_env"):
            ek = r.choice([b"VF_A", b"VF_B", b"VF_C", b"VF_LIST"])
            kvs.append((b"env", ek))
            info["env"] = ek
            if t[0] in ("slice", "map") and r.random() < 0.7:
                kvs.append((b"env-delim", r.choice([b",", b";", b"::"])))
        if self.chance("p_hidden"):
            v = r.choice([b"true", b"1", b"false"])
            kvs.append((b"hidden", v)); info["hidden"] = v != b"false"
        if self.chance("p_valname"): kvs.append((b"value-name", r.choice([b"FILE", b"N", "WERT".encode(), "名".encode()])))
        if self.chance("p_mask"): kvs.append((b"default-mask", r.choice([b"-", b"****", b"<secret>"])))
        if self.chance("p_inicross"):
            # an ini-name that is also another option's field / long / short name: exercises the
            # ini-name > field > long > short priority of Group.optionByName across (sub)groups
            x = r.random()
            if x < 0.45: cross = ("F%d" % (self.fname + r.randint(1, 6))).encode()
            elif x < 0.55: cross = ("f%d" % (self.fname + r.randint(1, 6))).encode()
            elif x < 0.9: cross = r.choice(WORDS).encode()
            else: cross = r.choice(SHORTS).encode()
            kvs.append((b"ini-name", cross))
        elif self.chance("p_ininame"): kvs.append((b"ini-name", r.choice([b"ini_a", b"IniB", b"other"]) + str(fid).encode()))
        if self.chance("p_noini"): kvs.append((b"no-ini", b"true"))
        if self.chance("p_unquote_false"):
            kvs.append((b"unquote", b"false")); info["unquote"] = False
        r.shuffle(kvs) if r.random() < 0.2 else None
        tag = self.tag_of(kvs)
        if self.chance("p_bad_tag"):
            tag = units.gen_tag(r, malformed_p=0.9)
        fname = ("F%d" % self.fname).encode() if exported else ("f%d" % self.fname).encode()
        if exported and getattr(self, "outer_names", None) and self.p.get("p_dupfield", 0.0) and r.random() < self.p["p_dupfield"]:
            # the same field name as an option of an enclosing struct (field names are only unique per struct):
            # the INI reader resolves names by field name within a group and its sub-groups, first one wins
            cand = [n for n in self.outer_names if n.startswith(b"F") and n not in getattr(self, "struct_names", set())]
            if cand: fname = r.choice(cand)
        if hasattr(self, "struct_names"): self.struct_names.add(fname)
        f = {"name": fname, "exported": exported, "tag": tag, "type": t, "fid": fid}
        info["field"] = f["name"]
        info["ininame"] = dict(kvs).get(b"ini-name")
        info["noini"] = b"no-ini" in dict(kvs)
        if exported and (t[0] == "func" or self.chance("p_init")):
            self.init[fid] = self.init_value(t)
        return f, info

    def kinds_of(self, t):
        acc = set()
        if t[0] in ("k", "ptr"): acc.add(t[1])
        elif t[0] == "slice": acc |= self.kinds_of(t[1])
        elif t[0] == "map": acc |= {t[1], t[2]}
        elif t[0] == "func" and t[1]: acc.add(t[1])
        return acc

    def gen_plain_field(self):
        """field without option tags: must never be touched"""
        self.fid += 1
        self.fname += 1
        t = self.gen_type()
        if t[0] == "func": t = ("k", "string")
        tag = self.rng.choice([b"", b'description:"not an option"', b'json:"x"', b'default:"9"'])
        f = {"name": ("P%d" % self.fname).encode(), "exported": True, "tag": tag, "type": t, "fid": self.fid}
        if self.rng.random() < 0.7:
            self.init[self.fid] = self.init_value(t)
        return f

    def gen_fields(self, scope, node, depth, in_group=False, ns=(), envns=(), gdesc=None, ghidden=False):
        """fields of one struct; node collects option infos / positionals / commands for argv generation"""
        r = self.rng
        fields = []
        lo, hi = self.p["n_opts"]
        saved_names, saved_outer, saved_g = getattr(self, "struct_names", set()), getattr(self, "outer_names", []), getattr(self, "cur_gdesc", "<none>")
        if gdesc == saved_g and depth > 0:
            # a plain nested struct: its options join the enclosing group, where ini names must stay distinct
            pass
        else:
            self.outer_names = list(saved_outer) + sorted(saved_names)
            self.struct_names = set()
        self.cur_gdesc = gdesc
        try:
            return self.gen_fields_inner(scope, node, depth, in_group, ns, envns, gdesc, ghidden, fields, lo, hi)
        finally:
            if not (gdesc == saved_g and depth > 0):
                self.struct_names, self.outer_names = saved_names, saved_outer
            self.cur_gdesc = saved_g

    def gen_fields_inner(self, scope, node, depth, in_group, ns, envns, gdesc, ghidden, fields, lo, hi):
        r = self.rng
        for _ in range(r.randint(lo, hi)):
            x = r.random()
            if x < self.p["p_untagged"]:
                fields.append(self.gen_plain_field())
            elif x < self.p["p_untagged"] + self.p["p_unexported"]:
                f, _ = self.gen_option(scope, exported=False, ns=ns)
                fields.append(f)
            elif x < self.p["p_untagged"] + self.p["p_unexported"] + self.p["p_noflag"]:
                f, _ = self.gen_option(scope, ns=ns)
                f["tag"] = f["tag"] + b' no-flag:"1"'
                fields.append(f)
            else:
                f, info = self.gen_option(scope, ns=ns)
                info["ns"] = ns
                info["envns"] = envns
                info["gdesc"] = gdesc
                info["ghidden"] = ghidden
                node["opts"].append(info)
                fields.append(f)
        # nested group
        if depth < 3 and self.chance("p_group"):
            self.sid += 1
            self.fname += 1
            sid = self.sid
            gname = self.fname
            subdesc = r.choice([b"Sub Group", b"Extra Options", b"More", "Gruppe é".encode()])
            if subdesc.lower() in self.used_gdesc and not self.chance("p_dup"):
                subdesc = subdesc + b" " + str(sid).encode()
            self.used_gdesc.add(subdesc.lower())
            kv = [(b"group", subdesc)]
            gns = ()
            gens = ()
            if self.chance("p_namespace"):
                n = r.choice([b"sub", b"db", b"x", b"a.b"])
                kv.append((b"namespace", n)); gns = (n,)
            if self.chance("p_envns"):
                n = r.choice([b"SUB", b"DB", b"IN"])
                kv.append((b"env-namespace", n)); gens = (n,)
            sub_hidden = r.random() < 0.1
            if sub_hidden: kv.append((b"hidden", b"yes"))
            if r.random() < 0.3: kv.append((b"description", b"Group long description"))
            ptr = self.chance("p_ptr_group")
            isnil = ptr and self.chance("p_nil_ptr")
            sub = self.gen_fields(scope, node, depth + 1, True, ns + gns, envns + gens, subdesc, sub_hidden)
            if isnil: self.defunc(sub, node)
            fields.append({"name": ("G%d" % gname).encode(), "exported": True, "tag": self.tag_of(kv),
                           "struct": {"ptr": ptr, "nil": isnil, "fields": sub, "sid": sid}})
        if depth < 3 and self.chance("p_plain_nested"):
            self.sid += 1
            self.fname += 1
            mysid, myname = self.sid, self.fname
            ptr = r.random() < 0.5
            isnil = ptr and r.random() < 0.5
            sub = self.gen_fields(scope, node, depth + 1, in_group, ns, envns, gdesc, ghidden)
            if isnil: self.defunc(sub, node)
            fields.append({"name": ("N%d" % myname).encode(), "exported": True, "tag": b"",
                           "struct": {"ptr": ptr, "nil": isnil, "fields": sub, "sid": mysid}})
        r.shuffle(fields) if r.random() < 0.3 else None
        return fields

    def defunc(self, fields, node):
        """a callback below a nil pointer struct would be a nil func (caller error): make such fields strings"""
        for f in fields:
            if "struct" in f:
                self.defunc(f["struct"]["fields"], node)
            elif f["type"][0] == "func":
                f["type"] = ("k", "string")
                self.init.pop(f["fid"], None)
                for o in node["opts"]:
                    if o["fid"] == f["fid"]:
                        o["type"] = ("k", "string"); o["isbool"] = False

    def gen_positional(self, node):
        r = self.rng
        self.sid += 1
        self.fname += 1
        lo, hi = self.p["n_pos"]
        n = r.randint(lo, hi)
        fs = []
        for i in range(n):
            self.fid += 1
            self.fname += 1
            last = i == n - 1
            if last and self.chance("p_pos_slice"):
                t = ("slice", ("k", r.choice(["string", "string", "int", "custom"])))
            else:
                t = ("k", r.choice(["string", "string", "string", "int", "int8", "float64", "custom", "uint8", "bool", "duration"]))
                if r.random() < 0.08: t = ("ptr", r.choice(["string", "int"]))
                elif r.random() < self.p.get("p_pos_map", 0.05): t = ("map", "string", r.choice(["int", "string"]))
            kv = []
            if r.random() < 0.3: kv.append((b"positional-arg-name", r.choice([b"FILE", b"name", "名前".encode(), b"ARG"])))
            if r.random() < 0.4: kv.append((b"description", r.choice([b"An argument", b"Input file to read"])))
            if self.chance("p_pos_required"):
                kv.append((b"required", r.choice([b"1", b"2", b"1-2", b"0-0", b"0-1", b"2-3", b"yes", b"-1", b"1-"]) if t[0] == "slice" else r.choice([b"1", b"yes", b"true"])))
            f = {"name": ("A%d" % self.fname).encode(), "exported": True, "tag": self.tag_of(kv), "type": t, "fid": self.fid}
            if r.random() < 0.1: self.init[self.fid] = self.init_value(t)
            fs.append(f)
            node["pos"].append({"fid": self.fid, "type": t})
        kv = [(b"positional-args", b"yes")]
        if r.random() < 0.3: kv.append((b"required", b"yes"))
        ptr = r.random() < 0.15
        return {"name": ("Pos%d" % self.fname).encode(), "exported": True, "tag": self.tag_of(kv),
                "struct": {"ptr": ptr, "nil": False, "fields": fs, "sid": self.sid}}

    def new_node(self, name=None, aliases=()):
        return {"name": name, "aliases": list(aliases), "opts": [], "pos": [], "subs": [], "subopt": False}

    def gen_command_fields(self, node, depth, gdesc=None):
        """fields of a command/application struct, possibly with tag-declared sub-commands"""
        scope = {"long": set(), "short": set()}
        fields = self.gen_fields(scope, node, 0, gdesc=gdesc)
        if self.chance("p_positional"):
            fields.append(self.gen_positional(node))
        return fields

    def cmd_name(self, taken):
        r = self.rng
        for _ in range(30):
            n = r.choice(WORDS[-12:] + ["status", "remote", "commit", "x", "é", "ab"])
            if n not in taken:
                taken.add(n)
                return n.encode()
        taken.add("c%d" % len(taken))
        return ("c%d" % len(taken)).encode()

    def gen_tag_command(self, parent, depth, taken):
        r = self.rng
        self.sid += 1
        self.fname += 1
        name = self.cmd_name(taken)
        kv = [(b"command", name)]
        aliases = []
        if self.chance("p_alias"):
            for _ in range(r.randint(1, 2)):
                a = self.cmd_name(taken)
                aliases.append(a); kv.append((b"alias", a))
        if r.random() < 0.5: kv.append((b"description", r.choice([b"Do it", b"A command", b"Remove things"])))
        if r.random() < 0.15: kv.append((b"long-description", b"The long description of the command"))
        node = self.new_node(name, aliases)
        node["hidden"] = False
        if self.chance("p_cmd_hidden"):
            kv.append((b"hidden", b"1")); node["hidden"] = True
        if self.chance("p_subopt"):
            kv.append((b"subcommands-optional", b"true")); node["subopt"] = True
        fields = self.gen_command_fields(node, depth)
        if depth < self.p["max_depth"] and self.chance("p_commands"):
            t2 = set()
            lo, hi = self.p["n_cmds"]
            for _ in range(r.randint(lo, hi)):
                f = self.gen_tag_command(node, depth + 1, t2)
                fields.append(f)
        parent["subs"].append(node)
        ptr = r.random() < 0.3
        return {"name": ("C%d" % self.fname).encode(), "exported": True, "tag": self.tag_of(kv),
                "struct": {"ptr": ptr, "nil": False, "fields": fields, "sid": self.sid}}

    # ---------------------------------------------------------------- whole scenario
    def gen_cfg(self):
        r = self.rng
        handler = r.choice(["identity", "dropnext", "error"]) if self.chance("p_handler") else "none"
        return {"name": r.choice([b"app", b"prog", b"tool-x"]),
                "opts": {"help": self.chance("p_help"), "passdd": self.chance("p_passdd"), "ignore": self.chance("p_ignore"),
                         "print": self.chance("p_print"), "passafter": self.chance("p_passafter")},
                "nsdelim": r.choice([b"-", b"::", b""]) if self.chance("p_nsdelim_other") else b".",
                "envdelim": r.choice([b"__", b""]) if r.random() < 0.1 else b"_",
                "handler": handler, "cmdhandler": self.chance("p_cmdhandler"), "usage": r.choice([b"", b"", b"[opts] files"]),
                "env": [], "cols": 80, "subopt": False, "shortdesc": b"", "longdesc": b""}

    def gen_scenario(self, n_parses=1):
        r = self.rng
        cfg = self.gen_cfg()
        root = self.new_node(None)
        root["hidden"] = False
        attach = []
        data = None
        taken = set()
        if r.random() < 0.9:
            data = self.gen_command_fields(root, 0, b"Application Options")
            if self.chance("p_commands") and self.chance("p_tagcmd"):
                lo, hi = self.p["n_cmds"]
                for _ in range(r.randint(lo, hi)):
                    data.append(self.gen_tag_command(root, 1, taken))
        if self.chance("p_attach_group"):
            node_g = root
            scope = {"long": set(), "short": set()}
            ns = r.choice([b"", b"", b"grp"])
            gshort = r.choice([b"Extra", b"Added Group"])
            ghid = r.random() < 0.1
            aenv = r.choice([b"", b"EX"])
            fields = self.gen_fields(scope, node_g, 1, True, (ns,) if ns else (), (aenv,) if aenv else (), gshort, ghid)
            attach.append({"kind": "group", "path": [], "short": gshort, "long": b"", "fields": fields,
                           "ns": ns, "envns": aenv, "hidden": ghid})
            if attach[-1]["envns"]:
                for o in node_g["opts"]:
                    pass
        if self.chance("p_commands"):
            lo, hi = self.p["n_cmds"]
            for _ in range(r.randint(lo, hi)):
                self.gen_attach_command(root, [], attach, taken, 1)
        while self.p["p_addoption"] and r.random() < self.p["p_addoption"] and len(attach) < 12:
            # on the parser itself, or on one of the API-declared commands
            cands = [([], root)] + [(a["path"] + [i], n) for a in attach if a["kind"] == "command" and not a["path"]
                                    for i, n in enumerate(root["subs"]) if n["name"] == a["name"]]
            pth, nd = r.choice(cands)
            self.gen_addoption(nd, pth, attach)
        cfg["subopt"] = bool(root["subs"]) and self.chance("p_subopt")
        root["subopt"] = cfg["subopt"]
        # environment
        envs = []
        keys = set([b"VF_A", b"VF_B", b"VF_C", b"VF_LIST", b"SUB_VF_A", b"DB_VF_B", b"EX_VF_A"])
        ed = cfg["envdelim"]
        def collect(nd):
            for o in nd["opts"]:
                if o.get("env"):
                    parts = [n for n in o.get("envns", ()) if n]
                    keys.add(ed.join(parts + [o["env"]]))
                    if len(parts) > 1:
                        keys.add(ed.join(list(reversed(parts)) + [o["env"]]))      # near miss: namespaces in the wrong order
                    if parts:
                        keys.add(o["env"])                                          # near miss: un-namespaced key
            for s2 in nd["subs"]: collect(s2)
        collect(root)
        for k in sorted(keys):
            if self.chance("p_env_set") and r.random() < 0.5:
                envs.append((k, r.choice([b"", b"7", b"a,b", b"x;y", b"k:1,j:2", b"true", b"1h", b"1.5", b"bad value", b"3"])))
        cfg["env"] = envs
        sc = {"cfg": cfg, "data": data, "attach": attach, "init": self.init, "ops": [], "meta": root}
        for _ in range(n_parses):
            sc["ops"].append({"op": "parse", "args": self.gen_argv(sc)})
        if self.p.get("p_mid_attach", 0.0) and r.random() < self.p["p_mid_attach"]:
            # the declaration is extended through the API between two parses (AddGroup or AddOption on the parser)
            if r.random() < 0.7:
                self.sid += 1
                gshort = b"Late Group %d" % self.sid
                ns = r.choice([b"", b"", b"late"])
                scope = {"long": set(), "short": set()}
                fields = self.gen_fields(scope, root, 1, True, (ns,) if ns else (), (), gshort, False)
                att = {"kind": "group", "path": [], "short": gshort, "long": b"", "fields": fields, "ns": ns, "envns": b"", "hidden": False}
            else:
                tmp = []
                self.gen_addoption(root, [], tmp)
                att = tmp[0]
            sc["ops"].append({"op": "attach", "attach": att})
            sc["ops"].append({"op": "parse", "args": self.gen_argv(sc)})
        if self.p.get("p_mid_hide", 0.0) and root["subs"] and r.random() < self.p["p_mid_hide"]:
            # the program hides or un-hides a command between two parses (meta keeps the initial marks; oracles follow the ops)
            idx = r.randrange(len(root["subs"]))
            sc["ops"].append({"op": "hide", "path": [idx], "hidden": not root["subs"][idx].get("hidden", False)})
            sc["ops"].append({"op": "parse", "args": self.gen_argv(sc)})
        return sc

    def gen_addoption(self, node, path, attach):
        """Group.AddOption on the own group of the command at path: a hand-built Option bound to a fresh variable"""
        r = self.rng
        kind = r.choice(["string", "string", "int", "bool", "float64", "uint8", "duration", "custom"])
        saved = {k: self.p[k] for k in ("p_base", "p_ininame", "p_inicross", "p_noini", "p_unquote_false", "p_bad_tag", "p_long_short",
                                        "p_bool_default", "p_init")}
        for k in saved: self.p[k] = 0.0
        self.force_type = ("ptr", kind)
        try:
            scope = {"long": set(o["long"].decode("utf-8", "replace") for o in node["opts"] if o["long"]),
                     "short": set((o["short"] or b"").decode("utf-8", "replace") for o in node["opts"])}
            f, info = self.gen_option(scope)
        finally:
            self.force_type = None
            self.p.update(saved)
        info.update({"ns": (), "envns": (), "gdesc": None, "ghidden": bool(node.get("hidden")), "field": b"", "ext": True})
        f["name"] = b""
        zero = {"string": ("s", b""), "custom": ("s", b""), "bool": ("b", False), "float64": ("f", b"0")}.get(kind, ("i", 0))
        self.init[f["fid"]] = ("p", self.init_value(("k", kind)) if r.random() < saved["p_init"] + 0.15 else zero)
        node["opts"].append(info)
        attach.append({"kind": "option", "path": list(path), "fields": [f]})

    def gen_attach_command(self, parent, path, attach, taken, depth):
        r = self.rng
        name = self.cmd_name(taken)
        node = self.new_node(name, [])
        idx = len(parent["subs"])
        parent["subs"].append(node)
        node["hidden"] = self.chance("p_cmd_hidden")
        node["subopt"] = self.chance("p_subopt")
        if self.chance("p_alias"):
            node["aliases"] = [self.cmd_name(taken) for _ in range(r.randint(1, 2))]
        ex = None
        fields = []
        if self.chance("p_exec"):
            ex = (b"exec failed " + name) if self.chance("p_exec_err") else True
        else:
            fields = self.gen_command_fields(node, depth)
        a = {"kind": "command", "path": list(path), "name": name, "short": r.choice([b"", b"Short desc", b"Do " + name]), "long": r.choice([b"", b"", b"Long description"]),
             "fields": fields, "exec": ex, "usage": None, "aliases": node["aliases"], "hidden": node["hidden"], "subopt": node["subopt"]}
        attach.append(a)
        mypath = list(path) + [idx]
        if ex is not None and r.random() < 0.8:
            scope = {"long": set(), "short": set()}
            pseudo = node
            gfields = self.gen_fields(scope, pseudo, 1, False, gdesc=b"Command Options")
            if self.chance("p_positional"):
                gfields.append(self.gen_positional(pseudo))
            attach.append({"kind": "group", "path": mypath, "short": b"Command Options", "long": b"", "fields": gfields, "ns": b"", "envns": b"", "hidden": False})
        if depth < self.p["max_depth"] and self.chance("p_commands"):
            t2 = set()
            for _ in range(r.randint(1, 2)):
                self.gen_attach_command(node, mypath, attach, t2, depth + 1)
        if not node["subs"]:
            node["subopt"] = node["subopt"]

    # ---------------------------------------------------------------- argument vectors
    def qlong(self, sc, o):
        d = sc["cfg"]["nsdelim"]
        parts = [n for n in o.get("ns", ()) if n] + [o["long"]]
        return d.join(parts)

    def spell(self, sc, o, toks):
        """append one occurrence of option o"""
        r = self.rng
        t = o["type"]
        use_long = o["long"] is not None and (o["short"] is None or r.random() < 0.5)
        name = (b"--" + self.qlong(sc, o)) if use_long else (b"-" + o["short"])
        if o["isbool"]:
            if r.random() < 0.03:
                toks.append(name + b"=true")
            else:
                toks.append(name)
            return
        valid = not self.chance("p_bad_value")
        if o["choices"] and valid:
            v = r.choice(o["choices"])
            if r.random() < 0.12 and v.swapcase() != v:
                v = v.swapcase()        # differs from a choice only in letter case: not a choice
        else:
            v = self.value_text(t, o["base"], valid)
        if self.chance("p_quoted"):
            v = units.go_quote(v)
        if o["optional"] and r.random() < 0.4:
            toks.append(name)
            return
        x = r.random()
        if use_long:
            if x < 0.5 or o["optional"]: toks.append(name + b"=" + v)
            else: toks.extend([name, v])
        else:
            if x < 0.35: toks.append(name + v)
            elif x < 0.6 or o["optional"]: toks.append(name + b"=" + v)
            else: toks.extend([name, v])

    def gen_argv(self, sc):
        self.in_argv = True        # very long values only on the command line (tags and environment stay short)
        try:
            return self.gen_argv_inner(sc)
        finally:
            self.in_argv = False

    def gen_argv_inner(self, sc):
        r = self.rng
        node = sc["meta"]
        chain = [node]
        toks = []
        used = []
        lo, hi = self.p["n_events"]
        n = r.randint(lo, hi)
        pe = [("opt", self.p["p_ev_opt"]), ("cmd", self.p["p_ev_cmd"]), ("plain", self.p["p_ev_plain"]), ("term", self.p["p_ev_term"]),
              ("unknown", self.p["p_ev_unknown"]), ("garbage", self.p["p_ev_garbage"])]
        for _ in range(n):
            ev = wchoice(r, pe)
            cur = chain[-1]
            if ev == "opt":
                pool = [o for c in chain for o in c["opts"]]
                if self.chance("p_wrong_scope"):
                    pool = [o for s in cur["subs"] for o in s["opts"]] or pool
                if sc["cfg"]["opts"]["help"] and r.random() < 0.03:
                    toks.append(r.choice([b"-h", b"--help"]))
                    continue
                if not pool:
                    continue
                flags_ = [o for o in pool if o["isbool"] and o["short"] and len(o["short"]) == 1]
                if len(flags_) >= 2 and r.random() < 0.15:
                    k = r.randint(2, min(4, len(flags_)))
                    cl = b"-" + b"".join(o["short"] for o in r.sample(flags_, k))
                    if r.random() < 0.3:
                        argo = [o for o in pool if not o["isbool"] and o["short"]]
                        if argo:
                            o = r.choice(argo)
                            cl += o["short"]
                            toks.append(cl)
                            if not o["optional"]:
                                toks.append(self.value_text(o["type"], o["base"]))
                            continue
                    toks.append(cl)
                    continue
                # repeated occurrences of an option used earlier (also across command words) are common
                if used and r.random() < self.p.get("p_repeat_opt", 0.3):
                    cand = [o for o in used if o in pool]
                    o = r.choice(cand) if cand else r.choice(pool)
                else:
                    o = r.choice(pool)
                used.append(o)
                self.spell(sc, o, toks)
            elif ev == "cmd":
                sib = [x for c in chain[:-1] for x in c["subs"] if x is not cur]
                if sib and r.random() < self.p.get("p_sibling_cmd", 0.15):
                    # the name of a sibling (or of an ancestor's sibling): not a command here, and its options stay unknown
                    x = r.choice(sib)
                    nm = r.choice([x["name"]] + x["aliases"])
                    down = [c2 for c2 in cur["subs"] if nm == c2["name"] or nm in c2["aliases"]]
                    toks.append(nm)
                    if down:
                        chain.append(down[-1])
                    elif x["opts"] and r.random() < 0.6:
                        self.spell(sc, r.choice(x["opts"]), toks)
                elif cur["subs"]:
                    s = r.choice(cur["subs"])
                    toks.append(r.choice([s["name"]] + s["aliases"]))
                    chain.append(s)
                else:
                    toks.append(r.choice([b"add", b"nosuch", b"rm"]))
            elif ev == "plain":
                if cur["pos"] and r.random() < 0.7:
                    p = r.choice(cur["pos"])
                    toks.append(self.value_text(p["type"], 10, valid=r.random() > 0.1))
                else:
                    toks.append(r.choice([b"file.txt", b"x", b"", b"-", b"a b", b"---x", b"7", "ü".encode(), b"plain", b"50%", b"%s"]))
            elif ev == "term":
                toks.append(b"--")
            elif ev == "unknown":
                pool = [o for c in chain for o in c["opts"] if o["long"]]
                x = r.random()
                if pool and x < 0.5:
                    o = r.choice(pool)
                    nm = self.qlong(sc, o)
                    y = r.random()
                    if y < 0.25: nm = nm.upper() if nm.upper() != nm else nm.lower()
                    elif y < 0.5: nm = nm[:-1] if len(nm) > 1 else nm + b"x"
                    elif y < 0.75: nm = nm + b"x"
                    else: nm = o["long"] if o.get("ns") else b"sub." + nm
                    toks.append(b"--" + nm + (b"=v" if r.random() < 0.3 else b""))
                elif x < 0.8:
                    toks.append(r.choice([b"-Z", b"-ZZ", b"--nosuch", b"--nosuch=1", b"-Z=3", b"-\xc3\xa9", b"-=x", b"--=x", b"-Zfoo",
                                          b"--100%sure", b"-%", b"--nosuch=5%d"]))
                else:
                    fl = [o for c in chain for o in c["opts"] if o["isbool"] and o["short"] and len(o["short"]) == 1]
                    if fl:
                        o = r.choice(fl)
                        toks.append(b"-" + r.choice([o["short"] + b"Z", b"Z" + o["short"], o["short"] + b"Z" + o["short"]]))
            else:
                toks.append(units.wild(r, 5))
        if self.chance("p_mutate_argv") and toks:
            op = r.randrange(4)
            i = r.randrange(len(toks))
            if op == 0: del toks[i]
            elif op == 1: toks.insert(i, toks[i])
            elif op == 2 and len(toks) > 1:
                j = r.randrange(len(toks)); toks[i], toks[j] = toks[j], toks[i]
            else:
                t = toks[i]
                if t:
                    k = r.randrange(len(t)); toks[i] = t[:k] + r.choice([b"=", b"-", b"\"", b"\xff", b""]) + t[k + 1:]
        return toks


def strip_meta(sc):
    return {k: v for k, v in sc.items() if k != "meta"}
