#!/usr/bin/env python3
"""(Re)generate the hand-written part of corpus/: one minimal scenario per repaired defect, so that a regression of a
fix: commit is caught deterministically by the first scenarios each check runs."""
import json, os, sys
sys.path.insert(0, os.path.dirname(os.path.dirname(os.path.abspath(__file__))))
from gen import scen
from gen.checks import common

def cfg(**kw):
    c = {"name": b"app", "opts": {"help": False, "passdd": False, "ignore": False, "print": False, "passafter": False},
         "nsdelim": b".", "envdelim": b"_", "handler": "none", "cmdhandler": False, "usage": b"", "env": [], "cols": 80, "subopt": False,
         "shortdesc": b"", "longdesc": b""}
    for k, v in kw.items():
        if k in c["opts"]: c["opts"][k] = v
        else: c[k] = v
    return c

def leaf(fid, name, tag, ty): return {"name": name, "exported": True, "tag": tag, "type": ty, "fid": fid}
def sc(data, ops, init=None, attach=None, **kw): return {"cfg": cfg(**kw), "data": data, "attach": attach or [], "init": init or {}, "ops": ops}
P = lambda *a: {"op": "parse", "args": list(a)}
S = ("k", "string")

CORPUS = {
 "C04": {
  "func-env-value": sc([leaf(1, b"Cb", b'long:"cb" env:"VF_C"', ("func", None, True))], [P()], init={1: ("fn", False, False)}, env=[(b"VF_C", b"1h")]),
  "bool-choices": sc([leaf(1, b"L", b'short:"l" choice:"true" choice:"false"', ("k", "bool"))], [P(b"-l")]),
  "base0-initial": sc([leaf(1, b"N", b'long:"n" base:"0"', ("k", "int"))], [P()], init={1: ("i", 7)}),
  "help-nonascii-choice": sc([leaf(1, b"M", 'long:"count-mode" description:"A description" choice:"é"'.encode(), S)], [P(b"-h")], help=True),
 },
 "C17": {
  "help-nonascii-name": sc([leaf(1, b"M", 'long:"größe" value-name:"名" description:"Beschreibung é"'.encode(), S)], [{"op": "help"}]),
  "wrap-multibyte-run": sc([leaf(1, b"M", ('long:"m" description:"' + "é" * 90 + '"').encode(), S)], [{"op": "help"}], cols=30, tty=True),
 },
 "C02": {
  "multibyte-short-equals": sc([leaf(1, b"V", 'short:"é" long:"value"'.encode(), S)], [P("-é=V".encode()), P("-éV".encode()), P("-é".encode(), b"V"), P(b"--value=V")]),
 },
 "C14": {
  "very-long-comment-and-value": sc([leaf(1, b"S", b'long:"s"', S), leaf(2, b"N", b'long:"n"', ("k", "int"))],
                                    [{"op": "ini", "text": b"; " + b"c" * 70000 + b"\r\ns = " + b"v" * 66000 + b"\r\nn = x\r\n", "asdefaults": False}]),
  "empty-map-value": sc([leaf(1, b"M", b'long:"m"', ("map", "string", "string"))], [{"op": "ini", "text": b"m = key:\n", "asdefaults": False}]),
  "empty-entry-name": sc([leaf(1, b"A", b'long:"a"', S), leaf(2, b"B", b'short:"b"', S)], [{"op": "ini", "text": b"= v\n", "asdefaults": False}]),
  "callback-with-value": sc([leaf(1, b"Cb", b'long:"cb"', ("func", None, False))], [{"op": "ini", "text": b"cb = x\n", "asdefaults": False}], init={1: ("fn", False, False)}),
 },
 "C13": {
  "asdefaults-repeated-key": sc([leaf(1, b"L", b'long:"l"', ("slice", S)), leaf(2, b"N", b'long:"n"', ("k", "int"))],
                                [{"op": "ini", "text": b"l = a\nl = b\nn = 1\nn = 2\n", "asdefaults": True}, P()]),
 },
 "C05": {
  "asdefaults-repeated-key": sc([leaf(1, b"L", b'long:"l" default:"d"', ("slice", S))],
                                [P(), {"op": "ini", "text": b"l = a\nl = b\n", "asdefaults": True}]),
 },
 "C15": {
  "two-sections-one-option": dict(sc([leaf(1, b"A", b'long:"a"', S)],
                                  [{"op": "ini", "text": b"a = global\n[Application Options]\na = named\n[nosuch]\nx = y\n", "asdefaults": False}]), repeat=12),
  "map-default-in-help": dict(sc([leaf(1, b"M", b'long:"m" description:"A map"', ("map", "string", "int"))], [P(), {"op": "help"}],
                                 init={1: ("m", [(("s", b"b"), ("i", 2)), (("s", b"a"), ("i", 1)), (("s", b"c"), ("i", 3))])}), repeat=12),
 },
 "C16": {
  "man-masked-default": sc([leaf(1, b"P", b'long:"password" default:"hunter2" default-mask:"****" description:"Password"', S),
                            leaf(2, b"Q", b'long:"quiet" default:"x" default-mask:"-" description:"Quiet"', S)], [{"op": "help"}, {"op": "man"}]),
 },
 "C12": {
  "edge-whitespace-string": sc([leaf(1, b"S", b'long:"s"', S), leaf(2, b"T", b'long:"t"', ("slice", ("ptr", "string")))],
                               [P(b"--s= lead", b"--t=trail ", b'--t="q'), {"op": "writeini", "iniopts": 0}]),
  "nil-pointers-include-defaults": sc([leaf(1, b"I", b'long:"i"', ("ptr", "int")), leaf(2, b"S", b'long:"s"', ("ptr", "string")),
                                       leaf(3, b"C", b'long:"c"', ("ptr", "custom"))], [P(), {"op": "writeini", "iniopts": 2}]),
  # witnesses of the two recorded (unrepaired) findings of KNOWN_FINDINGS.json
  "known-choice-canonical-text": sc([leaf(1, b"F", b'long:"f" choice:"1e308" choice:"2"', ("k", "float64")), leaf(2, b"N", b'long:"n" choice:"007" choice:"8"', ("k", "int"))],
                                    [P(b"--f=1e308", b"--n=007"), {"op": "writeini", "iniopts": 0}]),
  "known-nil-pointer-with-default": sc([leaf(1, b"Mode", b'long:"mode" default:"5" optional:"yes"', ("ptr", "uint8"))], [P(b"--mode=3", b"--mode"), {"op": "writeini", "iniopts": 0}]),
  "known-map-key-line-break": sc([leaf(1, b"M", b'long:"m"', ("map", "string", "string"))], [P(b"--m=a\nb:1"), {"op": "writeini", "iniopts": 0}]),
  # regression guards (not defects of the pinned tree): lines longer than bufio's 4096-byte buffer are reassembled from chunks
  "long-lines": sc([leaf(1, b"S", b'long:"s"', S), leaf(2, b"T", b'long:"t"', ("slice", ("k", "string"))), leaf(3, b"N", b'long:"n"', ("k", "int"))],
                   [P(b"--s=" + b"0123456789abcdef" * 320, b"--t=short", b"--t=" + b"x y " * 2300 + b" ", b"--n=7"), {"op": "writeini", "iniopts": 0}]),
 },
}

root = os.path.join(os.path.dirname(os.path.dirname(os.path.abspath(__file__))), "corpus")
for pid, items in CORPUS.items():
    os.makedirs(os.path.join(root, pid), exist_ok=True)
    for name, s in items.items():
        origin = ("hand-written regression guard (no defect of the pinned tree)" if name in ("long-lines", "very-long-comment-and-value")
                  else "hand-written witness of a recorded, unrepaired finding (KNOWN_FINDINGS.json, findings)" if name.startswith("known-")
                  else "hand-written witness of a repaired defect (see KNOWN_FINDINGS.json)")
        json.dump({"scenario": common.scenario_json(s), "origin": origin},
                  open(os.path.join(root, pid, name + ".json"), "w"), indent=1)
print("corpus written")
