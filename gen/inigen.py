"""INI text generation from a declaration's meta tree (see declgen)."""
from . import units, strgen


def sections_of(sc, node=None, path=(), out=None):
    """list of (section text, [option infos]) for every group/command of the tree"""
    if node is None:
        node = sc["meta"]
    if out is None:
        out = []
    by = {}
    for o in node["opts"]:
        by.setdefault(o.get("gdesc"), []).append(o)
    prefix = b".".join(path)
    for gdesc, opts in by.items():
        if gdesc is None:
            name = prefix          # the command's own group: section = command path ("" for the parser = global)
        else:
            name = (prefix + b"." if prefix else b"") + gdesc
        out.append((name, opts))
    for s in node["subs"]:
        if s["name"]:
            sections_of(sc, s, path + (s["name"],), out)
    return out


def entry_name(rng, sc, o):
    cands = []
    if o.get("ininame"): cands += [o["ininame"], o["ininame"].upper(), o["ininame"].lower()]
    if o["field"]: cands += [o["field"], o["field"]]
    if o["long"]:
        d = sc["cfg"]["nsdelim"]
        cands.append(d.join([n for n in o.get("ns", ()) if n] + [o["long"]]))
    if o["short"]: cands.append(o["short"])
    return rng.choice(cands)


def gen_ini(g, sc, rng, p_noise=0.3, p_fault=0.1, p_unknown=0.06, p_quote=0.2, crlf=None):
    """g: declgen.Gen (for value texts). Returns bytes."""
    secs = sections_of(sc)
    lines = []
    if crlf is None:
        crlf = rng.random() < 0.15

    def noise():
        while rng.random() < p_noise:
            lines.append(rng.choice([b"", b"   ", b"; a comment", b"# another", b"\t;x=y", b" \xc2\xa0 ", b";" + b"z" * rng.choice([3, 5000])]))

    rng.shuffle(secs)
    for name, opts in secs[:rng.randint(0, max(1, len(secs)))]:
        noise()
        if name != b"" or rng.random() < 0.3:
            if name == b"":
                pass
            else:
                x = rng.random()
                nm = name
                if x < 0.15: nm = name.upper()
                elif x < 0.25: nm = name.lower()
                pad = rng.choice([b"", b" ", b"\t"])
                lines.append(b"[" + pad + nm + pad + b"]")
        elif lines and any(l.startswith(b"[") for l in lines):
            continue        # global entries can only come first
        for _ in range(rng.randint(0, 4)):
            if not opts: break
            o = rng.choice(opts)
            noise()
            if o["isbool"]:
                v = rng.choice([b"", b"true", b"false", b"1"]) if o["type"][0] != "func" else b""
            else:
                valid = rng.random() > 0.08
                v = rng.choice(o["choices"]) if (o["choices"] and valid) else g.value_text(o["type"], o["base"], valid)
                if o["type"] in (("k", "string"), ("slice", ("k", "string"))) and rng.random() < 0.015:
                    # an entry line longer than bufio's 4096-byte buffer
                    v = v[:8] + b"0123456789abcdef" * rng.choice([256, 300, 600]) + v[:3]
                if rng.random() < p_quote:
                    if o["type"][0] == "map" and b":" in v:
                        k, _, vv = v.partition(b":")
                        v = k + b":" + units.go_quote(vv)
                    else:
                        v = units.go_quote(v)
            pad = lambda: rng.choice([b"", b" ", b"  ", b"\t"])
            lines.append(pad() + entry_name(rng, sc, o) + pad() + b"=" + pad() + v + pad())
        if rng.random() < p_unknown:
            lines.append(rng.choice([b"nosuch = 1", b"= v", b"NoSuchOption=", b"x y = 3"]))
    if rng.random() < p_unknown:
        lines.append(b"[No Such Section]")
        if rng.random() < 0.5: lines.append(b"a = b")
    if rng.random() < p_fault and lines:
        i = rng.randrange(len(lines) + 1)
        lines.insert(i, rng.choice([b"[unterminated", b"[]", b"[  ]", b"no equals sign", b'k = "bad quote', b'k = "a" trailing', b"]", b'k = "\\q"']))
    noise()
    eol = b"\r\n" if crlf else b"\n"
    text = eol.join(lines)
    if lines and rng.random() < 0.8:
        text += eol
    return text
