"""Scenario data model (Python side): construction helpers, wire (JSON for the Go harness)
and Coq-term serialisation, Go-result normalisation and comparison.

All byte strings are Python `bytes`.  A scenario is a dict:
  cfg: {name, opts:{help,passdd,ignore,print,passafter}, nsdelim, envdelim, handler, cmdhandler, usage, env:[(k,v)], cols, subopt, shortdesc, longdesc}
  data: [FIELD] | None
  attach: [ATTACH]
  init: {fid: VALUE}
  ops: [OP]
FIELD  = {name, exported, tag, type: TYPE, fid}  |  {name, exported, tag, struct: {ptr, nil, fields, sid}}
TYPE   = ("k", kind) | ("ptr", kind) | ("slice", TYPE) | ("map", kind, kind) | ("func", kind|None, returns_error)
VALUE  = ("b", bool) | ("i", int) | ("s", bytes) | ("f", bytes canon) | ("p", VALUE|None) | ("l", None|[VALUE]) | ("m", None|[(VALUE,VALUE)]) | ("fn", nil, fails)
"""
import json
from . import lib

KINDS = ["bool", "int", "int8", "int16", "int32", "int64", "uint", "uint8", "uint16", "uint32", "uint64",
         "float32", "float64", "string", "duration", "custom", "comp"]
IKINDS = {"int": "I0", "int8": "I8", "int16": "I16", "int32": "I32", "int64": "I64",
          "uint": "U0", "uint8": "U8", "uint16": "U16", "uint32": "U32", "uint64": "U64"}
INT_BITS = {"int": 64, "int8": 8, "int16": 16, "int32": 32, "int64": 64, "uint": 64, "uint8": 8, "uint16": 16, "uint32": 32, "uint64": 64}


def zero_value(t):
    if t[0] == "k":
        k = t[1]
        if k == "bool": return ("b", False)
        if k in IKINDS or k == "duration": return ("i", 0)
        if k in ("float32", "float64"): return ("f", b"0")
        return ("s", b"")
    if t[0] == "ptr": return ("p", None)
    if t[0] == "slice": return ("l", None)
    if t[0] == "map": return ("m", None)
    if t[0] == "func": return ("fn", True, False)
    raise ValueError(t)


# ---------------------------------------------------------------- wire (Go harness JSON)
def type_wire(t):
    if t[0] == "k": return {"k": t[1]}
    if t[0] == "ptr": return {"ptr": t[1]}
    if t[0] == "slice": return {"slice": type_wire(t[1])}
    if t[0] == "map": return {"map": [t[1], t[2]]}
    if t[0] == "func": return {"func": {"arg": t[1] or "", "err": bool(t[2])}}
    raise ValueError(t)


def value_wire(v):
    k = v[0]
    if k == "b": return {"b": bool(v[1])}
    if k == "i": return {"i": str(v[1])}
    if k == "s": return {"s": lib.l1(v[1])}
    if k == "f": return {"f": lib.l1(v[1])}
    if k == "p": return {"p": {"v": None if v[1] is None else value_wire(v[1])}}
    if k == "l": return {"l": {"nil": v[1] is None, "v": [value_wire(x) for x in (v[1] or [])]}}
    if k == "m": return {"m": {"nil": v[1] is None, "v": [[value_wire(a), value_wire(b)] for a, b in (v[1] or [])]}}
    if k == "fn": return {"fn": {"nil": bool(v[1]), "fails": bool(v[2])}}
    raise ValueError(v)


def field_wire(f):
    d = {"name": lib.l1(f["name"]), "exported": f["exported"], "tag": lib.l1(f["tag"])}
    if "struct" in f:
        s = f["struct"]
        d["struct"] = {"ptr": s["ptr"], "nil": s["nil"], "sid": s["sid"], "fields": [field_wire(x) for x in s["fields"]]}
    else:
        d["type"] = type_wire(f["type"])
        d["fid"] = f["fid"]
    return d


def attach_wire(a):
    d = {"kind": a["kind"], "path": a["path"], "short": lib.l1(a.get("short", b"")), "long": lib.l1(a.get("long", b"")),
         "fields": [field_wire(x) for x in a["fields"]]}
    if a["kind"] == "group":
        d.update({"ns": lib.l1(a.get("ns", b"")), "envns": lib.l1(a.get("envns", b"")), "hidden": a.get("hidden", False)})
    elif a["kind"] == "option":
        pass
    else:
        ex = a.get("exec")
        d.update({"name": lib.l1(a["name"]), "exec": None if ex is None else {"err": None if ex is True else lib.l1(ex)},
                  "usage": None if a.get("usage") is None else lib.l1(a["usage"]),
                  "aliases": [lib.l1(x) for x in a.get("aliases", [])], "hidden": a.get("hidden", False), "subopt": a.get("subopt", False)})
    return d


def op_wire(o):
    if o["op"] == "parse":
        return {"op": "parse", "args": [lib.l1(x) for x in o["args"]]}
    if o["op"] == "ini":
        return {"op": "ini", "ini": {"text": lib.l1(o["text"]), "asdefaults": o.get("asdefaults", False)}}
    if o["op"] == "writeini":
        return {"op": "writeini", "iniopts": o["iniopts"]}
    if o["op"] in ("help", "man", "inspect", "observe"):
        return {"op": o["op"]}
    if o["op"] == "complete":
        return {"op": "complete", "args": [lib.l1(x) for x in o["args"]]}
    if o["op"] == "attach":
        return {"op": "attach", "attach": attach_wire(o["attach"])}
    if o["op"] == "hide":
        return {"op": "hide", "path": o["path"], "hidden": o["hidden"]}
    raise ValueError(o)


def cfg_wire(c):
    return {"name": lib.l1(c["name"]), "opts": c["opts"], "nsdelim": lib.l1(c["nsdelim"]), "envdelim": lib.l1(c["envdelim"]),
            "handler": c["handler"], "cmdhandler": c["cmdhandler"], "usage": lib.l1(c.get("usage", b"")),
            "env": [[lib.l1(k), lib.l1(v)] for k, v in c.get("env", [])], "cols": c.get("cols", 80), "tty": c.get("tty", False), "subopt": c.get("subopt", False),
            "shortdesc": lib.l1(c.get("shortdesc", b"")), "longdesc": lib.l1(c.get("longdesc", b""))}


def scenario_wire(sc):
    for fl in all_field_lists(sc):
        leaves_in_order(fl)      # normalises nil marks of nested pointer structs
    return {"cfg": cfg_wire(sc["cfg"]), "hasdata": sc["data"] is not None,
            "data": [field_wire(f) for f in (sc["data"] or [])],
            "attach": [attach_wire(a) for a in sc["attach"]],
            "init": {str(k): value_wire(v) for k, v in sc["init"].items()},
            "ops": [op_wire(o) for o in sc["ops"]], "repeat": sc.get("repeat", 1)}


# ---------------------------------------------------------------- Coq terms
def cb(b): return "true" if b else "false"
def cs(b): return lib.coq_str(b)
def cl(items): return "[" + "; ".join(items) + "]"
def cnat(n): return "%d%%nat" % n


def kind_coq(k):
    if k in IKINDS: return "(KInt %s)" % IKINDS[k]
    return {"bool": "KBool", "float32": "(KFloat 32)", "float64": "(KFloat 64)", "string": "KString", "duration": "KDuration",
            "custom": "KCustom", "comp": "KComp"}[k]


def type_coq(t):
    if t[0] == "k": return "(TScalar %s)" % kind_coq(t[1])
    if t[0] == "ptr": return "(TPtr %s)" % kind_coq(t[1])
    if t[0] == "slice": return "(TSlice %s)" % type_coq(t[1])
    if t[0] == "map": return "(TMap %s %s)" % (kind_coq(t[1]), kind_coq(t[2]))
    if t[0] == "func": return "(TFunc %s %s)" % ("None" if t[1] is None else "(Some %s)" % kind_coq(t[1]), cb(t[2]))
    raise ValueError(t)


def value_coq(v):
    k = v[0]
    if k == "b": return "(VBool %s)" % cb(v[1])
    if k == "i": return "(VInt (%d)%%Z)" % v[1]
    if k == "s": return "(VStr (%s))" % cs(v[1])
    if k == "f": return "(VFloat (%s))" % cs(v[1])
    if k == "p": return "(VPtr %s)" % ("None" if v[1] is None else "(Some %s)" % value_coq(v[1]))
    if k == "l": return "(VSlice %s %s)" % (cb(v[1] is None), cl([value_coq(x) for x in (v[1] or [])]))
    if k == "m": return "(VMap %s %s)" % (cb(v[1] is None), cl(["(%s, %s)" % (value_coq(a), value_coq(b)) for a, b in (v[1] or [])]))
    if k == "fn": return "(VFunc %s %s)" % (cb(v[1]), cb(v[2]))
    raise ValueError(v)


def field_coq(f):
    if "struct" in f:
        s = f["struct"]
        return "(FStruct (%s) %s (%s) %s %s %s %s)" % (cs(f["name"]), cb(f["exported"]), cs(f["tag"]), cb(s["ptr"]), cb(s["nil"]),
                                                      cl([field_coq(x) for x in s["fields"]]), cnat(s["sid"]))
    return "(FLeaf (%s) %s (%s) %s %s)" % (cs(f["name"]), cb(f["exported"]), cs(f["tag"]), type_coq(f["type"]), cnat(f["fid"]))


def path_coq(p): return cl([cnat(i) for i in p])


def attach_coq(a):
    if a["kind"] == "group":
        return "(AtGroup %s (%s) (%s) %s (%s) (%s) %s)" % (path_coq(a["path"]), cs(a.get("short", b"")), cs(a.get("long", b"")),
                                                         cl([field_coq(x) for x in a["fields"]]), cs(a.get("ns", b"")), cs(a.get("envns", b"")),
                                                         cb(a.get("hidden", False)))
    if a["kind"] == "option":
        return "(AtOption %s %s)" % (path_coq(a["path"]), cl([field_coq(x) for x in a["fields"]]))
    ex = a.get("exec")
    exs = "ExNone" if ex is None else ("ExOk" if ex is True else "(ExErr (%s))" % cs(ex))
    us = "None" if a.get("usage") is None else "(Some (%s))" % cs(a["usage"])
    return "(AtCommand %s (%s) (%s) (%s) %s %s %s %s %s %s)" % (
        path_coq(a["path"]), cs(a["name"]), cs(a.get("short", b"")), cs(a.get("long", b"")), cl([field_coq(x) for x in a["fields"]]),
        exs, us, cl([cs(x) for x in a.get("aliases", [])]), cb(a.get("hidden", False)), cb(a.get("subopt", False)))


def op_coq(o):
    if o["op"] == "parse":
        return "(OpParse %s)" % cl([cs(x) for x in o["args"]])
    if o["op"] == "ini":
        return "(OpIni (%s) %s)" % (cs(o["text"]), cb(o.get("asdefaults", False)))
    if o["op"] == "writeini":
        return "(OpWriteIni %d%%N)" % o["iniopts"]
    if o["op"] == "help": return "OpHelp"
    if o["op"] == "man": return "OpMan"
    if o["op"] == "complete": return "(OpComplete %s)" % cl([cs(x) for x in o["args"]])
    if o["op"] == "attach": return "(OpAttach %s)" % attach_coq(o["attach"])
    if o["op"] == "observe": return "OpObserve"
    if o["op"] == "hide": return "(OpSetHidden %s %s)" % (path_coq(o["path"]), cb(o["hidden"]))
    raise ValueError(o)


def leaves_in_order(fields, under=(), out=None, unders=None):
    """(fid, type, exported) in declaration order; unders: (fid, sid) for every nil pointer struct above a leaf.
    A pointer struct below a nil pointer struct is itself nil in the implementation (nothing allocated it)."""
    if out is None: out = []
    if unders is None: unders = []
    for f in fields:
        if "struct" in f:
            s = f["struct"]
            u = under
            if s["ptr"] and (s["nil"] or under):
                s["nil"] = True
                u = under + (s["sid"],)
            leaves_in_order(s["fields"], u, out, unders)
        else:
            out.append((f["fid"], f["type"], f["exported"]))
            for sid in under:
                unders.append((f["fid"], sid))
    return out, unders


def all_field_lists(sc):
    ls = []
    if sc["data"] is not None: ls.append(sc["data"])
    for a in sc["attach"]: ls.append(a["fields"])
    for o in sc["ops"]:
        if o["op"] == "attach": ls.append(o["attach"]["fields"])
    return ls


def scenario_coq(sc, oracle):
    c = sc["cfg"]
    o = c["opts"]
    hk = {"none": "HNone", "identity": "HIdentity", "dropnext": "HDropNext", "error": "HError"}[c["handler"]]
    cfg = ("{| pc_name := %s; pc_opts := {| po_help := %s; po_passdd := %s; po_ignore := %s; po_print := %s; po_passafter := %s |}; "
           "pc_nsdelim := %s; pc_envdelim := %s; pc_handler := %s; pc_cmdhandler := %s; pc_usage := %s; pc_env := %s; pc_cols := %d |}") % (
        cs(c["name"]), cb(o["help"]), cb(o["passdd"]), cb(o["ignore"]), cb(o["print"]), cb(o["passafter"]),
        cs(c["nsdelim"]), cs(c["envdelim"]), hk, cb(c["cmdhandler"]), cs(c.get("usage", b"")),
        cl(["(%s, %s)" % (cs(k), cs(v)) for k, v in c.get("env", [])]), c.get("cols", 80))
    inits, unders = [], []
    ii, unders = inits_and_unders(sc)
    inits = ["(%s, %s)" % (cnat(fid), value_coq(v)) for fid, v in ii]
    orc = "{| or_float := %s; or_dur := %s; or_durfmt := %s |}" % (
        cl(["(%d, %s, %s)" % (b, cs(t), ("inl (%s)" if ok else "inr (%s)") % cs(r)) for (b, t), (ok, r) in sorted(oracle.get("float", {}).items())]),
        cl(["(%s, %s)" % (cs(t), ("inl (%d)%%Z" % r) if ok else "inr (%s)" % cs(r)) for t, (ok, r) in sorted(oracle.get("dur", {}).items())]),
        cl(["((%d)%%Z, %s)" % (z, cs(t)) for z, t in sorted(oracle.get("durfmt", {}).items())]))
    return ("{| sc_cfg := %s; sc_subopt := %s; sc_data := %s; sc_attach := %s; sc_init := %s; sc_under := %s; sc_orc := %s; sc_ops := %s |}") % (
        cfg, cb(c.get("subopt", False)),
        "None" if sc["data"] is None else "(Some %s)" % cl([field_coq(f) for f in sc["data"]]),
        cl([attach_coq(a) for a in sc["attach"]]), cl(inits),
        cl(["(%s, %s)" % (cnat(f), cnat(s)) for f, s in unders]), orc, cl([op_coq(x) for x in sc["ops"]]))


# ---------------------------------------------------------------- results
OP_KEYS = ["op", "panic", "err", "ret", "vals", "active", "calls", "exec", "unknown", "out", "attached", "set", "items", "bytes", "model"]


def parse_model_output(b):
    """model text -> {'setup': str, 'ops': [dict]}"""
    txt = b.decode("latin-1")
    res = {"setup": None, "ops": []}
    cur = None
    for ln in txt.split("\n"):
        if not ln: continue
        k, _, v = ln.partition("=")
        if k == "setup":
            res["setup"] = v
        elif k == "op":
            cur = {"op": v}
            res["ops"].append(cur)
        elif cur is not None:
            cur[k] = v
    return res


def normalise_go(r):
    out = {"setup": r.get("setup"), "ops": [], "fatal": r.get("fatal"), "nondet": r.get("nondet"), "other": r.get("other")}
    for o in r.get("ops") or []:
        d = {k: o.get(k, "") for k in OP_KEYS if k in o or k in ("panic", "err", "ret", "vals", "active", "calls", "exec", "unknown", "out", "attached", "set")}
        out["ops"].append(d)
    return out


def unhex(h):
    try:
        return bytes.fromhex(h)
    except ValueError:
        return h.encode()


def decode_err(e):
    """'F:4:hex' -> ('F', 4, bytes)"""
    if e in ("nil", "", None): return None
    parts = e.split(":")
    if parts[0] == "F": return ("F", int(parts[1]), unhex(parts[2]))
    if parts[0] == "I": return ("I", int(parts[1]), unhex(parts[2]))
    if parts[0] == "X": return ("X", 0, unhex(parts[1]))
    return ("?", 0, e.encode())


def decode_list(s):
    if s == "nil" or s == "": return None
    inner = s[1:-1]
    if inner == "": return []
    return [unhex(x) for x in inner.split(",")]


# ---------------------------------------------------------------- packed serialisation (Model/Decode.v)
def s_nat(n): return b"%d;" % n
def s_Z(z): return b"%d;" % z
def s_bool(b): return b"1" if b else b"0"
def s_str(b): return b"%d;" % len(b) + b
def s_list(items): return b"%d;" % len(items) + b"".join(items)
def s_opt(x): return b"0" if x is None else b"1" + x

IK_CODE = {"int": b"a", "int8": b"b", "int16": b"c", "int32": b"d", "int64": b"e", "uint": b"f", "uint8": b"g", "uint16": b"h", "uint32": b"i", "uint64": b"j"}


def s_kind(k):
    if k in IK_CODE: return b"i" + IK_CODE[k]
    return {"bool": b"b", "float32": b"f32;", "float64": b"f64;", "string": b"s", "duration": b"d", "custom": b"c", "comp": b"C"}[k]


def s_type(t):
    if t[0] == "k": return b"k" + s_kind(t[1])
    if t[0] == "ptr": return b"p" + s_kind(t[1])
    if t[0] == "slice": return b"l" + s_type(t[1])
    if t[0] == "map": return b"m" + s_kind(t[1]) + s_kind(t[2])
    if t[0] == "func": return b"F" + s_opt(None if t[1] is None else s_kind(t[1])) + s_bool(t[2])
    raise ValueError(t)


def s_value(v):
    k = v[0]
    if k == "b": return b"b" + s_bool(v[1])
    if k == "i": return b"i" + s_Z(v[1])
    if k == "s": return b"s" + s_str(v[1])
    if k == "f": return b"f" + s_str(v[1])
    if k == "p": return b"p" + s_opt(None if v[1] is None else s_value(v[1]))
    if k == "l": return b"l" + s_bool(v[1] is None) + s_list([s_value(x) for x in (v[1] or [])])
    if k == "m": return b"m" + s_bool(v[1] is None) + s_list([s_value(a) + s_value(b) for a, b in (v[1] or [])])
    if k == "fn": return b"F" + s_bool(v[1]) + s_bool(v[2])
    raise ValueError(v)


def s_field(f):
    if "struct" in f:
        s = f["struct"]
        return (b"S" + s_str(f["name"]) + s_bool(f["exported"]) + s_str(f["tag"]) + s_bool(s["ptr"]) + s_bool(s["nil"])
                + s_list([s_field(x) for x in s["fields"]]) + s_nat(s["sid"]))
    return b"L" + s_str(f["name"]) + s_bool(f["exported"]) + s_str(f["tag"]) + s_type(f["type"]) + s_nat(f["fid"])


def s_fields(fs): return s_list([s_field(f) for f in fs])
def s_path(p): return s_list([s_nat(i) for i in p])


def s_attach(a):
    if a["kind"] == "group":
        return (b"G" + s_path(a["path"]) + s_str(a.get("short", b"")) + s_str(a.get("long", b"")) + s_fields(a["fields"])
                + s_str(a.get("ns", b"")) + s_str(a.get("envns", b"")) + s_bool(a.get("hidden", False)))
    if a["kind"] == "option":
        return b"O" + s_path(a["path"]) + s_fields(a["fields"])
    ex = a.get("exec")
    exs = b"n" if ex is None else (b"o" if ex is True else b"e" + s_str(ex))
    return (b"C" + s_path(a["path"]) + s_str(a["name"]) + s_str(a.get("short", b"")) + s_str(a.get("long", b"")) + s_fields(a["fields"])
            + exs + s_opt(None if a.get("usage") is None else s_str(a["usage"])) + s_list([s_str(x) for x in a.get("aliases", [])])
            + s_bool(a.get("hidden", False)) + s_bool(a.get("subopt", False)))


def s_op(o):
    if o["op"] == "parse":
        return b"P" + s_list([s_str(x) for x in o["args"]])
    if o["op"] == "ini":
        return b"I" + s_str(o["text"]) + s_bool(o.get("asdefaults", False))
    if o["op"] == "writeini":
        return b"W" + s_nat(o["iniopts"])
    if o["op"] == "help": return b"H"
    if o["op"] == "man": return b"M"
    if o["op"] == "inspect": return b"N"
    if o["op"] == "complete": return b"C" + s_list([s_str(x) for x in o["args"]])
    if o["op"] == "attach": return b"A" + s_attach(o["attach"])
    if o["op"] == "observe": return b"B"
    if o["op"] == "hide": return b"D" + s_path(o["path"]) + s_bool(o["hidden"])
    raise ValueError(o)


def s_cfg(c):
    o = c["opts"]
    hk = {"none": b"n", "identity": b"i", "dropnext": b"d", "error": b"e"}[c["handler"]]
    return (s_str(c["name"]) + s_bool(o["help"]) + s_bool(o["passdd"]) + s_bool(o["ignore"]) + s_bool(o["print"]) + s_bool(o["passafter"])
            + s_str(c["nsdelim"]) + s_str(c["envdelim"]) + hk + s_bool(c["cmdhandler"]) + s_str(c.get("usage", b""))
            + s_list([s_str(k) + s_str(v) for k, v in c.get("env", [])]) + s_nat(c.get("cols", 80))
            + s_str(c.get("shortdesc", b"")) + s_str(c.get("longdesc", b"")))


def s_oracle(oracle):
    fl = [s_nat(b) + s_str(t) + ((b"1" + s_str(r)) if ok else (b"0" + s_str(r))) for (b, t), (ok, r) in sorted(oracle.get("float", {}).items())]
    du = [s_str(t) + ((b"1" + s_Z(r)) if ok else (b"0" + s_str(r))) for t, (ok, r) in sorted(oracle.get("dur", {}).items())]
    df = [s_Z(z) + s_str(t) for z, t in sorted(oracle.get("durfmt", {}).items())]
    return s_list(fl) + s_list(du) + s_list(df)


def inits_and_unders(sc):
    inits, unders = [], []
    for fl in all_field_lists(sc):
        lv, un = leaves_in_order(fl)
        under_fids = {f for f, _ in un}
        for fid, t, exported in lv:
            v = sc["init"].get(fid) if (exported and fid not in under_fids) else None
            inits.append((fid, v if v is not None else zero_value(t)))
        unders += un
    return inits, unders


def scenario_bytes(sc, oracle):
    c = sc["cfg"]
    inits, unders = inits_and_unders(sc)
    return (s_cfg(c) + s_bool(c.get("subopt", False)) + s_opt(None if sc["data"] is None else s_fields(sc["data"]))
            + s_list([s_attach(a) for a in sc["attach"]]) + s_list([s_nat(f) + s_value(v) for f, v in inits])
            + s_list([s_nat(f) + s_nat(s) for f, s in unders]) + s_oracle(oracle) + s_list([s_op(o) for o in sc["ops"]]))


def pack_coq(b):
    """(len, [7-byte big-endian words]) as a Coq term of type nat * list int"""
    words = [str(int.from_bytes(b[i:i + 7], "big")) for i in range(0, len(b), 7)]
    return "(N.to_nat %d%%N, [%s]%%uint63)" % (len(b), "; ".join(words))
