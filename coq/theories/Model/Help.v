(* help.go (WriteHelp, wrapText, alignment) and man.go (WriteManPage).
   Definitions only.  Byte-exact against the Go output. *)
From GoFlags Require Import Base.Str Base.Utf8 Golib.Strings Golib.Strconv
     Model.Types Model.Tag Model.Scan Model.Lookup Model.Convert Model.State.
Open Scope N_scope.

(* ------------------------------------------------------------------ wrapText *)
(* one line of the input: greedy wrap at the last space within the first l characters,
   hard break with a hyphen when there is none.  Fuel = length. *)
(* byte offset of the n-th character (length of s if there are fewer) *)
Definition rune_offset (s : str) (n : nat) : nat :=
  match nth_error (range_str s) n with
  | Some (off, _, _) => off
  | None => length s
  end.

Fixpoint wrap_line_fuel (fuel : nat) (line : str) (l : nat) (prefix : str) (retline : str) : str :=
  match fuel with
  | O => retline
  | S f =>
    if Nat.ltb l (rune_count line) then
      let '(pos, suffix) :=
          match last_index_byte (firstn (rune_offset line l) line) 32 with
          | Some p => (p, [])
          | None => (rune_offset line (l - 1), [45; 10])
          end in
      let retline := (if nonempty retline then retline ++ [10] ++ prefix else retline)
                     ++ trim_space (firstn pos line) ++ suffix in
      wrap_line_fuel f (trim_space (skipn pos line)) l prefix retline
    else
      match line with
      | [] => retline
      | _ => (if nonempty retline then retline ++ [10] ++ prefix else retline) ++ line
      end
  end.

Definition wrap_line (line : str) (l : nat) (prefix : str) : str :=
  let line := trim_space line in
  wrap_line_fuel (S (length line)) line l prefix [].

Fixpoint wrap_lines (lines : list str) (l : nat) (prefix : str) (ret : str) : str :=
  match lines with
  | [] => ret
  | line :: rest =>
    let retline := wrap_line line l prefix in
    let ret := if nonempty ret then ret ++ [10] ++ (if nonempty retline then prefix else []) else ret in
    wrap_lines rest l prefix (ret ++ retline)
  end.

Definition wrap_text (s : str) (l : Z) (prefix : str) : str :=
  let l := if (l <? 10)%Z then 10%nat else Z.to_nat l in
  wrap_lines (split s [10]) l prefix [].

(* ------------------------------------------------------------------ visibility *)
Definition opt_show_in_help (o : opt) : bool :=
  negb (o_hidden o) && (negb (N.eqb (o_short o) 0) || nonempty (o_long o)).

Definition group_show_in_help (g : group) : bool :=
  negb (g_hidden (grp_info g)) && existsb opt_show_in_help (grp_opts g).

Definition visible_cmds (c : command) : list command :=
  filter (fun sc => negb (c_hidden (cmd_info sc))) (cmd_subs c).
Definition sorted_visible_cmds (c : command) : list command :=
  sort_by (fun sc => c_name (cmd_info sc)) (visible_cmds c).

(* Command.hasHelpOptions: any displayable option outside the built-in help group
   (the group's own Hidden mark is not consulted) *)
Definition has_help_options (c : command) : bool :=
  existsb (fun g => negb (g_builtin_help (grp_info g)) && existsb opt_show_in_help (grp_opts g)) (cmd_groups c).

(* groups of a command in eachGroup order with their namespace context *)
Fixpoint group_ctxs (fuel : nat) (ns envns : list str) (g : group) : list (group * list str * list str) :=
  match fuel with
  | O => []
  | S f =>
    let ns' := ns ++ [g_ns (grp_info g)] in
    let envns' := envns ++ [g_envns (grp_info g)] in
    (g, ns', envns') :: flat_map (group_ctxs f ns' envns') (grp_subs g)
  end.
Definition cmd_group_ctxs (c : command) : list (group * list str * list str) :=
  let g := cmd_group c in group_ctxs (group_depth g) [] [] g.

(* provenance of the rows WriteHelp emits, logged at the place the row text is appended *)
Inductive hrow := HOpt (fid : nat) | HArg (fid : nat) | HCmd (name : str).

Section Help.
  Variable cfg : pconfig.
  Variable root : command.

  Let delim := pc_nsdelim cfg.
  Let edelim := pc_envdelim cfg.

  Definition oc_of (o : opt) (ns envns : list str) (g : group) : octx :=
    {| oc_opt := o; oc_ns := ns; oc_envns := envns; oc_ghidden := g_hidden (grp_info g);
       oc_gshort := g_short (grp_info g); oc_builtin := g_builtin_help (grp_info g) |}.

  Definition choices_text (o : opt) : str :=
    match o_choices o with
    | [] => []
    | cs => s2l "[" ++ join cs [124] ++ s2l "]"
    end.

  (* ---- alignment *)
  Record align := { al_maxlong : nat; al_hasshort : bool; al_hasvalname : bool; al_indent : bool }.

  Definition upd_len (a : align) (name : str) (indent : bool) : align :=
    let l := (rune_count name + (if indent then 4 else 0))%nat in
    {| al_maxlong := Nat.max l (al_maxlong a); al_hasshort := al_hasshort a; al_hasvalname := al_hasvalname a;
       al_indent := al_indent a |}.

  Definition align_cmd (a : align) (c : command) (is_root : bool) : align :=
    let a := fold_left (fun a (ar : arg) => upd_len a (a_name ar) (negb is_root)) (cmd_args c) a in
    fold_left (fun a (gc : group * list str * list str) =>
                 let '(g, ns, envns) := gc in
                 if negb (group_show_in_help g) then a else
                 fold_left (fun a o =>
                              if negb (opt_show_in_help o) then a else
                              let a := {| al_maxlong := al_maxlong a;
                                          al_hasshort := al_hasshort a || negb (N.eqb (o_short o) 0);
                                          al_hasvalname := al_hasvalname a || nonempty (o_valname o);
                                          al_indent := al_indent a |} in
                              upd_len a (long_with_ns delim ns (o_long o) ++ o_valname o ++ choices_text o) (negb is_root))
                           (grp_opts g) a)
              (cmd_group_ctxs c) a.

  Definition description_start (a : align) : nat :=
    (al_maxlong a + 2 + (if al_hasshort a then 2 else 0) + (if Nat.ltb 0 (al_maxlong a) then 4 else 0)
     + (if al_hasvalname a then 3 else 0))%nat.

  Definition cols : Z := let c := Z.of_N (pc_cols cfg) in if (c <=? 0)%Z then 80%Z else c.

  (* strings.Repeat(" ", n) for a possibly negative n: None = panic *)
  Definition repeat_space (n : Z) : option str := if (n <? 0)%Z then None else Some (spaces (Z.to_nat n)).

  (* ---- one option row *)
  Definition help_option (r : rt) (o : opt) (ns envns : list str) (g : group) (a : align) : res str :=
    let prefix := (2 + (if al_indent a then 4 else 0))%nat in
    let line0 := spaces prefix ++
                 (if negb (N.eqb (o_short o) 0) then 45 :: encode_rune (o_short o)
                  else if al_hasshort a then s2l "  " else []) in
    let descstart := (description_start a + 2)%nat in
    let line1 := if nonempty (o_long o) then
                   line0 ++ (if negb (N.eqb (o_short o) 0) then s2l ", " else if al_hasshort a then s2l "  " else [])
                         ++ s2l "--" ++ long_with_ns delim ns (o_long o)
                 else line0 in
    let line2 := if can_argument o then line1 ++ [61] ++ o_valname o ++ choices_text o else line1 in
    let written := rune_count line2 in
    match o_desc o with
    | [] => Ok (line2 ++ [10])
    | d =>
      match repeat_space (Z.of_nat descstart - Z.of_nat written) with
      | None => Panic (s2l "strings: negative Repeat count")
      | Some pad =>
        let def := match o_mask o with
                   | [] => f_deflit (rt_fl r (o_fid o))
                   | m => if str_eqb m (s2l "-") then [] else m
                   end in
        let ek := env_key edelim (oc_of o ns envns g) in
        let envdef := if nonempty ek then s2l " [$" ++ ek ++ s2l "]" else [] in
        let desc := if nonempty def then d ++ s2l " (default: " ++ def ++ s2l ")" ++ envdef else d ++ envdef in
        Ok (line2 ++ pad ++ wrap_text desc (cols - Z.of_nat descstart) (spaces descstart) ++ [10])
      end
    end.

  Definition is_root_path (p : list nat) : bool := match p with [] => true | _ => false end.

  (* ---- usage line *)
  Definition usage_of (c : command) (is_root : bool) : str :=
    if is_root then
      (if nonempty (pc_usage cfg) then pc_usage cfg else if po_help (pc_opts cfg) then s2l "[OPTIONS]" else [])
    else
      match c_usage (cmd_info c) with
      | Some u => u
      | None => if has_help_options c then s2l "[" ++ c_name (cmd_info c) ++ s2l "-OPTIONS]" else []
      end.

  Definition usage_args (c : command) : str :=
    match cmd_args c with
    | [] => []
    | args =>
      32 :: join (map (fun ar : arg =>
                         let name := a_name ar ++ (if is_slice (a_ty ar) then s2l "..." else []) in
                         if negb (c_args_required (cmd_info c)) then
                           if (0 <? a_req ar)%Z then name else s2l "[" ++ name ++ s2l "]"
                         else name) args) [32]
    end.

  Definition usage_cmds (c : command) (is_last : bool) : str :=
    if is_last && nonempty (map (fun _ => 0) (cmd_subs c)) then
      let '(co, cc) := if c_sub_optional (cmd_info c) then ([91], [93]) else ([60], [62]) in
      if Nat.ltb 3 (length (visible_cmds c)) then 32 :: co ++ s2l "command" ++ cc
      else 32 :: co ++ join (map (fun sc => c_name (cmd_info sc)) (sorted_visible_cmds c)) (s2l " | ") ++ cc
    else [].

  (* ---- WriteHelp *)
  Definition write_help_rows (r : rt) : res (str * list hrow) :=
    let chain := active_chain (cmd_depth root) (rt_active r) root [] in
    let a0 := {| al_maxlong := O; al_hasshort := false; al_hasvalname := false; al_indent := false |} in
    let a := fold_left (fun a pc => align_cmd a (snd pc) (is_root_path (fst pc))) chain a0 in
    let innermost := match rev chain with (_, c) :: _ => c | [] => root end in
    let n := length chain in
    let usage :=
        if nonempty (c_name (cmd_info root)) then
          s2l "Usage:" ++ [10; 32] ++
          concat (map (fun ipc : nat * (list nat * command) =>
                         let '(i, (p, c)) := ipc in
                         let u := usage_of c (is_root_path p) in
                         32 :: c_name (cmd_info c) ++ (if nonempty u then 32 :: u else []) ++ usage_args c
                            ++ usage_cmds c (Nat.eqb (S i) n))
                      (combine (seq 0 n) chain)) ++ [10] ++
          (match g_long (grp_info (cmd_group innermost)) with
           | [] => []
           | ld => [10] ++ wrap_text ld cols [] ++ [10]
           end)
        else [] in
    (* option and argument blocks, command by command; the indent flag is sticky *)
    (fix cmds (l : list (list nat * command)) (a : align) (acc : str) (rows : list hrow) : res (str * list hrow) :=
       match l with
       | [] =>
         let sc := sorted_visible_cmds innermost in
         Ok (acc ++
             match sc with
             | [] => []
             | _ =>
               let maxlen := fold_left (fun m c => Nat.max m (rune_count (c_name (cmd_info c)))) sc O in
               [10] ++ s2l "Available commands:" ++ [10] ++
               concat (map (fun c =>
                              let ci := cmd_info c in
                              let sd := g_short (grp_info (cmd_group c)) in
                              s2l "  " ++ c_name ci ++
                              (if nonempty sd then
                                 spaces (maxlen - rune_count (c_name ci)) ++ s2l "  " ++ sd ++
                                 (match c_aliases ci with
                                  | [] => []
                                  | als => s2l " (aliases: " ++ join als (s2l ", ") ++ s2l ")"
                                  end)
                               else []) ++ [10]) sc)
             end, rows ++ map (fun c => HCmd (c_name (cmd_info c))) sc)
       | (p, c) :: rest =>
         let is_root := is_root_path p in
         (* groups *)
         ' (a1, acc1, _, rows1) <-
           (fix groups (gs : list (group * list str * list str)) (a : align) (acc : str) (printcmd own : bool) (rows : list hrow)
              : res (align * str * bool * list hrow) :=
              match gs with
              | [] => Ok (a, acc, printcmd, rows)
              | (g, ns, envns) :: grest =>
                (* [own]: g is the command's own group (first in eachGroup order); its header is
                   omitted exactly when the command is the innermost active one (cmd.Group == grp) *)
                let no_header := own && match rest with [] => true | _ => false end in
                if g_hidden (grp_info g) || (g_builtin_help (grp_info g) && negb is_root) then groups grest a acc printcmd false rows
                else
                  ' (a', acc', printcmd', _, rows') <-
                    (fix opts (os : list opt) (a : align) (acc : str) (printcmd first : bool) (rows : list hrow)
                       : res (align * str * bool * bool * list hrow) :=
                       match os with
                       | [] => Ok (a, acc, printcmd, first, rows)
                       | o :: orest =>
                         if negb (opt_show_in_help o) then opts orest a acc printcmd first rows
                         else
                           let '(a, acc) :=
                               if printcmd then
                                 ({| al_maxlong := al_maxlong a; al_hasshort := al_hasshort a;
                                     al_hasvalname := al_hasvalname a; al_indent := true |},
                                  acc ++ [10] ++ s2l "[" ++ c_name (cmd_info c) ++ s2l " command options]" ++ [10])
                               else (a, acc) in
                           let '(acc, first) :=
                               if first && negb no_header then
                                 (acc ++ [10] ++ (if al_indent a then s2l "    " else []) ++ g_short (grp_info g) ++ s2l ":" ++ [10], false)
                               else (acc, first) in
                           row <- help_option r o ns envns g a ;;
                           opts orest a (acc ++ row) false first (rows ++ [HOpt (o_fid o)])
                       end) (grp_opts g) a acc printcmd true rows ;;
                  groups grest a' acc' printcmd' false rows'
              end) (cmd_group_ctxs c) a acc (negb is_root) true rows ;;
         (* described positional arguments *)
         let dargs := filter (fun ar : arg => nonempty (a_desc ar)) (cmd_args c) in
         ' (acc2, rows2) <-
           (match dargs with
            | [] => Ok (acc1, rows1)
            | _ =>
              let head := if is_root then [10] ++ s2l "Arguments:" ++ [10]
                          else [10] ++ s2l "[" ++ c_name (cmd_info c) ++ s2l " command arguments]" ++ [10] in
              let dstart := (description_start a1 + 2)%nat in
              (fix argrows (l : list arg) (acc : str) (rows : list hrow) : res (str * list hrow) :=
                 match l with
                 | [] => Ok (acc, rows)
                 | ar :: lrest =>
                   let argprefix := s2l "  " ++ a_name ar ++ s2l ":" in
                   match repeat_space (Z.of_nat dstart - Z.of_nat (rune_count argprefix)) with
                   | None => Panic (s2l "strings: negative Repeat count")
                   | Some pad =>
                     argrows lrest (acc ++ argprefix ++ pad ++
                                    wrap_text (a_desc ar) (cols - 1 - Z.of_nat dstart) (spaces dstart) ++ [10])
                             (rows ++ [HArg (a_fid ar)])
                   end
                 end) dargs (acc1 ++ head) rows1
            end) ;;
         cmds rest a1 acc2 rows2
       end) chain a usage [].

  Definition write_help (r : rt) : res str := bind (write_help_rows r) (fun tr => Ok (fst tr)).

  (* independent description of what must be listed: every displayable option of every
     non-hidden group along the active chain (the built-in help group only at the top
     level), every described positional argument, every non-hidden sub-command of the
     innermost active command *)
  Definition visible_rows_cmd (pc : list nat * command) : list hrow :=
    let '(p, c) := pc in
    flat_map (fun gc : group * list str * list str =>
                let g := fst (fst gc) in
                if g_hidden (grp_info g) || (g_builtin_help (grp_info g) && negb (is_root_path p)) then []
                else map (fun o => HOpt (o_fid o)) (filter opt_show_in_help (grp_opts g)))
             (cmd_group_ctxs c)
    ++ map (fun ar : arg => HArg (a_fid ar)) (filter (fun ar : arg => nonempty (a_desc ar)) (cmd_args c)).

  Definition help_visible_rows (r : rt) : list hrow :=
    let chain := active_chain (cmd_depth root) (rt_active r) root [] in
    let innermost := match rev chain with (_, c) :: _ => c | [] => root end in
    flat_map visible_rows_cmd chain ++ map (fun c => HCmd (c_name (cmd_info c))) (sorted_visible_cmds innermost).
End Help.

(* ------------------------------------------------------------------ man page *)
Definition man_quote (s : str) : str := replace_byte s 92 [92; 92].

(* formatForMan: `x' becomes bold *)
Fixpoint format_for_man_fuel (fuel : nat) (s : str) : str :=
  match fuel with
  | O => man_quote s
  | S f =>
    match cut_byte s 96 with
    | (_, None) => man_quote s
    | (pre, Some rest) =>
      man_quote pre ++
      match cut_byte rest 39 with
      | (_, None) => man_quote rest
      | (b, Some rest') => s2l "\fB" ++ man_quote b ++ s2l "\fP" ++ format_for_man_fuel f rest'
      end
    end
  end.
Definition format_for_man (s : str) : str := format_for_man_fuel (length s) s.

Section Man.
  Variable cfg : pconfig.
  Variable root : command.
  Let delim := pc_nsdelim cfg.
  Let edelim := pc_envdelim cfg.

  Definition man_option (o : opt) (ns envns : list str) (g : group) : str :=
    s2l ".TP" ++ [10] ++ s2l "\fB" ++
    (if negb (N.eqb (o_short o) 0) then s2l "\fB\-" ++ encode_rune (o_short o) ++ s2l "\fR" else []) ++
    (if nonempty (o_long o) then
       (if negb (N.eqb (o_short o) 0) then s2l ", " else []) ++
       s2l "\fB\-\-" ++ man_quote (long_with_ns delim ns (o_long o)) ++ s2l "\fR"
     else []) ++
    (if nonempty (o_valname o) || o_optional o then
       if o_optional o then
         s2l " [\fI" ++ man_quote (o_valname o) ++ s2l "=" ++ man_quote (join (map quote (o_optval o)) (s2l ", ")) ++ s2l "\fR]"
       else s2l " \fI" ++ man_quote (o_valname o) ++ s2l "\fR"
     else []) ++
    (match o_mask o with
     | (_ :: _) as m => if str_eqb m (s2l "-") then [] else s2l " <default: \fI" ++ man_quote m ++ s2l "\fR>"
     | [] =>
       match o_default o with
       | _ :: _ => s2l " <default: \fI" ++ man_quote (join (map quote (o_default o)) (s2l ", ")) ++ s2l "\fR>"
       | [] =>
         let ek := env_key edelim (oc_of o ns envns g) in
         if nonempty ek then s2l " <default: \fI$" ++ man_quote ek ++ s2l "\fR>" else []
       end
     end) ++
    (if o_required o then s2l " (\fIrequired\fR)" else []) ++
    s2l "\fP" ++ [10] ++
    (if nonempty (o_desc o) then format_for_man (o_desc o) ++ [10] else []).

  (* writeManPageOptions(grp) for the group tree of one command *)
  Definition man_options (c : command) : str :=
    let top := cmd_group c in
    let has_subgroups := nonempty (map (fun _ => 0) (grp_subs top)) in
    concat (map (fun gc : group * list str * list str =>
                   let '(g, ns, envns) := gc in
                   if negb (group_show_in_help g) then []
                   else
                     (if nonempty (g_short (grp_info g)) && has_subgroups then
                        s2l ".SS " ++ g_short (grp_info g) ++ [10] ++
                        (if nonempty (g_long (grp_info g)) then format_for_man (g_long (grp_info g)) ++ [10] else [])
                      else []) ++
                     concat (map (fun o => if opt_show_in_help o then man_option o ns envns g else []) (grp_opts g)))
                (cmd_group_ctxs c)).

  Fixpoint man_command (fuel : nat) (name usage_prefix : str) (c : command) : str :=
    match fuel with
    | O => []
    | S f =>
      let ci := cmd_info c in
      let gi := grp_info (cmd_group c) in
      let cmdstart := s2l "The " ++ man_quote (c_name ci) ++ s2l " command" in
      let pre := usage_prefix ++ [32] ++ c_name ci in
      let usage := match c_usage ci with
                   | Some u => u
                   | None => if has_help_options c then s2l "[" ++ c_name ci ++ s2l "-OPTIONS]" else []
                   end in
      let next_prefix := if nonempty usage then pre ++ [32] ++ usage else pre in
      s2l ".SS " ++ name ++ [10] ++ g_short gi ++ [10] ++
      (if nonempty (g_long gi) then
         [10] ++
         (if has_prefix (g_long gi) cmdstart then
            s2l "The \fI" ++ man_quote (c_name ci) ++ s2l "\fP command" ++
            format_for_man (skipn (length cmdstart) (g_long gi)) ++ [10]
          else format_for_man (g_long gi) ++ [10])
       else []) ++
      (if nonempty usage then [10] ++ s2l "\fBUsage\fP: " ++ man_quote pre ++ [32] ++ man_quote usage ++ [10] ++ s2l ".TP" ++ [10] else []) ++
      (match c_aliases ci with
       | [] => []
       | als => [10] ++ s2l "\fBAliases\fP: " ++ man_quote (join als (s2l ", ")) ++ [10; 10]
       end) ++
      man_options c ++
      concat (map (fun sc => man_command f (if nonempty name then name ++ [32] ++ c_name (cmd_info sc) else c_name (cmd_info sc))
                                         next_prefix sc)
                  (sorted_visible_cmds c))
    end.

  Definition write_man (date : str) : str :=
    let name := c_name (cmd_info root) in
    let gi := grp_info (cmd_group root) in
    let usage := if nonempty (pc_usage cfg) then pc_usage cfg else s2l "[OPTIONS]" in
    s2l ".TH " ++ man_quote name ++ s2l " 1 """ ++ date ++ s2l """" ++ [10] ++
    s2l ".SH NAME" ++ [10] ++ man_quote name ++ s2l " \- " ++ man_quote (g_short gi) ++ [10] ++
    s2l ".SH SYNOPSIS" ++ [10] ++ s2l "\fB" ++ man_quote name ++ s2l "\fP " ++ man_quote usage ++ [10] ++
    s2l ".SH DESCRIPTION" ++ [10] ++ format_for_man (g_long gi) ++ [10] ++
    s2l ".SH OPTIONS" ++ [10] ++ man_options root ++
    (match visible_cmds root with
     | [] => []
     | _ => s2l ".SH COMMANDS" ++ [10] ++
            concat (map (fun sc => man_command (cmd_depth root) (c_name (cmd_info sc)) (name ++ [32] ++ usage) sc)
                        (sorted_visible_cmds root))
     end).
End Man.
