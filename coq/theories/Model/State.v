(* Mutable state of a parser and the Option methods of option.go
   (Set, setDefault, empty, clearDefault, updateDefaultLiteral, valueIsDefault).
   Definitions only. *)
From GoFlags Require Import Base.Str Base.Utf8 Golib.Strings Golib.Strconv
     Model.Types Model.Tag Model.Scan Model.Lookup Model.Convert.
Open Scope N_scope.

Record oflags := {
  f_isset : bool; f_isdefault : bool; f_prevent : bool; f_clearref : bool;
  f_iniquote : bool; f_ininame : str; f_deflit : str }.
Definition oflags0 : oflags :=
  {| f_isset := false; f_isdefault := false; f_prevent := false; f_clearref := false;
     f_iniquote := false; f_ininame := []; f_deflit := [] |}.

(* call logs *)
Record logs := {
  l_calls : list (nat * option value);                 (* option callbacks: (fid, converted arg) *)
  l_exec : list (option (list nat) * list str);        (* Execute/CommandHandler: (command path | nil, args) *)
  l_unknown : list (str * option str * list str);      (* UnknownOptionHandler calls *)
  l_out : list (bool * str) }.                         (* writes: (is_stdout, text) *)
Definition logs0 : logs := {| l_calls := []; l_exec := []; l_unknown := []; l_out := [] |}.

Record rt := {
  rt_vals : nat -> value;          (* field id -> current value *)
  rt_fl : nat -> oflags;           (* field id -> option bookkeeping *)
  rt_active : list (list nat * nat);   (* Command.Active: command path -> child index (last binding wins) *)
  rt_logs : logs }.

Definition upd {A} (f : nat -> A) (k : nat) (v : A) : nat -> A := fun i => if Nat.eqb i k then v else f i.

Definition set_val (r : rt) (k : nat) (v : value) : rt :=
  {| rt_vals := upd (rt_vals r) k v; rt_fl := rt_fl r; rt_active := rt_active r; rt_logs := rt_logs r |}.
Definition set_fl (r : rt) (k : nat) (f : oflags) : rt :=
  {| rt_vals := rt_vals r; rt_fl := upd (rt_fl r) k f; rt_active := rt_active r; rt_logs := rt_logs r |}.
Definition set_logs (r : rt) (l : logs) : rt :=
  {| rt_vals := rt_vals r; rt_fl := rt_fl r; rt_active := rt_active r; rt_logs := l |}.
Definition set_active (r : rt) (path : list nat) (child : nat) : rt :=
  {| rt_vals := rt_vals r; rt_fl := rt_fl r; rt_active := (path, child) :: rt_active r; rt_logs := rt_logs r |}.

Fixpoint path_eqb (a b : list nat) : bool :=
  match a, b with
  | [], [] => true
  | x :: a', y :: b' => Nat.eqb x y && path_eqb a' b'
  | _, _ => false
  end.
Fixpoint get_active (l : list (list nat * nat)) (path : list nat) : option nat :=
  match l with
  | [] => None
  | (p, c) :: l' => if path_eqb p path then Some c else get_active l' path
  end.

(* commands along Active pointers starting at the root *)
Fixpoint active_chain (fuel : nat) (active : list (list nat * nat)) (c : command) (path : list nat)
  : list (list nat * command) :=
  match fuel with
  | O => []
  | S f =>
    (path, c) ::
    match get_active active path with
    | Some i => match nth_error (cmd_subs c) i with
                | Some sub => active_chain f active sub (path ++ [i])
                | None => []
                end
    | None => []
    end
  end.


Definition log_call (r : rt) (fid : nat) (a : option value) : rt :=
  let l := rt_logs r in
  set_logs r {| l_calls := l_calls l ++ [(fid, a)]; l_exec := l_exec l; l_unknown := l_unknown l; l_out := l_out l |}.
Definition log_exec (r : rt) (c : option (list nat)) (args : list str) : rt :=
  let l := rt_logs r in
  set_logs r {| l_calls := l_calls l; l_exec := l_exec l ++ [(c, args)]; l_unknown := l_unknown l; l_out := l_out l |}.
Definition log_unknown (r : rt) (n : str) (a : option str) (rest : list str) : rt :=
  let l := rt_logs r in
  set_logs r {| l_calls := l_calls l; l_exec := l_exec l; l_unknown := l_unknown l ++ [(n, a, rest)]; l_out := l_out l |}.
Definition log_out (r : rt) (is_stdout : bool) (t : str) : rt :=
  let l := rt_logs r in
  set_logs r {| l_calls := l_calls l; l_exec := l_exec l; l_unknown := l_unknown l; l_out := l_out l ++ [(is_stdout, t)] |}.

(* flag setters *)
Definition fl_with (f : oflags) (isset isdef prevent clearref : bool) : oflags :=
  {| f_isset := isset; f_isdefault := isdef; f_prevent := prevent; f_clearref := clearref;
     f_iniquote := f_iniquote f; f_ininame := f_ininame f; f_deflit := f_deflit f |}.

Definition is_func (t : vtype) : bool := match t with TFunc _ _ => true | _ => false end.
Definition is_map (t : vtype) : bool := match t with TMap _ _ => true | _ => false end.
Definition is_slice (t : vtype) : bool := match t with TSlice _ => true | _ => false end.

(* Option.emptyValue / empty *)
Definition empty_value (t : vtype) : value :=
  match t with TMap _ _ => VMap false [] | _ => zero_value t end.
(* an option added with Group.AddOption has no struct field (empty field name); it is
   bound through a pointer that cannot be replaced, so emptying it zeroes the pointee *)
Definition opt_is_added (o : opt) : bool := negb (nonempty (o_field o)).
Definition opt_empty_value (o : opt) : value :=
  match o_ty o with
  | TPtr k => if opt_is_added o then VPtr (Some (zero_kind k)) else empty_value (o_ty o)
  | t => empty_value t
  end.
Definition opt_empty (o : opt) (r : rt) : rt :=
  if is_func (o_ty o) then r else set_val r (o_fid o) (opt_empty_value o).

Section Ops.
  Variable orc : oracles.
  Variable delim : str.                     (* NamespaceDelimiter *)
  Variable help_text : rt -> str.           (* WriteHelp output at this moment (Model/Help.v) *)

  Definition foreign (m : str) : err := EForeign m.

  (* Option.call *)
  Definition opt_call (oc : octx) (arg : option str) (r : rt) : res (rt * option err) :=
    let o := oc_opt oc in
    let finish (r : rt) : res (rt * option err) :=
        if o_is_help o then Ok (r, Some (EFlags ErrHelp (help_text r)))
        else match rt_vals r (o_fid o), o_ty o with
             | VFunc true _, _ => Panic (s2l "reflect: call of nil function")
             | VFunc false fails, TFunc _ true =>
               Ok (r, if fails then Some (foreign (s2l "callback failed")) else None)
             | _, _ => Ok (r, None)
             end in
    match arg, o_ty o with
    | None, TFunc None _ => finish (if o_is_help o then r else log_call r (o_fid o) None)
    | None, _ => Panic (s2l "reflect: Call with too few input arguments")
    | Some _, TFunc None _ => finish (if o_is_help o then r else log_call r (o_fid o) None)
    | Some v, TFunc (Some k) _ =>
      bind (convert orc (o_base o) v (TScalar k) (zero_kind k)) (fun cv =>
        match cv with
        | (_, Some e) => Ok (r, Some (foreign e))
        | (x, None) => finish (log_call r (o_fid o) (Some x))
        end)
    | Some _, _ => Panic (s2l "call on non-func")
    end.

  Definition allowed_text (choices : list str) : str :=
    join (removelast choices) (s2l ", ") ++
    (if Nat.ltb 1 (length choices) then s2l " or " ++ last choices [] else []).

  (* Option.Set *)
  Definition opt_set (oc : octx) (arg : option str) (r : rt) : res (rt * option err) :=
    let o := oc_opt oc in
    let fl := rt_fl r (o_fid o) in
    let r := if (is_map (o_ty o) || is_slice (o_ty o)) && f_clearref fl then opt_empty o r else r in
    let r := set_fl r (o_fid o) (fl_with fl true (f_isdefault fl) true false) in
    let choice_check : res (option err) :=
        match o_choices o with
        | [] => Ok None
        | cs =>
          match arg with
          | None => Ok None        (* choices restrict the argument; none given *)
          | Some v =>
            if existsb (str_eqb v) cs then Ok None
            else Ok (Some (EFlags ErrInvalidChoice
                    (s2l "Invalid value `" ++ v ++ s2l "' for option `" ++ octx_string delim oc ++
                     s2l "'. Allowed values are: " ++ allowed_text cs)))
          end
        end in
    bind choice_check (fun ce =>
      match ce with
      | Some e => Ok (r, Some e)
      | None =>
        if is_func (o_ty o) then opt_call oc arg r
        else
          bind (convert orc (o_base o) (match arg with Some v => v | None => [] end) (o_ty o) (rt_vals r (o_fid o)))
               (fun cv => let '(v, e) := cv in
                          Ok (set_val r (o_fid o) v, option_map foreign e))
      end).

  (* Option.setDefault *)
  Definition opt_set_default (oc : octx) (arg : option str) (r : rt) : res (rt * option err) :=
    let o := oc_opt oc in
    if f_prevent (rt_fl r (o_fid o)) then Ok (r, None)
    else bind (opt_set oc arg r) (fun re =>
           match re with
           | (r', Some e) => Ok (r', Some e)
           | (r', None) =>
             let fl := rt_fl r' (o_fid o) in
             Ok (set_fl r' (o_fid o) (fl_with fl (f_isset fl) true false (f_clearref fl)), None)
           end).

  Fixpoint set_defaults (oc : octx) (ds : list str) (r : rt) : res (rt * option err) :=
    match ds with
    | [] => Ok (r, None)
    | d :: ds' => bind (opt_set_default oc (Some d) r) (fun re =>
                    match re with
                    | (r', Some e) => Ok (r', Some e)
                    | (r', None) => set_defaults oc ds' r'
                    end)
    end.

  (* Option.clearDefault; [env] is the process environment, [edelim] the
     EnvNamespaceDelimiter *)
  Definition opt_clear_default (env : list (str * str)) (edelim : str) (oc : octx) (r : rt)
    : res (rt * option err) :=
    let o := oc_opt oc in
    let fl := rt_fl r (o_fid o) in
    if f_prevent fl then Ok (r, None)
    else
      let used :=
          match env_key edelim oc with
          | [] => o_default o
          | key => match assoc_str env key with
                   | Some v => if nonempty (o_envdelim o) then split v (o_envdelim o) else [v]
                   | None => o_default o
                   end
          end in
      let r := set_fl r (o_fid o) (fl_with fl (f_isset fl) true (f_prevent fl) (f_clearref fl)) in
      match used with
      | _ :: _ => set_defaults oc used (opt_empty o r)
      | [] =>
        match o_ty o, rt_vals r (o_fid o) with
        | TMap _ _, VMap true _ => Ok (opt_empty o r, None)
        | TSlice _, VSlice true _ => Ok (opt_empty o r, None)
        | _, _ => Ok (r, None)
        end
      end.

  Definition quote_if_needed (s : str) : str := if all_print s then s else quote s.

  (* Option.updateDefaultLiteral; may panic through convertToString *)
  Definition opt_update_default_literal (oc : octx) (r : rt) : res rt :=
    let o := oc_opt oc in
    let fl := rt_fl r (o_fid o) in
    let setlit (r : rt) (d : str) : rt :=
        set_fl r (o_fid o) {| f_isset := f_isset fl; f_isdefault := f_isdefault fl; f_prevent := f_prevent fl;
                             f_clearref := f_clearref fl; f_iniquote := f_iniquote fl; f_ininame := f_ininame fl;
                             f_deflit := d |} in
    match o_default o with
    | _ :: _ => Ok (setlit r (join (map quote_if_needed (o_default o)) (s2l ", ")))
    | [] =>
      if can_argument o then
        let v := rt_vals r (o_fid o) in
        let showdef :=
            match o_ty o, v with
            | TFunc _ _, VFunc isnil _ => negb isnil
            | TPtr _, VPtr p => match p with Some _ => true | None => false end
            | TSlice _, VSlice _ l => nonempty (map (fun _ => 0) l)
            | TScalar (KString | KCustom | KComp), VStr s => nonempty s
            | TMap _ _, VMap isnil l => negb isnil && nonempty (map (fun _ => 0) l)
            | t, _ => negb (veq (zero_value t) v)
            end in
        if showdef then
          bind (convert_to_string orc (o_base o) (o_ty o) v) (fun ts => Ok (setlit r (fst ts)))
        else Ok (setlit r [])
      else Ok (setlit r [])
    end.

  (* Option.valueIsDefault *)
  Fixpoint apply_defaults_ignoring_errors (o : opt) (ds : list str) (cur : value) : res value :=
    match ds with
    | [] => Ok cur
    | d :: ds' => bind (convert orc (o_base o) d (o_ty o) cur) (fun cv => apply_defaults_ignoring_errors o ds' (fst cv))
    end.
  Definition opt_value_is_default (o : opt) (r : rt) : res bool :=
    bind (apply_defaults_ignoring_errors o (o_default o) (empty_value (o_ty o))) (fun chk =>
      Ok (veq (rt_vals r (o_fid o)) chk)).
End Ops.
