(* Scenarios (the unit of the correspondence check): parser construction, attach
   operations, an operation history, and the rendering of observations in the
   harness' text format.  Definitions only. *)
From GoFlags Require Import Base.Str Base.Utf8 Golib.Strings Golib.Strconv
     Model.Types Model.Tag Model.Scan Model.Lookup Model.Convert Model.State Model.Closest Model.Help Model.Parse Model.Ini Model.Complete.
Open Scope N_scope.

Inductive attach_op :=
| AtGroup (path : list nat) (short long : str) (fs : list field) (ns envns : str) (hidden : bool)
| AtCommand (path : list nat) (name short long : str) (fs : list field) (exec : exec_kind)
            (usage : option str) (aliases : list str) (hidden subopt : bool)
| AtOption (path : list nat) (fs : list field).    (* Group.AddOption on the own group of the command at [path] *)

Inductive op :=
| OpParse (args : list str)
| OpIni (text : str) (as_defaults : bool)
| OpWriteIni (opts : N)       (* IniOptions bit mask: 2 include defaults, 4 comment defaults, 8 include comments *)
| OpHelp                      (* Parser.WriteHelp *)
| OpMan                       (* Parser.WriteManPage, date pinned by SOURCE_DATE_EPOCH=86400 *)
| OpComplete (args : list str)    (* ParseArgs with GO_FLAGS_COMPLETION set and a CompletionHandler *)
| OpInspect                       (* dump of the public model *)
| OpAttach (a : attach_op)        (* AddGroup / AddCommand / AddOption in the middle of a history *)
| OpObserve                       (* nothing happens: only the observations are taken *)
| OpSetHidden (path : list nat) (hidden : bool).   (* cmd.Hidden = hidden on the command at [path] (the field of its embedded Group) *)

Record scenario := {
  sc_cfg : pconfig;
  sc_subopt : bool;                         (* parser.SubcommandsOptional *)
  sc_data : option (list field);            (* NewParser(data, ...) *)
  sc_attach : list attach_op;
  sc_init : list (nat * value);             (* every leaf field id with its initial value, in field order *)
  sc_under : list (nat * nat);              (* (fid, sid): leaf fid lies below the nil pointer struct sid *)
  sc_orc : oracles;
  sc_ops : list op }.

Record world := {
  w_tree : command;
  w_rt : rt;
  w_internal : option err;
  w_attached : list nat }.

(* ---- tree surgery *)
Fixpoint cmd_update (c : command) (path : list nat) (f : command -> command) : command :=
  match path with
  | [] => f c
  | i :: p =>
    let 'Command ci g args subs := c in
    Command ci g args
            (map (fun ic : nat * command => if Nat.eqb (fst ic) i then cmd_update (snd ic) p f else snd ic)
                 (combine (seq 0 (length subs)) subs))
  end.

Definition root_cmd (cfg : pconfig) (subopt : bool) : command :=
  Command {| c_name := pc_name cfg; c_aliases := []; c_sub_optional := subopt; c_args_required := false;
             c_hidden := false; c_exec := ExNone; c_usage := None; c_has_help := false |}
          (Group (mk_ginfo (pc_shortdesc cfg) (pc_longdesc cfg)) [] []) [] [].

(* Command.AddGroup(short, long, data) on the command at [path] *)
Definition add_group_at (delim : str) (w : world) (path : list nat) (short long : str) (fs : list field)
           (post : ginfo -> ginfo) : res world :=
  ' (g, sc) <- scan_type delim short long fs (w_attached w) ;;
  let 'Group gi os gs := g in
  let g' := Group (post gi) os gs in
  Ok {| w_tree := cmd_update (w_tree w) path (fun c =>
                    let 'Command ci (Group cgi cos cgs) args subs := c in
                    Command {| c_name := c_name ci; c_aliases := c_aliases ci; c_sub_optional := c_sub_optional ci;
                               c_args_required := c_args_required ci || sa_argsreq sc; c_hidden := c_hidden ci;
                               c_exec := c_exec ci; c_usage := c_usage ci; c_has_help := c_has_help ci |}
                            (Group cgi cos (cgs ++ [g'])) (args ++ sa_args sc) (subs ++ sa_cmds sc));
        w_rt := w_rt w; w_internal := w_internal w; w_attached := sa_attached sc |}.

(* Command.AddCommand(name, short, long, data) *)
Definition add_command_at (delim : str) (w : world) (path : list nat) (name short long : str) (fs : list field)
           (exec : exec_kind) (usage : option str) (aliases : list str) (hidden subopt : bool) : res world :=
  ' (g, sc) <- scan_type delim short long fs (w_attached w) ;;
  let ci := {| c_name := name; c_aliases := aliases; c_sub_optional := subopt; c_args_required := sa_argsreq sc;
               c_hidden := hidden; c_exec := exec; c_usage := usage; c_has_help := false |} in
  (* Command.Hidden is the Hidden field of the embedded Group *)
  let g := let 'Group gi os gs := g in
           Group {| g_short := g_short gi; g_long := g_long gi; g_ns := g_ns gi; g_envns := g_envns gi;
                    g_hidden := hidden; g_builtin_help := false |} os gs in
  let newc := Command ci g (sa_args sc) (sa_cmds sc) in
  Ok {| w_tree := cmd_update (w_tree w) path (fun c =>
                    let 'Command pci pg pargs psubs := c in Command pci pg pargs (psubs ++ [newc]));
        w_rt := w_rt w; w_internal := w_internal w; w_attached := sa_attached sc |}.

(* Group.AddOption(option, &x) on the command's own group: a hand-built Option (its
   fields are those [make_opt] derives from the leaf's tag; the harness restricts the tag to
   keys that are Option fields) without a struct field (empty field name, empty tag), bound
   to a non-nil pointer.  No validation and no duplicate check happen. *)
Definition add_option_at (w : world) (path : list nat) (fs : list field) : res world :=
  match fs with
  | [FLeaf _ _ tag ty fid] =>
    m <- tag_scan tag ;;
    oo <- make_opt [] m ty fid ;;
    match oo with
    | Some o =>
      Ok {| w_tree := cmd_update (w_tree w) path (fun c =>
                        let 'Command ci (Group cgi cos cgs) args subs := c in
                        Command ci (Group cgi (cos ++ [o]) cgs) args subs);
            w_rt := w_rt w; w_internal := w_internal w; w_attached := w_attached w |}
    | None => Panic (s2l "UNMODELLED: AddOption of an option without names")
    end
  | _ => Panic (s2l "UNMODELLED: AddOption shape")
  end.

Definition apply_attach (delim : str) (w : world) (a : attach_op) : res world :=
  match a with
  | AtOption path fs => add_option_at w path fs
  | AtGroup path short long fs ns envns hidden =>
    add_group_at delim w path short long fs
                 (fun gi => {| g_short := g_short gi; g_long := g_long gi; g_ns := ns; g_envns := envns;
                               g_hidden := hidden; g_builtin_help := false |})
  | AtCommand path name short long fs exec usage aliases hidden subopt =>
    add_command_at delim w path name short long fs exec usage aliases hidden subopt
  end.

(* ---- ParseArgs = prologue + Parse.parse_body *)
Section Run.
  Variable cfg : pconfig.
  Variable orc : oracles.

  (* WriteHelp as seen by the built-in help option; a panic inside WriteHelp is
     encoded in the text so that [help_text] can stay a total function *)
  Definition help_panic_mark : str := s2l "<<PANIC-IN-WRITEHELP>>".
  Definition help_text_stub (root : command) (r : rt) : str :=
    match write_help cfg root r with
    | Ok t => t
    | _ => help_panic_mark
    end.

  Fixpoint prologue_opts (ocs : list octx) (r : rt) : res rt :=
    match ocs with
    | [] => Ok r
    | oc :: ocs' =>
      let fid := o_fid (oc_opt oc) in
      let fl := rt_fl r fid in
      let r := set_fl r fid (fl_with fl (f_isset fl) (f_isdefault fl) (f_prevent fl) true) in
      r' <- opt_update_default_literal orc oc r ;;
      prologue_opts ocs' r'
    end.

  (* ParseArgs in completion mode: same prologue, then completion.complete; nothing is parsed or executed *)
  Definition complete_args (w : world) (args : list str) : res (world * option (list (str * str))) :=
    match w_internal w with
    | Some e => Ok (w, None)
    | None =>
      r <- prologue_opts (tree_octxs (w_tree w)) (w_rt w) ;;
      let tree := if po_help (pc_opts cfg) then add_help_groups (cmd_depth (w_tree w)) (w_tree w) else w_tree w in
      Ok ({| w_tree := tree; w_rt := r; w_internal := None; w_attached := w_attached w |}, Some (complete cfg tree args))
    end.

  Definition parse_args (w : world) (args : list str) : res (world * presult) :=
    match w_internal w with
    | Some e => Ok (w, {| pr_ret := None; pr_err := Some e |})
    | None =>
      r <- prologue_opts (tree_octxs (w_tree w)) (w_rt w) ;;
      let tree := if po_help (pc_opts cfg) then add_help_groups (cmd_depth (w_tree w)) (w_tree w) else w_tree w in
      ' (r', pres) <- parse_body cfg orc tree (help_text_stub tree) args r ;;
      Ok ({| w_tree := tree; w_rt := r'; w_internal := None; w_attached := w_attached w |}, pres)
    end.
End Run.

(* ---- rendering (must agree byte for byte with harness/scenario.go) *)
Definition join_with (sep : str) (l : list str) : str := join l sep.

Fixpoint render_value (fuel : nat) (v : value) : str :=
  match fuel with
  | O => s2l "?"
  | S f =>
    match v with
    | VBool b => s2l (if b then "b1" else "b0")
    | VInt z => 105 :: dec_of_Z z
    | VStr s => 115 :: hex_of_str s
    | VFloat c => 102 :: hex_of_str c
    | VPtr None => s2l "pn"
    | VPtr (Some x) => s2l "p(" ++ render_value f x ++ s2l ")"
    | VSlice true _ => s2l "ln"
    | VSlice false l => s2l "l[" ++ join (map (render_value f) l) [44] ++ s2l "]"
    | VMap true _ => s2l "mn"
    | VMap false l =>
      s2l "m{" ++ join (sort_strs (map (fun kv : value * value => render_value f (fst kv) ++ [62] ++ render_value f (snd kv)) l)) [44]
          ++ s2l "}"
    | VFunc true _ => s2l "Fn"
    | VFunc false _ => s2l "F"
    end
  end.
Definition rv (v : value) : str := render_value 6 v.

Definition hex_list (l : list str) : str := s2l "[" ++ join (map hex_of_str l) [44] ++ s2l "]".

Definition render_err (e : option err) : str :=
  match e with
  | None => s2l "nil"
  | Some (EFlags t m) => s2l "F:" ++ dec_of_N (errty_code t) ++ [58] ++ hex_of_str m
  | Some (EIni l m) => s2l "I:" ++ dec_of_N l ++ [58] ++ hex_of_str m
  | Some (EForeign m) => s2l "X:" ++ hex_of_str m
  end.

Definition path_id (p : list nat) : str := join (map (fun i => dec_of_N (N.of_nat i)) p) [46].

Definition line (k : string) (v : str) : str := s2l k ++ [61] ++ v ++ [10].

Definition render_vals (sc : scenario) (w : world) : str :=
  join (flat_map (fun iv : nat * value =>
                    let fid := fst iv in
                    (* a leaf below nil pointer structs is reachable only when all of them were attached *)
                    if forallb (fun p : nat * nat => negb (Nat.eqb (fst p) fid) || existsb (Nat.eqb (snd p)) (w_attached w))
                               (sc_under sc)
                    then [dec_of_N (N.of_nat fid) ++ [58] ++ rv (rt_vals (w_rt w) fid)] else [])
                 (sc_init sc)) [59].

Definition render_active (w : world) : str :=
  let chain := active_chain (cmd_depth (w_tree w)) (rt_active (w_rt w)) (w_tree w) [] in
  match rev chain with
  | (p, _) :: _ => path_id p
  | [] => []
  end.

Definition render_logs (cfg : pconfig) (l : logs) : str :=
  line "calls" (join (map (fun c : nat * option value =>
                             dec_of_N (N.of_nat (fst c)) ++ [58] ++ match snd c with Some v => rv v | None => s2l "nil" end)
                          (l_calls l)) [59]) ++
  line "exec" (join (map (fun e : option (list nat) * list str =>
                            s2l (if pc_cmdhandler cfg then "H:" else "E:") ++
                            match fst e with Some p => path_id p | None => s2l "nil" end ++ [58] ++ hex_list (snd e))
                         (l_exec l)) [59]) ++
  line "unknown" (join (map (fun u : str * option str * list str =>
                               let '(n, a, rest) := u in
                               hex_of_str n ++ [58] ++ match a with Some x => hex_of_str x | None => s2l "nil" end ++ [58] ++ hex_list rest)
                            (l_unknown l)) [59]) ++
  (let so := flat_map (fun o : bool * str => if fst o then snd o else []) (l_out l) in
   let se := flat_map (fun o : bool * str => if fst o then [] else snd o) (l_out l) in
   line "out" (join ((if nonempty so then [s2l "1:" ++ hex_of_str so] else []) ++
                     (if nonempty se then [s2l "2:" ++ hex_of_str se] else [])) [59])).

(* Option.IsSet / IsSetDefault of every option of the tree (built-in help option excepted) *)
Definition render_set (w : world) : str :=
  join (sort_strs (flat_map (fun oc : octx =>
                               let o := oc_opt oc in
                               let fl := rt_fl (w_rt w) (o_fid o) in
                               if oc_builtin oc then []
                               else [hex_of_str (o_field o) ++ [124] ++ hex_of_str (o_long o) ++ [124] ++ dec_of_N (o_short o) ++ [58] ++
                                     (if f_isset fl then [49] else [48]) ++ (if f_isdefault fl then [49] else [48])])
                            (tree_octxs (w_tree w)))) [59].

Definition render_op (sc : scenario) (w : world) (opname : string) (panic : option str)
           (e : option err) (ret : option (list str)) (extra : str) : str :=
  line "op" (s2l opname) ++
  line "panic" (match panic with Some t => t | None => [] end) ++
  line "err" (render_err e) ++
  line "ret" (match ret with Some l => hex_list l | None => s2l "nil" end) ++
  line "vals" (render_vals sc w) ++
  line "active" (render_active w) ++
  render_logs (sc_cfg sc) (rt_logs (w_rt w)) ++
  line "attached" (join (sort_strs (map (fun s => dec_of_N (N.of_nat s)) (w_attached w))) [44]) ++
  line "set" (render_set w) ++
  extra.

(* ---- the public model (exported fields of Option / Group / Command / Arg), for C19 *)
Definition hl (l : list str) : str := join (map hex_of_str l) [44].
Definition bb (b : bool) : str := if b then [49] else [48].

Definition render_opt (delim edelim : str) (o : opt) (ns envns : list str) (g : group) : str :=
  let oc := {| oc_opt := o; oc_ns := ns; oc_envns := envns; oc_ghidden := false; oc_gshort := []; oc_builtin := false |} in
  s2l "O(" ++ join [hex_of_str (o_field o); hex_of_str (o_desc o); dec_of_N (o_short o); hex_of_str (o_long o);
                    hl (o_default o); hex_of_str (o_envkey o); hex_of_str (o_envdelim o); bb (o_optional o);
                    hl (o_optval o); bb (o_required o); hex_of_str (o_valname o); hex_of_str (o_mask o);
                    hl (o_choices o); bb (o_hidden o);
                    hex_of_str (long_name delim oc); hex_of_str (env_key edelim oc); hex_of_str (octx_string delim oc)] [59]
      ++ s2l ")".

Fixpoint render_group (fuel : nat) (delim edelim : str) (ns envns : list str) (g : group) : str :=
  match fuel with
  | O => []
  | S f =>
    let gi := grp_info g in
    let ns' := ns ++ [g_ns gi] in
    let envns' := envns ++ [g_envns gi] in
    s2l "G(" ++ join [hex_of_str (g_short gi); hex_of_str (g_long gi); hex_of_str (g_ns gi); hex_of_str (g_envns gi); bb (g_hidden gi)] [59]
        ++ s2l "){" ++ concat (map (fun o => render_opt delim edelim o ns' envns' g) (grp_opts g))
        ++ concat (map (render_group f delim edelim ns' envns') (grp_subs g)) ++ s2l "}"
  end.

Fixpoint render_cmd (fuel : nat) (delim edelim : str) (c : command) : str :=
  match fuel with
  | O => []
  | S f =>
    let ci := cmd_info c in
    s2l "C(" ++ join [hex_of_str (c_name ci); hl (c_aliases ci); bb (c_sub_optional ci); bb (c_args_required ci)] [59] ++ s2l ")[" ++
    concat (map (fun a : arg => s2l "A(" ++ join [hex_of_str (a_name a); hex_of_str (a_desc a); dec_of_Z (a_req a); dec_of_Z (a_max a)] [59] ++ s2l ")")
                (cmd_args c)) ++ s2l "]" ++
    render_group (group_depth (cmd_group c)) delim edelim [] [] (cmd_group c) ++
    s2l "<" ++ concat (map (render_cmd f delim edelim) (cmd_subs c)) ++ s2l ">"
  end.

Definition clear_logs (w : world) : world :=
  {| w_tree := w_tree w; w_rt := set_logs (w_rt w) logs0; w_internal := w_internal w; w_attached := w_attached w |}.

Definition run_op (sc : scenario) (w : world) (o : op) : world * str * bool (* stop *) :=
  let w := clear_logs w in
  match o with
  | OpParse args =>
    match parse_args (sc_cfg sc) (sc_orc sc) w args with
    | Ok (w', pres) =>
      match pr_err pres with
      | Some (EFlags ErrHelp m) =>
        if str_eqb m help_panic_mark then (w, render_op sc w "parse" (Some (s2l "PANIC:strings: negative Repeat count")) None None [], true)
        else (w', render_op sc w' "parse" None (pr_err pres) (pr_ret pres) [], false)
      | _ => (w', render_op sc w' "parse" None (pr_err pres) (pr_ret pres) [], false)
      end
    | Err e => (w, render_op sc w "parse" (Some (s2l "MODEL-ERR")) (Some e) None [], true)
    | Panic t => (w, render_op sc w "parse" (Some (s2l "PANIC:" ++ t)) None None [], true)
    end
  | OpIni text asdef =>
    let cfg := sc_cfg sc in
    match read_ini text with
    | Err e => (w, render_op sc w "ini" None (Some e) None [], false)
    | Panic t => (w, render_op sc w "ini" (Some (s2l "PANIC:" ++ t)) None None [], true)
    | Ok f =>
      match ini_apply (sc_orc sc) (pc_nsdelim cfg) (help_text_stub cfg (w_tree w)) (po_ignore (pc_opts cfg)) asdef (w_tree w) f (w_rt w) with
      | Ok (r', e) =>
        let w' := {| w_tree := w_tree w; w_rt := r'; w_internal := w_internal w; w_attached := w_attached w |} in
        (w', render_op sc w' "ini" None e None [], false)
      | Err e => (w, render_op sc w "ini" (Some (s2l "MODEL-ERR")) (Some e) None [], true)
      | Panic t => (w, render_op sc w "ini" (Some (s2l "PANIC:" ++ t)) None None [], true)
      end
    end
  | OpWriteIni opts =>
    let cfg := sc_cfg sc in
    match write_ini (sc_orc sc) (N.testbit opts 1) (N.testbit opts 2) (N.testbit opts 3) (w_tree w) (w_rt w) with
    | Ok t => (w, render_op sc w "writeini" None None None (line "bytes" (hex_of_str t)), false)
    | Err e => (w, render_op sc w "writeini" (Some (s2l "MODEL-ERR")) (Some e) None [], true)
    | Panic t => (w, render_op sc w "writeini" (Some (s2l "PANIC:" ++ t)) None None [], true)
    end
  | OpHelp =>
    match write_help (sc_cfg sc) (w_tree w) (w_rt w) with
    | Ok t => (w, render_op sc w "help" None None None (line "bytes" (hex_of_str t)), false)
    | Err e => (w, render_op sc w "help" (Some (s2l "MODEL-ERR")) (Some e) None [], true)
    | Panic t => (w, render_op sc w "help" (Some (s2l "PANIC:" ++ t)) None None [], true)
    end
  | OpComplete args =>
    match complete_args (sc_cfg sc) (sc_orc sc) w args with
    | Ok (w', Some items) =>
      (w', render_op sc w' "complete" None None None
                     (line "items" (join (map (fun it : str * str => hex_of_str (fst it) ++ [58] ++ hex_of_str (snd it)) items) [59])), false)
    | Ok (w', None) => (w', render_op sc w' "complete" None (w_internal w) None (line "items" (s2l "none")), false)
    | Err e => (w, render_op sc w "complete" (Some (s2l "MODEL-ERR")) (Some e) None [], true)
    | Panic t => (w, render_op sc w "complete" (Some (s2l "PANIC:" ++ t)) None None [], true)
    end
  | OpInspect =>
    (w, render_op sc w "inspect" None None None
                  (line "model" (render_cmd (cmd_depth (w_tree w)) (pc_nsdelim (sc_cfg sc)) (pc_envdelim (sc_cfg sc)) (w_tree w))), false)
  | OpMan =>
    (w, render_op sc w "man" None None None (line "bytes" (hex_of_str (write_man (sc_cfg sc) (w_tree w) (s2l "2 January 1970")))), false)
  | OpObserve => (w, render_op sc w "observe" None None None [], false)
  | OpSetHidden path h =>
    let w' := {| w_tree := cmd_update (w_tree w) path (fun c =>
                             let 'Command ci (Group gi os gs) args subs := c in
                             Command {| c_name := c_name ci; c_aliases := c_aliases ci; c_sub_optional := c_sub_optional ci;
                                        c_args_required := c_args_required ci; c_hidden := h; c_exec := c_exec ci;
                                        c_usage := c_usage ci; c_has_help := c_has_help ci |}
                                     (Group {| g_short := g_short gi; g_long := g_long gi; g_ns := g_ns gi; g_envns := g_envns gi;
                                               g_hidden := h; g_builtin_help := g_builtin_help gi |} os gs) args subs);
                 w_rt := w_rt w; w_internal := w_internal w; w_attached := w_attached w |} in
    (w', render_op sc w' "hide" None None None [], false)
  | OpAttach a =>
    match apply_attach (pc_nsdelim (sc_cfg sc)) w a with
    | Ok w' => (w', render_op sc w' "attach" None None None [], false)
    | Err e => (w, render_op sc w "attach" None (Some e) None [], false)
    | Panic t => (w, render_op sc w "attach" (Some (s2l "PANIC:" ++ t)) None None [], true)
    end
  end.

Fixpoint run_ops (sc : scenario) (w : world) (ops : list op) : str :=
  match ops with
  | [] => []
  | o :: rest =>
    let '(w', out, stop) := run_op sc w o in
    out ++ (if stop then [] else run_ops sc w' rest)
  end.

Fixpoint apply_attaches (delim : str) (w : world) (l : list attach_op) (i : nat) : world + str :=
  match l with
  | [] => inl w
  | a :: rest =>
    match apply_attach delim w a with
    | Ok w' => apply_attaches delim w' rest (S i)
    | Err e => inr (dec_of_N (N.of_nat i) ++ [58] ++ render_err (Some e))
    | Panic t => inr (s2l "PANIC@" ++ dec_of_N (N.of_nat i) ++ [58] ++ t)
    end
  end.

Definition init_rt (sc : scenario) : rt :=
  {| rt_vals := fun k => match find (fun iv : nat * value => Nat.eqb (fst iv) k) (sc_init sc) with
                         | Some iv => snd iv
                         | None => VBool false
                         end;
     rt_fl := fun _ => oflags0; rt_active := []; rt_logs := logs0 |}.

Definition run_scenario (sc : scenario) : str :=
  let cfg := sc_cfg sc in
  let w0 := {| w_tree := root_cmd cfg (sc_subopt sc); w_rt := init_rt sc; w_internal := None; w_attached := [] |} in
  (* NewParser(data): AddGroup("Application Options", "", data) with the default delimiter "." *)
  let w1 : world + str :=
      match sc_data sc with
      | None => inl w0
      | Some fs =>
        match add_group_at (s2l ".") w0 [] (s2l "Application Options") [] fs (fun gi => gi) with
        | Ok w => inl w
        | Err e => inr (s2l "D:" ++ render_err (Some e))     (* internalError: the scenario ends here *)
        | Panic t => inr (s2l "PANIC:" ++ t)
        end
      end in
  match w1 with
  | inr t => line "setup" t
  | inl w1 =>
    match apply_attaches (pc_nsdelim cfg) w1 (sc_attach sc) O with
    | inr t => line "setup" t
    | inl w2 => line "setup" (s2l "nil") ++ run_ops sc w2 (sc_ops sc)
    end
  end.
