(* Core data types of the go-flags model.  Definitions only. *)
From GoFlags Require Import Base.Str Base.Utf8.
Open Scope N_scope.

(* ---- field types supported by the harness *)
Inductive ikind := I0 | I8 | I16 | I32 | I64 | U0 | U8 | U16 | U32 | U64.   (* I0 = int, U0 = uint *)
Inductive kind :=
| KBool | KInt (k : ikind) | KFloat (bits : N) | KString | KDuration
| KCustom       (* harness type Custom string: UnmarshalFlag on *Custom, MarshalFlag on Custom *)
| KComp.        (* harness type Comp string: Complete and UnmarshalFlag on *Comp only (no value-receiver method) *)

Inductive vtype :=
| TScalar (k : kind)
| TPtr (k : kind)
| TSlice (e : vtype)            (* e is TScalar or TPtr *)
| TMap (k v : kind)
| TFunc (arg : option kind) (ret_err : bool).

Definition ikind_signed (k : ikind) : bool :=
  match k with I0 | I8 | I16 | I32 | I64 => true | _ => false end.
Definition ikind_bits (k : ikind) : N :=
  match k with I8 | U8 => 8 | I16 | U16 => 16 | I32 | U32 => 32 | _ => 64 end.
Definition ikind_name (k : ikind) : str :=
  s2l match k with
      | I0 => "int" | I8 => "int8" | I16 => "int16" | I32 => "int32" | I64 => "int64"
      | U0 => "uint" | U8 => "uint8" | U16 => "uint16" | U32 => "uint32" | U64 => "uint64"
      end%string.

(* reflect.Type.String() as used in marshalError's "expected <type>" *)
Definition kind_name (k : kind) : str :=
  match k with
  | KBool => s2l "bool"
  | KInt i => ikind_name i
  | KFloat b => s2l "float" ++ dec_of_N b
  | KString => s2l "string"
  | KDuration => s2l "time.Duration"
  | KCustom => s2l "main.Custom"
  | KComp => s2l "main.Comp"
  end.
Fixpoint vtype_name (t : vtype) : str :=
  match t with
  | TScalar k => kind_name k
  | TPtr k => 42 :: kind_name k
  | TSlice e => s2l "[]" ++ vtype_name e
  | TMap k v => s2l "map[" ++ kind_name k ++ s2l "]" ++ kind_name v
  | TFunc _ _ => []
  end.

(* ---- values *)
Inductive value :=
| VBool (b : bool)
| VInt (z : Z)                 (* all integer kinds and time.Duration (ns) *)
| VStr (s : str)               (* string, Custom, Comp *)
| VFloat (canon : str)         (* canonical text from the float oracle *)
| VPtr (p : option value)
| VSlice (isnil : bool) (l : list value)
| VMap (isnil : bool) (l : list (value * value))   (* insertion order, keys unique *)
| VFunc (isnil : bool) (fails : bool).

Definition zero_kind (k : kind) : value :=
  match k with
  | KBool => VBool false
  | KInt _ | KDuration => VInt 0
  | KFloat _ => VFloat [48]
  | KString | KCustom | KComp => VStr []
  end.
Definition zero_value (t : vtype) : value :=
  match t with
  | TScalar k => zero_kind k
  | TPtr _ => VPtr None
  | TSlice _ => VSlice true []
  | TMap _ _ => VMap true []
  | TFunc _ _ => VFunc true false
  end.

(* ---- struct description (input of the scan) *)
Inductive field :=
| FLeaf (name : str) (exported : bool) (tag : str) (ty : vtype) (fid : nat)
| FStruct (name : str) (exported : bool) (tag : str) (is_ptr : bool) (ptr_nil : bool)
          (fields : list field) (sid : nat).

(* ---- scanned declarations *)
Record opt := {
  o_fid : nat; o_field : str; o_short : N (* 0 = none *); o_long : str; o_desc : str;
  o_default : list str; o_envkey : str; o_envdelim : str;
  o_optional : bool; o_optval : list str; o_required : bool;
  o_valname : str; o_mask : str; o_choices : list str; o_hidden : bool;
  o_ininame : str; o_noini : bool; o_unquote : bool; o_base : str;
  o_ty : vtype; o_is_help : bool }.

Record ginfo := {
  g_short : str; g_long : str; g_ns : str; g_envns : str; g_hidden : bool; g_builtin_help : bool }.

Inductive group := Group (gi : ginfo) (opts : list opt) (subs : list group).

Record arg := {
  a_fid : nat; a_name : str; a_desc : str; a_req : Z; a_max : Z; a_ty : vtype; a_base : str }.

Inductive exec_kind := ExNone | ExOk | ExErr (msg : str).

Record cinfo := {
  c_name : str; c_aliases : list str; c_sub_optional : bool; c_args_required : bool;
  c_hidden : bool; c_exec : exec_kind; c_usage : option str; c_has_help : bool }.

Inductive command := Command (ci : cinfo) (g : group) (args : list arg) (subs : list command).

Definition cmd_info (c : command) := let 'Command ci _ _ _ := c in ci.
Definition cmd_group (c : command) := let 'Command _ g _ _ := c in g.
Definition cmd_args (c : command) := let 'Command _ _ a _ := c in a.
Definition cmd_subs (c : command) := let 'Command _ _ _ s := c in s.
Definition grp_info (g : group) := let 'Group gi _ _ := g in gi.
Definition grp_opts (g : group) := let 'Group _ o _ := g in o.
Definition grp_subs (g : group) := let 'Group _ _ s := g in s.

(* ---- errors *)
Inductive errty :=
| ErrUnknown | ErrExpectedArgument | ErrUnknownFlag | ErrUnknownGroup | ErrMarshal | ErrHelp
| ErrNoArgumentForBool | ErrRequired | ErrShortNameTooLong | ErrDuplicatedFlag | ErrTag
| ErrCommandRequired | ErrUnknownCommand | ErrInvalidChoice | ErrInvalidTag.

Definition errty_code (t : errty) : N :=
  match t with
  | ErrUnknown => 0 | ErrExpectedArgument => 1 | ErrUnknownFlag => 2 | ErrUnknownGroup => 3
  | ErrMarshal => 4 | ErrHelp => 5 | ErrNoArgumentForBool => 6 | ErrRequired => 7
  | ErrShortNameTooLong => 8 | ErrDuplicatedFlag => 9 | ErrTag => 10 | ErrCommandRequired => 11
  | ErrUnknownCommand => 12 | ErrInvalidChoice => 13 | ErrInvalidTag => 14
  end.

Inductive err :=
| EFlags (t : errty) (msg : str)
| EIni (line : N) (msg : str)
| EForeign (msg : str).        (* any non-go-flags error value: Error() text *)

Definition err_text (e : err) : str :=
  match e with
  | EFlags _ m => m
  | EIni l m => s2l ":" ++ dec_of_N l ++ s2l ": " ++ m     (* File is "" for Parse(reader) *)
  | EForeign m => m
  end.

(* result of an operation that may fail or panic *)
Inductive res (A : Type) :=
| Ok (a : A)
| Err (e : err)
| Panic (where_ : str).
Arguments Ok {A} a.
Arguments Err {A} e.
Arguments Panic {A} where_.

Definition bind {A B} (r : res A) (f : A -> res B) : res B :=
  match r with Ok a => f a | Err e => Err e | Panic w => Panic w end.

Notation "x <- a ;; b" := (bind a (fun x => b)) (at level 61, a at next level, right associativity).
Notation "' p <- a ;; b" := (bind a (fun x => let p := x in b))
  (at level 61, p pattern, a at next level, right associativity).

(* ---- oracles for float / duration conversion: finite tables filled from Go *)
Record oracles := {
  or_float : list (N * str * (str + str));      (* (bits, text) -> canonical text | error message *)
  or_dur : list (str * (Z + str));              (* text -> nanoseconds | error message *)
  or_durfmt : list (Z * str) }.                 (* nanoseconds -> Duration.String() *)

(* a table miss is reported through a distinguished panic tag so that the driver
   can extend the table and re-run; it never counts as an implementation panic *)
Definition oracle_miss (what : str) : str := s2l "ORACLE-MISS:" ++ what.

(* ---- parser configuration *)
Record popts := {
  po_help : bool; po_passdd : bool; po_ignore : bool; po_print : bool; po_passafter : bool }.

Inductive handler_kind := HNone | HIdentity | HDropNext | HError.

Record pconfig := {
  pc_name : str; pc_opts : popts; pc_nsdelim : str; pc_envdelim : str;
  pc_handler : handler_kind; pc_cmdhandler : bool; pc_usage : str;
  pc_env : list (str * str);         (* environment: LookupEnv *)
  pc_cols : N;                       (* terminal columns as seen by getTerminalColumns *)
  pc_shortdesc : str; pc_longdesc : str }.   (* parser.ShortDescription / LongDescription *)
