(* completion.go: completion.complete.  Definitions only. *)
From GoFlags Require Import Base.Str Base.Utf8 Golib.Strings Golib.Strconv
     Model.Types Model.Tag Model.Scan Model.Lookup Model.Convert Model.State Model.Help Model.Parse.
Open Scope N_scope.

(* the harness' Completer type Comp: fixed word list *)
Definition comp_words : list str :=
  map s2l ["alpha"; "alpine"; "beta"; "be ta"; "gamma"; "-dash"; "--ddash"]%string.
Definition comp_complete (m : str) : list (str * str) :=
  flat_map (fun w => if has_prefix w m then [(w, s2l "desc " ++ w)] else []) comp_words.

(* completeValue: only Comp, *Comp and []Comp fields provide completions *)
Definition vtype_completes (t : vtype) : bool :=
  match t with
  | TScalar KComp | TPtr KComp | TSlice (TScalar KComp) => true
  | _ => false
  end.
Definition complete_value (t : vtype) (prefix m : str) : list (str * str) :=
  if vtype_completes t then map (fun it : str * str => (prefix ++ fst it, snd it)) (comp_complete m) else [].

(* a Go map built by successive assignments: one entry per key, the last value *)
Fixpoint dedupe_last {A} (l : list (str * A)) : list (str * A) :=
  match l with
  | [] => []
  | (k, v) :: l' => if existsb (fun p : str * A => str_eqb (fst p) k) l' then dedupe_last l' else (k, v) :: dedupe_last l'
  end.

Definition starts_option (t : str) : bool := match t with 45 :: _ => true | _ => false end.

(* stripOptionPrefix + splitOption, keeping the prefix: (prefix, islong, name, split, argument) *)
Definition strip_split (t : str) : str * bool * str * option str :=
  let '(islong, name, arg) := split_option t in
  ((if islong then s2l "--" else s2l "-"), islong, name, arg).

Section Complete.
  Variable cfg : pconfig.
  Variable root : command.
  Let delim := pc_nsdelim cfg.
  Let po := pc_opts cfg.

  Definition complete_option_names (lk : lookup) (prefix m : str) (short : bool) : list (str * str) :=
    if short && nonempty m then [(prefix ++ m, [])]
    else
      let longs := dedupe_last (lk_long lk) in
      let shorts := dedupe_last (lk_short lk) in
      let lres := filter (fun p : str * octx => has_prefix (fst p) m && negb (o_hidden (oc_opt (snd p)))) longs in
      let repeats := map (fun p : str * octx => encode_rune (o_short (oc_opt (snd p)))) lres in
      map (fun p : str * octx => (s2l "--" ++ fst p, o_desc (oc_opt (snd p)))) lres ++
      (if short then
         flat_map (fun p : str * octx =>
                     if negb (existsb (str_eqb (fst p)) repeats) && has_prefix (fst p) m && negb (o_hidden (oc_opt (snd p)))
                     then [(45 :: fst p, o_desc (oc_opt (snd p)))] else []) shorts
       else []).

  Definition complete_commands (c : command) (m : str) : list (str * str) :=
    flat_map (fun sc => let ci := cmd_info sc in
                        if negb (g_hidden (grp_info (cmd_group sc))) && has_prefix (c_name ci) m
                        then [(c_name ci, g_short (grp_info (cmd_group sc)))] else [])
             (cmd_subs c).

  (* completion's private parse state; [cs_ret]: an argument was left over (the parser's
     retargs is non-empty), so commands are no longer recognised *)
  Record cst := { cs_pos : list arg; cs_cmd : list nat; cs_lk : lookup; cs_ret : bool }.
  Definition cs_fill (path : list nat) (ret : bool) : cst :=
    {| cs_pos := match cmd_at root path with Some c => cmd_args c | None => [] end;
       cs_cmd := path; cs_lk := make_lookup delim root path; cs_ret := ret |}.
  Definition cs_with_pos (s : cst) (pos : list arg) : cst :=
    {| cs_pos := pos; cs_cmd := cs_cmd s; cs_lk := cs_lk s; cs_ret := cs_ret s |}.
  Definition cs_leftover (s : cst) : cst :=
    {| cs_pos := cs_pos s; cs_cmd := cs_cmd s; cs_lk := cs_lk s; cs_ret := true |}.
  (* a plain argument: bound to the next positional if one is pending, else left over *)
  Definition cs_plain (s : cst) : cst :=
    match cs_pos s with
    | p :: ps => cs_with_pos s (if is_slice (a_ty p) then cs_pos s else ps)
    | [] => cs_leftover s
    end.

  (* the short-cluster walk of the prefix loop: (option found last, canarg) *)
  Fixpoint comp_short_walk (lk : lookup) (total : nat) (rs : list (nat * N * nat)) (o : option octx) (canarg : bool)
    : option octx * bool :=
    match rs with
    | [] => (o, canarg)
    | (i, r, _) :: rs' =>
      let sname := encode_rune r in
      match find_last (lk_short lk) sname with
      | None => (None, canarg)
      | Some oc =>
        if Nat.eqb i 0 && can_argument (oc_opt oc) && negb (Nat.eqb total (length sname)) then (Some oc, false)
        else comp_short_walk lk total rs' (Some oc) canarg
      end
    end.

  (* the walk over all words but the last: returns the state, the option whose value is
     being completed (if any), the remaining words and whether the parser has stopped
     recognising options and commands (after the terminator, or after the first non-option
     argument under PassAfterNonOption) *)
  Fixpoint comp_walk (fuel : nat) (args : list str) (s : cst) (opt : option octx) : cst * option octx * list str * bool :=
    match fuel with
    | O => (s, opt, args, false)
    | S f =>
      match args with
      | a :: ((_ :: _) as rest) =>
        if po_passdd po && str_eqb a (s2l "--") then
          (cs_with_pos s (skipn (length rest - 1) (cs_pos s)), None, rest, true)
        else if argument_is_option a then
          let '(islong, optname, argument) := split_option a in
          let '(o, canarg) :=
              if islong then (find_last (lk_long (cs_lk s)) optname, true)
              else comp_short_walk (cs_lk s) (length optname) (range_str optname) None true in
          match o with
          | None =>
            if po_ignore po then comp_walk f rest (cs_plain s) None     (* passed through as a plain argument *)
            else comp_walk f rest s opt
          | Some oc =>
            match argument with
            | Some _ => comp_walk f rest s opt
            | None =>
              if can_argument (oc_opt oc) && negb (o_optional (oc_opt oc)) && canarg then
                match rest with
                | _ :: ((_ :: _) as rest') => comp_walk f rest' s opt      (* pop the option's argument *)
                | _ => comp_walk f rest s (Some oc)                        (* the last word is its argument *)
                end
              else comp_walk f rest s opt
            end
          end
        else
          match find_last (lk_cmds (cs_lk s)) a with
          | None =>
            if po_passafter po then
              (cs_with_pos s (skipn (length rest) (cs_pos s)), None, rest, true)
            else comp_walk f rest (cs_plain s) None
          | Some child =>
            match cs_pos s with
            | _ :: _ => comp_walk f rest (cs_plain s) None
            | [] =>
              if negb (cs_ret s) then comp_walk f rest (cs_fill (cs_cmd s ++ [child]) (cs_ret s)) None
              else comp_walk f rest (cs_leftover s) None
            end
          end
      | _ => (s, opt, args, false)
      end
    end.

  Definition complete (args : list str) : list (str * str) :=
    let args := match args with [] => [[]] | _ => args end in
    let '(s, opt, rest, terminated) := comp_walk (S (length args)) args (cs_fill [] false) None in
    let lastarg := last rest [] in
    let ret :=
        match opt with
        | Some oc => complete_value (o_ty (oc_opt oc)) [] lastarg
        | None =>
          if negb terminated && starts_option lastarg then
            let '(prefix, islong, optname, argument) := strip_split lastarg in
            match argument, islong with
            | None, false =>
              let '(r, n) := decode_rune optname in
              let sname := encode_rune r in
              match find_last (lk_short (cs_lk s)) sname with
              | Some oc =>
                if can_argument (oc_opt oc) then complete_value (o_ty (oc_opt oc)) (prefix ++ sname) (skipn n optname)
                else complete_option_names (cs_lk s) prefix optname true
              | None => complete_option_names (cs_lk s) prefix optname true
              end
            | Some a, _ =>
              match (if islong then find_last (lk_long (cs_lk s)) optname else find_last (lk_short (cs_lk s)) optname) with
              | Some oc => complete_value (o_ty (oc_opt oc)) (prefix ++ optname ++ [61]) a
              | None => []
              end
            | None, true => complete_option_names (cs_lk s) prefix optname false
            end
          else
            match cs_pos s with
            | p :: _ => complete_value (a_ty p) [] lastarg
            | [] =>
              if negb terminated && negb (cs_ret s) then
                match cmd_at root (cs_cmd s) with
                | Some c => complete_commands c lastarg
                | None => []
                end
              else []
            end
        end in
    sort_by (fun it : str * str => fst it) ret.
End Complete.
