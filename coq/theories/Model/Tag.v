(* multitag.go: the struct-tag scanner.  Definitions only. *)
From GoFlags Require Import Base.Str Base.Utf8 Golib.Strings Golib.Strconv Model.Types.
Open Scope N_scope.

(* cache: key -> values in order of appearance.  Association list; keys are unique
   (appending to an existing key's list), so Go-map semantics are exact. *)
Definition tagmap := list (str * list str).

Fixpoint tm_add (m : tagmap) (k v : str) : tagmap :=
  match m with
  | [] => [(k, [v])]
  | (k', vs) :: m' => if str_eqb k k' then (k', vs ++ [v]) :: m' else (k', vs) :: tm_add m' k v
  end.
Fixpoint tm_many (m : tagmap) (k : str) : list str :=
  match m with
  | [] => []
  | (k', vs) :: m' => if str_eqb k k' then vs else tm_many m' k
  end.
Definition tm_get (m : tagmap) (k : str) : str := last (tm_many m k) [].
Definition tm_has (m : tagmap) (k : str) : bool := existsb (fun p => str_eqb k (fst p)) m.

Definition fmt_byte_v (c : N) : str := dec_of_N c.   (* fmt %v of a byte prints its number *)

Definition tag_err (msg : str) : err := EFlags ErrTag msg.

(* scan the quoted value: [v] starts at the opening quote; returns index of closing quote *)
Fixpoint scan_value (fuel : nat) (v : str) (i : nat) : nat + unit (* inr tt = newline *) :=
  match fuel with
  | O => inl i
  | S f =>
    match nth_error v i with
    | None => inl i
    | Some c =>
      if N.eqb c 34 then inl i
      else if N.eqb c 10 then inr tt
      else if N.eqb c 92 then scan_value f v (i + 2)
      else scan_value f v (i + 1)
    end
  end.

Fixpoint skip_spaces (v : str) : str :=
  match v with
  | 32 :: v' => skip_spaces v'
  | _ => v
  end.

Fixpoint key_end (v : str) (i : nat) : nat :=
  match v with
  | [] => i
  | c :: v' => if N.eqb c 32 || N.eqb c 58 || N.eqb c 34 then i else key_end v' (S i)
  end.

Definition bt : N := 96.  (* backtick *)

(* one iteration of the outer loop of scan; [whole] is x.value for messages *)
Fixpoint tag_scan_fuel (fuel : nat) (whole v : str) (acc : tagmap) : res tagmap :=
  match fuel with
  | O => Ok acc
  | S f =>
    match v with
    | [] => Ok acc
    | _ =>
      let v := skip_spaces v in
      match v with
      | [] => Ok acc
      | _ =>
        let i := key_end v O in
        let inv := s2l " (in `" ++ whole ++ [bt; 41] in
        match nth_error v i with
        | None => Err (tag_err (s2l "expected `:' after key name, but got end of tag" ++ inv))
        | Some c =>
          if negb (N.eqb c 58) then
            Err (tag_err (s2l "expected `:' after key name, but got `" ++ fmt_byte_v c ++ s2l "'" ++ inv))
          else
            match nth_error v (S i) with
            | None => Err (tag_err (s2l "expected `""' to start tag value at end of tag" ++ inv))
            | Some q =>
              if negb (N.eqb q 34) then
                Err (tag_err (s2l "expected `""' to start tag value, but got `" ++ fmt_byte_v q ++ s2l "'" ++ inv))
              else
                let name := firstn i v in
                let v1 := skipn (S i) v in             (* starts at the opening quote *)
                match scan_value (length v1) v1 1 with
                | inr tt => Err (tag_err (s2l "unexpected newline in tag value `" ++ name ++ s2l "'" ++ inv))
                | inl j =>
                  if Nat.leb (length v1) j then
                    Err (tag_err (s2l "expected end of tag value `""' at end of tag" ++ inv))
                  else
                    let lit := firstn (S j) v1 in
                    match unquote lit with
                    | None =>
                      Err (tag_err (s2l "Malformed value of tag `" ++ name ++ s2l ":" ++ lit ++ [bt] ++ s2l " => "
                                        ++ err_syntax ++ inv))
                    | Some val => tag_scan_fuel f whole (skipn (S j) v1) (tm_add acc name val)
                    end
                end
            end
        end
      end
    end
  end.

Definition tag_scan (tag : str) : res tagmap := tag_scan_fuel (S (length tag)) tag tag [].

(* multiTag.cached(): a tag that fails to scan yields an empty cache *)
Definition tag_cached (tag : str) : tagmap :=
  match tag_scan tag with Ok m => m | _ => [] end.
