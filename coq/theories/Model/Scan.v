(* group.go / command.go: struct scan -> declaration tree, duplicate check,
   help groups.  Definitions only. *)
From GoFlags Require Import Base.Str Base.Utf8 Golib.Strings Golib.Strconv Model.Types Model.Tag.
Open Scope N_scope.

Definition unmodelled (what : string) : str := s2l "UNMODELLED:" ++ s2l what.

Definition is_falsy (s : str) : bool :=
  str_eqb s [] || str_eqb s (s2l "false") || str_eqb s (s2l "no") || str_eqb s (s2l "0").

Fixpoint vtype_is_bool (t : vtype) : bool :=
  match t with
  | TScalar KBool | TPtr KBool => true
  | TSlice e => vtype_is_bool e
  | TFunc None _ => true
  | _ => false
  end.

Definition opt_is_bool (o : opt) : bool := vtype_is_bool (o_ty o).

(* Option.isUnmarshaler: value or its address implements Unmarshaler.  With the
   harness types this is: the field type is Custom or *Custom. *)
Definition vtype_is_unmarshaler (t : vtype) : bool :=
  match t with TScalar KCustom | TPtr KCustom => true | _ => false end.

Definition can_argument (o : opt) : bool := vtype_is_unmarshaler (o_ty o) || negb (opt_is_bool o).

Definition nonempty (s : str) : bool := match s with [] => false | _ => true end.

(* LongNameWithNamespace given the non-empty-filtered namespace path (outer first) *)
Definition long_with_ns (delim : str) (ns : list str) (long : str) : str :=
  match long with
  | [] => []
  | _ => fold_right (fun n acc => n ++ delim ++ acc) long (filter nonempty ns)
  end.

Definition opt_string (delim : str) (ns : list str) (o : opt) : str :=
  if negb (N.eqb (o_short o) 0) then
    if nonempty (o_long o)
    then 45 :: encode_rune (o_short o) ++ s2l ", --" ++ long_with_ns delim ns (o_long o)
    else 45 :: encode_rune (o_short o)
  else if nonempty (o_long o) then s2l "--" ++ long_with_ns delim ns (o_long o)
  else [].

Definition short_and_long_name (o : opt) : str :=
  (if negb (N.eqb (o_short o) 0) then 45 :: encode_rune (o_short o) else [])
  ++ (if nonempty (o_long o) then (if negb (N.eqb (o_short o) 0) then [47] else []) ++ o_long o else []).

(* ---- option construction from a leaf field *)
Definition make_opt (name : str) (m : tagmap) (ty : vtype) (fid : nat) : res (option opt) :=
  let longname := tm_get m (s2l "long") in
  let shortname := tm_get m (s2l "short") in
  if negb (nonempty longname) && negb (nonempty shortname) && negb (nonempty (tm_get m (s2l "ini-name")))
  then Ok None
  else
    let rc := rune_count shortname in
    if Nat.ltb 1 rc then
      Err (EFlags ErrShortNameTooLong
                  (s2l "short names can only be 1 character long, not `" ++ shortname ++ s2l "'"))
    else
      let short := if Nat.eqb rc 1 then fst (decode_rune shortname) else 0 in
      let o := {| o_fid := fid; o_field := name; o_short := short; o_long := longname;
                  o_desc := tm_get m (s2l "description");
                  o_default := tm_many m (s2l "default");
                  o_envkey := tm_get m (s2l "env"); o_envdelim := tm_get m (s2l "env-delim");
                  o_optional := negb (is_falsy (tm_get m (s2l "optional")));
                  o_optval := tm_many m (s2l "optional-value");
                  o_required := negb (is_falsy (tm_get m (s2l "required")));
                  o_valname := tm_get m (s2l "value-name"); o_mask := tm_get m (s2l "default-mask");
                  o_choices := tm_many m (s2l "choice");
                  o_hidden := negb (is_falsy (tm_get m (s2l "hidden")));
                  o_ininame := tm_get m (s2l "ini-name");
                  o_noini := nonempty (tm_get m (s2l "no-ini"));
                  o_unquote := negb (str_eqb (tm_get m (s2l "unquote")) (s2l "false"));
                  o_base := tm_get m (s2l "base");
                  o_ty := ty; o_is_help := false |} in
      if opt_is_bool o && tm_has m (s2l "default") then
        Err (EFlags ErrInvalidTag
                    (s2l "boolean flag `" ++ short_and_long_name o ++
                     s2l "' may not have default values, they always default to `false' and can only be turned on"))
      else Ok (Some o)
  .

(* ---- duplicate check (checkForDuplicateFlags), with the namespaces known so far *)
Record dupst := { d_longs : list (str * str); d_shorts : list (N * str); d_err : option err }.

Fixpoint assoc_str {A} (l : list (str * A)) (k : str) : option A :=
  match l with [] => None | (k', v) :: l' => if str_eqb k k' then Some v else assoc_str l' k end.
Fixpoint assoc_N {A} (l : list (N * A)) (k : N) : option A :=
  match l with [] => None | (k', v) :: l' => if N.eqb k k' then Some v else assoc_N l' k end.

(* options of one group; stops this group's walk at the first duplicate *)
Fixpoint dup_opts (delim : str) (ns : list str) (os : list opt) (st : dupst) : dupst :=
  match os with
  | [] => st
  | o :: os' =>
    let me := opt_string delim ns o in
    let st1 :=
        if nonempty (o_long o) then
          let ln := long_with_ns delim ns (o_long o) in
          match assoc_str (d_longs st) ln with
          | Some other => inr (EFlags ErrDuplicatedFlag
                (s2l "option `" ++ me ++ s2l "' uses the same long name as option `" ++ other ++ s2l "'"))
          | None => inl {| d_longs := (ln, me) :: d_longs st; d_shorts := d_shorts st; d_err := d_err st |}
          end
        else inl st in
    match st1 with
    | inr e => {| d_longs := d_longs st; d_shorts := d_shorts st; d_err := Some e |}
    | inl st1 =>
      if negb (N.eqb (o_short o) 0) then
        match assoc_N (d_shorts st1) (o_short o) with
        | Some other => {| d_longs := d_longs st1; d_shorts := d_shorts st1;
                           d_err := Some (EFlags ErrDuplicatedFlag
                (s2l "option `" ++ me ++ s2l "' uses the same short name as option `" ++ other ++ s2l "'")) |}
        | None => dup_opts delim ns os' {| d_longs := d_longs st1; d_shorts := (o_short o, me) :: d_shorts st1; d_err := d_err st1 |}
        end
      else dup_opts delim ns os' st1
    end
  end.

(* pre-order walk over the group tree; [ns] = namespaces of the groups strictly
   between the checked root and the current group, plus the current group's own *)
Fixpoint dup_group (fuel : nat) (delim : str) (ns : list str) (g : group) (st : dupst) : dupst :=
  match fuel with
  | O => st
  | S f =>
    let 'Group gi os subs := g in
    let ns' := ns ++ [g_ns gi] in
    let st := dup_opts delim ns' os st in
    fold_left (fun st sub => dup_group f delim ns' sub st) subs st
  end.

Fixpoint group_depth (g : group) : nat :=
  let 'Group _ _ subs := g in S (fold_right (fun s acc => Nat.max (group_depth s) acc) O subs).

Definition check_dups (delim : str) (g : group) : option err :=
  d_err (dup_group (group_depth g) delim [] g {| d_longs := []; d_shorts := []; d_err := None |}).

(* ---- scan accumulator *)
Record sacc := {
  sa_opts : list opt; sa_groups : list group; sa_args : list arg; sa_argsreq : bool;
  sa_cmds : list command; sa_attached : list nat }.
Definition sacc0 : sacc :=
  {| sa_opts := []; sa_groups := []; sa_args := []; sa_argsreq := false; sa_cmds := []; sa_attached := [] |}.

Definition parse_req (sreq : str) : Z * Z :=
  match sreq with
  | [] => ((-1)%Z, (-1)%Z)
  | _ =>
    match cut_byte sreq 45 with
    | (a, Some b) =>
      let r := match parse_int a 10 32 with inl z => z | inr _ => 1%Z end in
      let m := match parse_int b 10 32 with inl z => z | inr _ => (-1)%Z end in
      (r, m)
    | (_, None) =>
      (match parse_int sreq 10 32 with inl z => z | inr _ => 1%Z end, (-1)%Z)
    end
  end.

Definition field_tag (f : field) : str :=
  match f with FLeaf _ _ t _ _ => t | FStruct _ _ t _ _ _ _ => t end.

(* positional-args handler body: every field of the struct becomes an Arg *)
Fixpoint scan_positional (fs : list field) (struct_required : bool) (acc : sacc) : res sacc :=
  match fs with
  | [] => Ok acc
  | FStruct _ _ _ _ _ _ _ :: _ => Panic (unmodelled "struct field inside positional-args")
  | FLeaf name exported tag ty fid :: rest =>
    if negb exported then Panic (unmodelled "unexported positional field") else
    bind (tag_scan tag) (fun m =>
      let nm := tm_get m (s2l "positional-arg-name") in
      let '(r, mx) := parse_req (tm_get m (s2l "required")) in
      let a := {| a_fid := fid; a_name := if nonempty nm then nm else name;
                  a_desc := tm_get m (s2l "description"); a_req := r; a_max := mx; a_ty := ty;
                  a_base := tm_get m (s2l "base") |} in
      scan_positional rest struct_required
        {| sa_opts := sa_opts acc; sa_groups := sa_groups acc; sa_args := sa_args acc ++ [a];
           sa_argsreq := sa_argsreq acc || struct_required; sa_cmds := sa_cmds acc;
           sa_attached := sa_attached acc |})
  end.

Definition mk_ginfo (short long : str) : ginfo :=
  {| g_short := short; g_long := long; g_ns := []; g_envns := []; g_hidden := false; g_builtin_help := false |}.

Definition with_attached (acc : sacc) (l : list nat) : sacc :=
  {| sa_opts := sa_opts acc; sa_groups := sa_groups acc; sa_args := sa_args acc;
     sa_argsreq := sa_argsreq acc; sa_cmds := sa_cmds acc; sa_attached := l |}.

(* scanStruct over a field list.  [cmdmode]: the scan handler recognises
   positional-args / command (command context) or only group (inside a group).
   The accumulator holds what has been appended so far to g.options / g.groups
   (of the group being scanned) and to c.args / c.commands (of the command). *)
Fixpoint scan_fields (fuel : nat) (delim : str) (cmdmode : bool) (fs : list field) (acc : sacc) {struct fuel}
  : res sacc :=
  match fuel with
  | O => Panic (s2l "scan fuel")
  | S f =>
    (fix go (fs : list field) (acc : sacc) : res sacc :=
       match fs with
       | [] => Ok acc
       | FLeaf name exported tag ty fid :: rest =>
         if negb exported then go rest acc else
         bind (tag_scan tag) (fun m =>
           if nonempty (tm_get m (s2l "no-flag")) then go rest acc else
           bind (make_opt name m ty fid) (fun oo =>
             match oo with
             | None => go rest acc
             | Some o => go rest {| sa_opts := sa_opts acc ++ [o]; sa_groups := sa_groups acc;
                                    sa_args := sa_args acc; sa_argsreq := sa_argsreq acc;
                                    sa_cmds := sa_cmds acc; sa_attached := sa_attached acc |}
             end))
       | FStruct name exported tag is_ptr ptr_nil sub sid :: rest =>
         if negb exported then go rest acc else
         bind (tag_scan tag) (fun m =>
           if nonempty (tm_get m (s2l "no-flag")) then go rest acc else
           if nonempty (tm_get m (s2l "long")) || nonempty (tm_get m (s2l "short")) || nonempty (tm_get m (s2l "ini-name"))
           then Panic (unmodelled "struct-typed field that is also an option") else
           let count_before := (length (sa_opts acc) + length (sa_groups acc))%nat in
           let r : res sacc :=
             (* the handler, called at the start of the nested scanStruct *)
             if cmdmode && nonempty (tm_get m (s2l "positional-args")) then
               scan_positional sub (nonempty (tm_get m (s2l "required"))) acc
             else if cmdmode && nonempty (tm_get m (s2l "command")) then
               (* AddCommand: scan the struct as a new command *)
               bind (scan_fields f delim true sub (with_attached sacc0 (sa_attached acc))) (fun sc =>
                 let g := Group (mk_ginfo (tm_get m (s2l "description")) (tm_get m (s2l "long-description")))
                                (sa_opts sc) (sa_groups sc) in
                 match check_dups delim g with
                 | Some e => Err e
                 | None =>
                   let ci := {| c_name := tm_get m (s2l "command");
                                c_aliases := tm_many m (s2l "alias");
                                c_sub_optional := nonempty (tm_get m (s2l "subcommands-optional"));
                                c_args_required := sa_argsreq sc;
                                c_hidden := nonempty (tm_get m (s2l "hidden"));
                                c_exec := ExNone; c_usage := None; c_has_help := false |} in
                   (* Command.Hidden is the Hidden field of the embedded Group *)
                   let g := let 'Group gi os gs := g in
                            Group {| g_short := g_short gi; g_long := g_long gi; g_ns := g_ns gi; g_envns := g_envns gi;
                                     g_hidden := c_hidden ci; g_builtin_help := false |} os gs in
                   Ok {| sa_opts := sa_opts acc; sa_groups := sa_groups acc; sa_args := sa_args acc;
                         sa_argsreq := sa_argsreq acc;
                         sa_cmds := sa_cmds acc ++ [Command ci g (sa_args sc) (sa_cmds sc)];
                         sa_attached := sa_attached sc |}
                 end)
             else if nonempty (tm_get m (s2l "group")) then
               (* AddGroup on the group being scanned; inside it only group tags count *)
               bind (scan_fields f delim false sub (with_attached sacc0 (sa_attached acc))) (fun sg =>
                 let g0 := Group (mk_ginfo (tm_get m (s2l "group")) (tm_get m (s2l "description")))
                                 (sa_opts sg) (sa_groups sg) in
                 match check_dups delim g0 with
                 | Some e => Err e
                 | None =>
                   let gi := {| g_short := tm_get m (s2l "group"); g_long := tm_get m (s2l "description");
                                g_ns := tm_get m (s2l "namespace"); g_envns := tm_get m (s2l "env-namespace");
                                g_hidden := nonempty (tm_get m (s2l "hidden")); g_builtin_help := false |} in
                   Ok {| sa_opts := sa_opts acc; sa_groups := sa_groups acc ++ [Group gi (sa_opts sg) (sa_groups sg)];
                         sa_args := sa_args acc; sa_argsreq := sa_argsreq acc; sa_cmds := sa_cmds acc;
                         sa_attached := sa_attached sg |}
                 end)
             else
               (* plain nested struct: flattened into the current group *)
               scan_fields f delim cmdmode sub acc in
           bind r (fun acc' =>
             let grew := negb (Nat.eqb (length (sa_opts acc') + length (sa_groups acc'))%nat count_before) in
             let acc'' := if is_ptr && ptr_nil && grew then with_attached acc' (sid :: sa_attached acc') else acc' in
             go rest acc''))
       end) fs acc
  end.

Fixpoint field_depth (f : field) : nat :=
  match f with
  | FLeaf _ _ _ _ _ => 1%nat
  | FStruct _ _ _ _ _ sub _ => S (fold_right (fun x acc => Nat.max (field_depth x) acc) O sub)
  end.
Definition fields_depth (fs : list field) : nat :=
  S (fold_right (fun x acc => Nat.max (field_depth x) acc) O fs).

(* scanType for a data struct: scan + duplicate check of the resulting group *)
Definition scan_type (delim : str) (short long : str) (fs : list field) (attached : list nat)
  : res (group * sacc) :=
  bind (scan_fields (fields_depth fs) delim true fs (with_attached sacc0 attached)) (fun sc =>
    let g := Group (mk_ginfo short long) (sa_opts sc) (sa_groups sc) in
    match check_dups delim g with
    | Some e => Err e
    | None => Ok (g, sc)
    end).

(* ---- built-in help group *)
Definition help_opt : opt :=
  {| o_fid := 0; o_field := s2l "ShowHelp"; o_short := 104; o_long := s2l "help";
     o_desc := s2l "Show this help message"; o_default := []; o_envkey := []; o_envdelim := [];
     o_optional := false; o_optval := []; o_required := false; o_valname := []; o_mask := [];
     o_choices := []; o_hidden := false; o_ininame := []; o_noini := false; o_unquote := true;
     o_base := []; o_ty := TFunc None true; o_is_help := true |}.
Definition help_group : group :=
  Group {| g_short := s2l "Help Options"; g_long := []; g_ns := []; g_envns := []; g_hidden := false;
           g_builtin_help := true |} [help_opt] [].

Fixpoint add_help_groups (fuel : nat) (c : command) : command :=
  match fuel with
  | O => c
  | S f =>
    let 'Command ci g args subs := c in
    let 'Group gi os gs := g in
    let g' := if c_has_help ci then g else Group gi os (gs ++ [help_group]) in
    let ci' := {| c_name := c_name ci; c_aliases := c_aliases ci; c_sub_optional := c_sub_optional ci;
                  c_args_required := c_args_required ci; c_hidden := c_hidden ci; c_exec := c_exec ci;
                  c_usage := c_usage ci; c_has_help := true |} in
    Command ci' g' args (map (add_help_groups f) subs)
  end.

Fixpoint cmd_depth (c : command) : nat :=
  let 'Command _ _ _ subs := c in S (fold_right (fun s acc => Nat.max (cmd_depth s) acc) O subs).
