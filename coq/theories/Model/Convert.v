(* convert.go: convert / convertToString over model values.  Definitions only. *)
From GoFlags Require Import Base.Str Base.Utf8 Golib.Strings Golib.Strconv Model.Types Model.Tag Model.Scan.
Open Scope N_scope.

(* ---- oracle lookups (a miss is a distinguished panic, see Types.oracle_miss) *)
Fixpoint find_float (t : list (N * str * (str + str))) (bits : N) (s : str) : option (str + str) :=
  match t with
  | [] => None
  | (b, k, v) :: t' => if N.eqb b bits && str_eqb k s then Some v else find_float t' bits s
  end.
Fixpoint find_dur (t : list (str * (Z + str))) (s : str) : option (Z + str) :=
  match t with
  | [] => None
  | (k, v) :: t' => if str_eqb k s then Some v else find_dur t' s
  end.
Fixpoint find_durfmt (t : list (Z * str)) (z : Z) : option str :=
  match t with
  | [] => None
  | (k, v) :: t' => if Z.eqb k z then Some v else find_durfmt t' z
  end.

Definition get_base (base_tag : str) : Z + str :=
  match base_tag with
  | [] => inl 10%Z
  | _ => match parse_int base_tag 10 32 with
         | inl z => inl z
         | inr e => inr (num_error_msg (s2l "ParseInt") base_tag e)
         end
  end.


(* conversion of one scalar: Ok (inl value) | Ok (inr foreign-error-text) | Panic (oracle miss) *)
Definition convert_kind (orc : oracles) (base_tag : str) (val : str) (k : kind) : res (value + str) :=
  match k with
  | KCustom =>
    if has_prefix val [33] then Ok (inr (s2l "custom: rejected " ++ val))
    else Ok (inl (VStr (rev val)))
  | KDuration =>
    match find_dur (or_dur orc) val with
    | Some (inl z) => Ok (inl (VInt z))
    | Some (inr e) => Ok (inr e)
    | None => Panic (oracle_miss (s2l "dur:" ++ hex_of_str val))
    end
  | KString => Ok (inl (VStr val))
  | KComp =>
    (* harness type Comp: its only methods have pointer receivers; UnmarshalFlag rejects texts starting with an exclamation mark *)
    if has_prefix val [33] then Ok (inr (s2l "comp: rejected " ++ val))
    else Ok (inl (VStr val))
  | KBool =>
    match val with
    | [] => Ok (inl (VBool true))
    | _ => match parse_bool val with
           | Some b => Ok (inl (VBool b))
           | None => Ok (inr (num_error_msg (s2l "ParseBool") val NESyntax))
           end
    end
  | KInt i =>
    match get_base base_tag with
    | inr e => Ok (inr e)
    | inl base =>
      if ikind_signed i then
        match parse_int val base (ikind_bits i) with
        | inl z => Ok (inl (VInt z))
        | inr e => Ok (inr (num_error_msg (s2l "ParseInt") val e))
        end
      else
        match parse_uint val base (ikind_bits i) with
        | inl n => Ok (inl (VInt (Z.of_N n)))
        | inr e => Ok (inr (num_error_msg (s2l "ParseUint") val e))
        end
    end
  | KFloat b =>
    match find_float (or_float orc) b val with
    | Some (inl c) => Ok (inl (VFloat c))
    | Some (inr e) => Ok (inr e)
    | None => Panic (oracle_miss (s2l "float" ++ dec_of_N b ++ [58] ++ hex_of_str val))
    end
  end.

(* ---- value equality (reflect.DeepEqual on the supported shapes; Go map key equality) *)
Definition float_eqb (a b : str) : bool :=
  let is_zero (x : str) := str_eqb x [48] || str_eqb x [45; 48] in
  if str_eqb a (s2l "NaN") || str_eqb b (s2l "NaN") then false
  else str_eqb a b || (is_zero a && is_zero b).

Fixpoint value_eqb (fuel : nat) (a b : value) : bool :=
  match fuel with
  | O => false
  | S f =>
    match a, b with
    | VBool x, VBool y => Bool.eqb x y
    | VInt x, VInt y => Z.eqb x y
    | VStr x, VStr y => str_eqb x y
    | VFloat x, VFloat y => float_eqb x y
    | VPtr None, VPtr None => true
    | VPtr (Some x), VPtr (Some y) => value_eqb f x y
    | VSlice na la, VSlice nb lb =>
      Bool.eqb na nb && Nat.eqb (length la) (length lb) &&
      forallb (fun p : value * value => value_eqb f (fst p) (snd p)) (combine la lb)
    | VMap na la, VMap nb lb =>
      Bool.eqb na nb && Nat.eqb (length la) (length lb) &&
      forallb (fun p : value * value =>
                 existsb (fun q : value * value => value_eqb f (fst p) (fst q) && value_eqb f (snd p) (snd q)) lb) la
    | VFunc na _, VFunc nb _ => na && nb
    | _, _ => false
    end
  end.
Definition veq (a b : value) : bool := value_eqb 8 a b.

Fixpoint map_set (l : list (value * value)) (k v : value) : list (value * value) :=
  match l with
  | [] => [(k, v)]
  | (k', v') :: l' => if veq k k' then (k', v) :: l' else (k', v') :: map_set l' k v
  end.

(* convert(val, retval, options): new value of the field and an optional foreign error.
   The value may change even on error (a nil pointer is allocated before its
   pointee is converted). *)
Fixpoint convert (orc : oracles) (base_tag : str) (val : str) (ty : vtype) (cur : value) {struct ty}
  : res (value * option str) :=
  match ty with
  | TScalar k =>
    bind (convert_kind orc base_tag val k) (fun r =>
      match r with inl v => Ok (v, None) | inr e => Ok (cur, Some e) end)
  | TPtr k =>
    let inner := match cur with VPtr (Some v) => v | _ => zero_kind k end in
    bind (convert_kind orc base_tag val k) (fun r =>
      match r with
      | inl v => Ok (VPtr (Some v), None)
      | inr e => Ok (VPtr (Some inner), Some e)
      end)
  | TSlice e =>
    bind (convert orc base_tag val e (zero_value e)) (fun r =>
      match r with
      | (v, None) => Ok (match cur with VSlice _ l => VSlice false (l ++ [v]) | _ => VSlice false [v] end, None)
      | (_, Some err) => Ok (cur, Some err)
      end)
  | TMap k v =>
    let '(ks, vs) := match cut_byte val 58 with (a, Some b) => (a, b) | (a, None) => (a, []) end in
    bind (convert_kind orc base_tag ks k) (fun rk =>
      match rk with
      | inr e => Ok (cur, Some e)
      | inl kv =>
        bind (convert_kind orc base_tag vs v) (fun rv =>
          match rv with
          | inr e => Ok (cur, Some e)
          | inl vv => Ok (match cur with VMap _ l => VMap false (map_set l kv vv) | _ => VMap false [(kv, vv)] end, None)
          end)
      end)
  | TFunc _ _ => Ok (cur, None)
  end.

(* ---- convertToString: (text, optional foreign error); Panic for a nil *Custom
   marshalled, or an oracle miss *)
Definition to_string_kind (orc : oracles) (base_tag : str) (k : kind) (v : value) : res (str * option str) :=
  match k, v with
  | KCustom, VStr s => Ok (rev s, None)
  | KDuration, VInt z =>
    match find_durfmt (or_durfmt orc) z with
    | Some t => Ok (t, None)
    | None => Panic (oracle_miss (s2l "durfmt:" ++ dec_of_Z z))
    end
  | (KString | KComp), VStr s => Ok (s, None)
  | KBool, VBool b => Ok (s2l (if b then "true" else "false"), None)
  | KInt i, VInt z =>
    match get_base base_tag with
    | inr e => Ok ([], Some e)
    | inl base =>
      (* getFormatBase: base 0 renders as decimal; other illegal bases are an error *)
      let base := if Z.eqb base 0 then 10%Z else base in
      match format_int z base with
      | Some t => Ok (t, None)
      | None => Ok ([], Some (s2l "invalid base " ++ dec_of_Z base))
      end
    end
  | KFloat _, VFloat c => Ok (c, None)
  | _, _ => Panic (s2l "ill-typed value")
  end.

Fixpoint to_string_list (f : value -> res (str * option str)) (l : list value) (first : bool) (acc : str)
  : res (str * option str) :=
  match l with
  | [] => Ok (acc, None)
  | x :: l' =>
    bind (f x) (fun r =>
      match r with
      | (t, None) => to_string_list f l' false (acc ++ (if first then [] else s2l ", ") ++ t)
      | (_, Some e) => Ok ([], Some e)
      end)
  end.

Fixpoint convert_to_string (orc : oracles) (base_tag : str) (ty : vtype) (v : value) {struct ty}
  : res (str * option str) :=
  match ty, v with
  | TScalar k, _ => to_string_kind orc base_tag k v
  | TPtr KCustom, VPtr None => Panic (s2l "value method main.Custom.MarshalFlag called using nil *Custom pointer")
  | TPtr _, VPtr None => Ok ([], None)
  | TPtr k, VPtr (Some x) => to_string_kind orc base_tag k x
  | TSlice e, VSlice _ l =>
    match l with
    | [] => Ok ([], None)
    | _ => bind (to_string_list (convert_to_string orc base_tag e) l true [91]) (fun r =>
             match r with (t, None) => Ok (t ++ [93], None) | (_, Some e) => Ok ([], Some e) end)
    end
  | TMap k vk, VMap _ l =>
    (* entries rendered as key:value, then sorted (sort.Strings) *)
    (fix items (l : list (value * value)) (acc : list str) : res (str * option str) :=
       match l with
       | [] => Ok (s2l "{" ++ join (sort_strs acc) (s2l ", ") ++ s2l "}", None)
       | (a, b) :: l' =>
         bind (to_string_kind orc base_tag k a) (fun ra =>
           match ra with
           | (_, Some e) => Ok ([], Some e)
           | (ta, None) =>
             bind (to_string_kind orc base_tag vk b) (fun rb =>
               match rb with
               | (_, Some e) => Ok ([], Some e)
               | (tb, None) => items l' (acc ++ [ta ++ [58] ++ tb])
               end)
           end)
       end) l []
  | TFunc _ _, _ => Ok ([], None)
  | _, _ => Panic (s2l "ill-typed value")
  end.
