(* Deserialiser for scenarios: the correspondence check hands the model its input
   as one byte string (packed into primitive 63-bit integers, 7 bytes each, for
   fast parsing by coqc).  Part of the correspondence tooling, not of any theorem. *)
From Coq Require Import Uint63.
From GoFlags Require Import Base.Str Model.Types Model.Scenario.
Open Scope N_scope.

(* ---- unpacking *)
Definition byte_at (w : int) (k : nat) : N :=
  Z.to_N (Uint63.to_Z (Uint63.land (Uint63.lsr w (Uint63.of_Z (Z.of_nat (8 * k)))) 255%uint63)).

Definition unpack7 (w : int) : str :=
  [byte_at w 6; byte_at w 5; byte_at w 4; byte_at w 3; byte_at w 2; byte_at w 1; byte_at w 0].

(* total length first, then 7-byte big-endian words; the last word is right-aligned *)
Definition unpack (len : nat) (ws : list int) : str :=
  let all := flat_map unpack7 ws in
  let full := ((len / 7) * 7)%nat in
  let tail_len := (len - full)%nat in
  firstn full all ++ skipn (7 - tail_len) (firstn 7 (skipn full all)).

(* ---- parser combinators *)
Definition parser (A : Type) := str -> option (A * str).
Definition pret {A} (a : A) : parser A := fun s => Some (a, s).
Definition pbind {A B} (p : parser A) (f : A -> parser B) : parser B :=
  fun s => match p s with Some (a, r) => f a r | None => None end.
Notation "x <~ p ;; q" := (pbind p (fun x => q)) (at level 61, p at next level, right associativity).

Definition pbyte : parser N := fun s => match s with c :: r => Some (c, r) | [] => None end.

Fixpoint pdigits (fuel : nat) (acc : N) : parser N :=
  fun s =>
    match fuel with
    | O => None
    | S f =>
      match s with
      | 59 :: r => Some (acc, r)
      | c :: r => if N.leb 48 c && N.leb c 57 then pdigits f (acc * 10 + (c - 48)) r else None
      | [] => None
      end
    end.
Definition pN : parser N := pdigits 40 0.
Definition pnat : parser nat := n <~ pN ;; pret (N.to_nat n).
Definition pZ : parser Z :=
  fun s => match s with
           | 45 :: r => match pN r with Some (n, r') => Some ((- Z.of_N n)%Z, r') | None => None end
           | _ => match pN s with Some (n, r') => Some (Z.of_N n, r') | None => None end
           end.
Definition pbool : parser bool := c <~ pbyte ;; pret (N.eqb c 49).
Definition pstr : parser str :=
  n <~ pnat ;; (fun s => if Nat.leb n (length s) then Some (firstn n s, skipn n s) else None).

Fixpoint prep {A} (n : nat) (p : parser A) : parser (list A) :=
  match n with
  | O => pret []
  | S n' => a <~ p ;; l <~ prep n' p ;; pret (a :: l)
  end.
Definition plist {A} (p : parser A) : parser (list A) := n <~ pnat ;; prep n p.
Definition popt {A} (p : parser A) : parser (option A) :=
  c <~ pbyte ;; if N.eqb c 49 then (a <~ p ;; pret (Some a)) else pret None.
Definition ppair {A B} (p : parser A) (q : parser B) : parser (A * B) := a <~ p ;; b <~ q ;; pret (a, b).

(* ---- model types *)
Definition pikind : parser ikind :=
  c <~ pbyte ;;
  pret (match c with
        | 97 => I0 | 98 => I8 | 99 => I16 | 100 => I32 | 101 => I64
        | 102 => U0 | 103 => U8 | 104 => U16 | 105 => U32 | _ => U64 end).

Definition pkind : parser kind :=
  c <~ pbyte ;;
  match c with
  | 98 => pret KBool                           (* b *)
  | 105 => (k <~ pikind ;; pret (KInt k))       (* i *)
  | 102 => (n <~ pN ;; pret (KFloat n))         (* f *)
  | 115 => pret KString                         (* s *)
  | 100 => pret KDuration                       (* d *)
  | 99 => pret KCustom                          (* c *)
  | _ => pret KComp
  end.

Fixpoint pvtype (fuel : nat) : parser vtype :=
  match fuel with
  | O => fun _ => None
  | S f =>
    c <~ pbyte ;;
    match c with
    | 107 => (k <~ pkind ;; pret (TScalar k))                   (* k *)
    | 112 => (k <~ pkind ;; pret (TPtr k))                      (* p *)
    | 108 => (e <~ pvtype f ;; pret (TSlice e))                 (* l *)
    | 109 => (k <~ pkind ;; v <~ pkind ;; pret (TMap k v))      (* m *)
    | _ => (a <~ popt pkind ;; e <~ pbool ;; pret (TFunc a e))  (* F *)
    end
  end.

Fixpoint pvalue (fuel : nat) : parser value :=
  match fuel with
  | O => fun _ => None
  | S f =>
    c <~ pbyte ;;
    match c with
    | 98 => (b <~ pbool ;; pret (VBool b))
    | 105 => (z <~ pZ ;; pret (VInt z))
    | 115 => (s <~ pstr ;; pret (VStr s))
    | 102 => (s <~ pstr ;; pret (VFloat s))
    | 112 => (o <~ popt (pvalue f) ;; pret (VPtr o))
    | 108 => (n <~ pbool ;; l <~ plist (pvalue f) ;; pret (VSlice n l))
    | 109 => (n <~ pbool ;; l <~ plist (ppair (pvalue f) (pvalue f)) ;; pret (VMap n l))
    | _ => (n <~ pbool ;; x <~ pbool ;; pret (VFunc n x))
    end
  end.

Fixpoint pfield (fuel : nat) : parser field :=
  match fuel with
  | O => fun _ => None
  | S f =>
    c <~ pbyte ;;
    if N.eqb c 76 (* L *) then
      name <~ pstr ;; ex <~ pbool ;; tag <~ pstr ;; ty <~ pvtype 4 ;; fid <~ pnat ;;
      pret (FLeaf name ex tag ty fid)
    else
      name <~ pstr ;; ex <~ pbool ;; tag <~ pstr ;; isptr <~ pbool ;; isnil <~ pbool ;;
      fs <~ plist (pfield f) ;; sid <~ pnat ;;
      pret (FStruct name ex tag isptr isnil fs sid)
  end.
Definition pfields : parser (list field) := plist (pfield 8).

Definition pexec : parser exec_kind :=
  c <~ pbyte ;;
  match c with
  | 110 => pret ExNone
  | 111 => pret ExOk
  | _ => (m <~ pstr ;; pret (ExErr m))
  end.

Definition ppath : parser (list nat) := plist pnat.

Definition pattach : parser attach_op :=
  c <~ pbyte ;;
  if N.eqb c 71 (* G *) then
    path <~ ppath ;; short <~ pstr ;; long <~ pstr ;; fs <~ pfields ;; ns <~ pstr ;; envns <~ pstr ;; h <~ pbool ;;
    pret (AtGroup path short long fs ns envns h)
  else if N.eqb c 79 (* O *) then
    path <~ ppath ;; fs <~ pfields ;; pret (AtOption path fs)
  else
    path <~ ppath ;; name <~ pstr ;; short <~ pstr ;; long <~ pstr ;; fs <~ pfields ;; ex <~ pexec ;;
    us <~ popt pstr ;; al <~ plist pstr ;; h <~ pbool ;; so <~ pbool ;;
    pret (AtCommand path name short long fs ex us al h so).

Definition pop : parser op :=
  c <~ pbyte ;;
  match c with
  | 80 => (args <~ plist pstr ;; pret (OpParse args))                (* P *)
  | 73 => (t <~ pstr ;; d <~ pbool ;; pret (OpIni t d))              (* I *)
  | 67 => (args <~ plist pstr ;; pret (OpComplete args))             (* C *)
  | 78 => pret OpInspect                                             (* N *)
  | 72 => pret OpHelp                                                (* H *)
  | 77 => pret OpMan                                                 (* M *)
  | 65 => (a <~ pattach ;; pret (OpAttach a))                        (* A *)
  | 66 => pret OpObserve                                             (* B *)
  | 68 => (path <~ ppath ;; h <~ pbool ;; pret (OpSetHidden path h))  (* D *)
  | _ => (n <~ pN ;; pret (OpWriteIni n))                            (* W *)
  end.

Definition phandler : parser handler_kind :=
  c <~ pbyte ;;
  pret (match c with 110 => HNone | 105 => HIdentity | 100 => HDropNext | _ => HError end).

Definition pcfg : parser pconfig :=
  name <~ pstr ;;
  h <~ pbool ;; dd <~ pbool ;; ig <~ pbool ;; pr <~ pbool ;; pa <~ pbool ;;
  nsd <~ pstr ;; envd <~ pstr ;; hk <~ phandler ;; ch <~ pbool ;; usage <~ pstr ;;
  env <~ plist (ppair pstr pstr) ;; cols <~ pN ;; sd <~ pstr ;; ld <~ pstr ;;
  pret {| pc_name := name;
          pc_opts := {| po_help := h; po_passdd := dd; po_ignore := ig; po_print := pr; po_passafter := pa |};
          pc_nsdelim := nsd; pc_envdelim := envd; pc_handler := hk; pc_cmdhandler := ch; pc_usage := usage;
          pc_env := env; pc_cols := cols; pc_shortdesc := sd; pc_longdesc := ld |}.

Definition psum {A B} (p : parser A) (q : parser B) : parser (A + B) :=
  c <~ pbyte ;; if N.eqb c 49 then (a <~ p ;; pret (inl a)) else (b <~ q ;; pret (inr b)).

Definition porc : parser oracles :=
  fl <~ plist (b <~ pN ;; t <~ pstr ;; r <~ psum pstr pstr ;; pret (b, t, r)) ;;
  du <~ plist (t <~ pstr ;; r <~ psum pZ pstr ;; pret (t, r)) ;;
  df <~ plist (ppair pZ pstr) ;;
  pret {| or_float := fl; or_dur := du; or_durfmt := df |}.

Definition pscenario : parser scenario :=
  cfg <~ pcfg ;; subopt <~ pbool ;; data <~ popt pfields ;; att <~ plist pattach ;;
  init <~ plist (ppair pnat (pvalue 6)) ;; under <~ plist (ppair pnat pnat) ;; orc <~ porc ;; ops <~ plist pop ;;
  pret {| sc_cfg := cfg; sc_subopt := subopt; sc_data := data; sc_attach := att; sc_init := init;
          sc_under := under; sc_orc := orc; sc_ops := ops |}.

Definition decode_scenario (len : nat) (ws : list int) : option scenario :=
  match pscenario (unpack len ws) with
  | Some (sc, []) => Some sc
  | _ => None
  end.

Definition run_packed (len : nat) (ws : list int) : str :=
  match decode_scenario len ws with
  | Some sc => run_scenario sc
  | None => s2l "setup=DECODE-ERROR" ++ [10]
  end.
