(* closest.go: levenshtein, closestChoice.  Definitions only. *)
From GoFlags Require Import Base.Str Base.Utf8.
Open Scope nat_scope.

(* one cell of the Go dynamic programme:
     if sc == tc { d = diag } else { d = diag+1; if left < d { d = left+1 }; if up < d { d = up+1 } } *)
Definition lev_cell (eq : bool) (diag left up : nat) : nat :=
  if eq then diag else
    let d := diag + 1 in
    let d := if Nat.ltb left d then left + 1 else d in
    if Nat.ltb up d then up + 1 else d.

(* one row: [prev] is dists[i] (length |t|+1), result is dists[i+1].
   [left] is dists[i+1][j], built left to right. *)
Fixpoint lev_row_aux (sc : N) (t : list N) (prev : list nat) (left : nat) : list nat :=
  match t, prev with
  | tc :: t', diag :: ((up :: _) as prev') =>
      let d := lev_cell (N.eqb sc tc) diag left up in
      d :: lev_row_aux sc t' prev' d
  | _, _ => []
  end.
Definition lev_row (sc : N) (t : list N) (prev : list nat) : list nat :=
  match prev with
  | p0 :: _ => (p0 + 1) :: lev_row_aux sc t prev (p0 + 1)
  | [] => []
  end.

(* dists[0][j] = j *)
Definition lev_row0 (t : list N) : list nat := seq 0 (S (length t)).

Definition lev_rows (s t : list N) : list nat := fold_left (fun row sc => lev_row sc t row) s (lev_row0 t).

(* levenshtein after the fix: works on []rune(s), []rune(t) *)
Definition lev_runes (s t : list N) : nat :=
  match s, t with
  | [], _ => length t
  | _, [] => length s
  | _, _ => last (lev_rows s t) 0
  end.
Definition lev_go (s t : str) : nat := lev_runes (runes s) (runes t).

(* closestChoice: first minimum; ("",0) for no choices *)
Fixpoint closest_aux (cmd : str) (choices : list str) (best : str) (bestd : nat) : str * nat :=
  match choices with
  | [] => (best, bestd)
  | c :: cs => let l := lev_go cmd c in
               if Nat.ltb l bestd then closest_aux cmd cs c l else closest_aux cmd cs best bestd
  end.
Definition closest_choice (cmd : str) (choices : list str) : str * nat :=
  match choices with
  | [] => ([], 0)
  | c :: cs => closest_aux cmd cs c (lev_go cmd c)
  end.

(* ---- the code before the fix (kept as a record of the finding): table indexed by
   BYTE offsets delivered by range, row 0 initialised for j in [0,len t) only,
   untouched cells are 0, result read at [len s][len t] (byte lengths). *)
Definition tbl := list (list nat).
Definition tget (d : tbl) (i j : nat) : nat := nth j (nth i d []) 0.
Fixpoint lset {A} (l : list A) (k : nat) (v : A) : list A :=
  match l, k with
  | [], _ => []
  | _ :: l', O => v :: l'
  | x :: l', S k' => x :: lset l' k' v
  end.
Definition tset (d : tbl) (i j v : nat) : tbl := lset d i (lset (nth i d []) j v).

Definition lev_old (s t : str) : nat :=
  match s, t with
  | [], _ => length t
  | _, [] => length s
  | _, _ =>
    let ls := length s in let lt := length t in
    let d0 := map (fun i => i :: repeat 0 lt) (seq 0 (S ls)) in
    let d1 := fold_left (fun d j => tset d 0 j j) (seq 0 lt) d0 in
    let d2 := fold_left (fun d (x : nat * N * nat) =>
                let '(i, sc, _) := x in
                fold_left (fun d (y : nat * N * nat) =>
                  let '(j, tc, _) := y in
                  tset d (S i) (S j)
                    (lev_cell (N.eqb sc tc) (tget d i j) (tget d (S i) j) (tget d i (S j))))
                  (range_str t) d)
              (range_str s) d1 in
    tget d2 ls lt
  end.
