(* Entry points for the unit-level correspondence streams (stdlib models and small
   go-flags helpers), rendering results in the harness' text format. *)
From GoFlags Require Import Base.Str Base.Utf8 Golib.Strings Golib.Strconv Model.Types Model.Tag Model.Closest.
Open Scope N_scope.

Definition ok_err (r : str + str) : str :=
  match r with inl v => s2l "ok:" ++ v | inr e => s2l "err:" ++ hex_of_str e end.

Definition render_tagmap (m : tagmap) : str :=
  flat_map (fun p : str * list str =>
              hex_of_str (fst p) ++ [61] ++ join (map hex_of_str (snd p)) [44] ++ [59])
           (sort_by (fun p : str * list str => fst p) m).

Definition is_opt_token (t : str) : bool :=
  match t with
  | 45 :: c :: r => if negb (N.eqb c 45) then true
                    else match r with d :: _ => negb (N.eqb d 45) | [] => false end
  | _ => false
  end.

Definition fn_is (fn : str) (name : string) : bool := str_eqb fn (s2l name).

Definition run_unit (fn : str) (ss : list str) (ns : list Z) : str :=
  let s0 := nth 0 ss [] in
  let n0 := nth 0 ns 0%Z in
  let n1 := nth 1 ns 0%Z in
  if fn_is fn "lev" then dec_of_N (N.of_nat (lev_go s0 (nth 1 ss [])))
  else if fn_is fn "closest" then
    let '(c, d) := closest_choice s0 (tl ss) in hex_of_str c ++ [58] ++ dec_of_N (N.of_nat d)
  else if fn_is fn "quote" then hex_of_str (quote s0)
  else if fn_is fn "unquote" then
    ok_err (match unquote s0 with Some v => inl (hex_of_str v) | None => inr err_syntax end)
  else if fn_is fn "unquoteif" then
    ok_err (match s0 with
            | 34 :: _ => match unquote s0 with Some v => inl (hex_of_str v) | None => inr err_syntax end
            | _ => inl (hex_of_str s0)
            end)
  else if fn_is fn "quoteif" then hex_of_str (if all_print s0 then s0 else quote s0)
  else if fn_is fn "parseint" then
    ok_err (match parse_int s0 n0 (Z.to_N n1) with
            | inl z => inl (dec_of_Z z)
            | inr e => inr (num_error_msg (s2l "ParseInt") s0 e)
            end)
  else if fn_is fn "parseuint" then
    ok_err (match parse_uint s0 n0 (Z.to_N n1) with
            | inl z => inl (dec_of_N z)
            | inr e => inr (num_error_msg (s2l "ParseUint") s0 e)
            end)
  else if fn_is fn "parsebool" then
    ok_err (match parse_bool s0 with
            | Some b => inl (s2l (if b then "true" else "false"))
            | None => inr (num_error_msg (s2l "ParseBool") s0 NESyntax)
            end)
  else if fn_is fn "formatint" then
    match format_int n0 n1 with Some v => v | None => s2l "PANIC" end
  else if fn_is fn "trimspace" then hex_of_str (trim_space s0)
  else if fn_is fn "tolower" then hex_of_str (to_lower s0)
  else if fn_is fn "isopt" then s2l (if is_opt_token s0 then "true" else "false")
  else if fn_is fn "scantag" then
    match tag_scan s0 with
    | Ok m => s2l "ok:" ++ render_tagmap m
    | Err (EFlags t msg) => s2l "err:" ++ dec_of_N (errty_code t) ++ [58] ++ hex_of_str msg
    | _ => s2l "err:?"
    end
  else s2l "UNKNOWN-FN".
