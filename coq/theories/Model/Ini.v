(* ini.go: reader (readIni), application to the option tree (IniParser.parse) and
   writer (writeIni).  Definitions only. *)
From GoFlags Require Import Base.Str Base.Utf8 Golib.Strings Golib.Strconv
     Model.Types Model.Tag Model.Scan Model.Lookup Model.Convert Model.State.
Open Scope N_scope.

(* ------------------------------------------------------------------ line reading *)
(* bufio.Reader.ReadLine delivers a line as one or more chunks (isPrefix set on all
   but the last); readFullLine concatenates them. *)
Definition read_full_line (chunks : list str) : str := concat chunks.

(* physical lines of a byte string: split at '\n'; a '\r' directly before the '\n'
   is dropped; a last line without '\n' counts if it is non-empty *)
(* [cur] is the current line in reverse; rev_append is the linear-time reversal *)
Fixpoint lines_aux (s : str) (cur : str) : list str :=
  match s with
  | [] => match cur with [] => [] | _ => [rev_append cur []] end
  | 10 :: r => (match cur with 13 :: c' => rev_append c' [] | _ => rev_append cur [] end) :: lines_aux r []
  | c :: r => lines_aux r (c :: cur)
  end.
Definition ini_lines (text : str) : list str := lines_aux text [].

(* ------------------------------------------------------------------ reader *)
Record ini_entry := { ie_name : str; ie_value : str; ie_quoted : bool; ie_line : N }.

(* sections in order of first appearance; the global section "" is always first *)
Definition ini_file := list (str * list ini_entry).

Fixpoint sec_add (f : ini_file) (name : str) (e : option ini_entry) : ini_file :=
  match f with
  | [] => [(name, match e with Some x => [x] | None => [] end)]
  | (n, es) :: f' =>
    if str_eqb n name then (n, match e with Some x => es ++ [x] | None => es end) :: f'
    else (n, es) :: sec_add f' name e
  end.

Inductive line_class :=
| LSkip
| LHeader (name : str)
| LEntry (name value : str) (quoted : bool)
| LBad (msg : str).

Definition classify_line (raw : str) : line_class :=
  let line := trim_space raw in
  match line with
  | [] => LSkip
  | c :: _ =>
    if N.eqb c 59 || N.eqb c 35 then LSkip
    else if N.eqb c 91 then
      if negb (N.eqb (last line 0) 93) then LBad (s2l "malformed section header")
      else
        let name := trim_space (removelast (tl line)) in
        match name with
        | [] => LBad (s2l "empty section name")
        | _ => LHeader name
        end
    else
      match cut_byte line 61 with
      | (_, None) => LBad (s2l "malformed key=value (" ++ line ++ s2l ")")
      | (k, Some v) =>
        let name := trim_space k in
        let value := trim_space v in
        match value with
        | 34 :: _ =>
          match unquote value with
          | Some u => LEntry name u true
          | None => LBad err_syntax
          end
        | _ => LEntry name value false
        end
      end
  end.

Fixpoint read_lines (ls : list str) (lineno : N) (cursec : str) (acc : ini_file) : res ini_file :=
  match ls with
  | [] => Ok acc
  | l :: rest =>
    let lineno := lineno + 1 in
    match classify_line l with
    | LSkip => read_lines rest lineno cursec acc
    | LHeader n => read_lines rest lineno n (sec_add acc n None)
    | LEntry n v q =>
      read_lines rest lineno cursec
                 (sec_add acc cursec (Some {| ie_name := n; ie_value := v; ie_quoted := q; ie_line := lineno |}))
    | LBad m => Err (EIni lineno m)
    end
  end.

Definition read_ini (text : str) : res ini_file := read_lines (ini_lines text) 0 [] [([], [])].

(* ------------------------------------------------------------------ name resolution *)
(* Group.optionByName over the options of a group subtree (eachGroup order) *)
Fixpoint option_by_name_aux (delim : str) (ocs : list octx) (name : str) (prio : nat) (ret : option octx)
  : option octx :=
  match ocs with
  | [] => ret
  | oc :: rest =>
    let o := oc_opt oc in
    let '(prio, ret) := if str_eqb (to_lower (o_ininame o)) (to_lower name) && Nat.ltb prio 4 then (4%nat, Some oc) else (prio, ret) in
    let '(prio, ret) := if str_eqb name (o_field o) && Nat.ltb prio 3 then (3%nat, Some oc) else (prio, ret) in
    let '(prio, ret) := if str_eqb name (long_name delim oc) && Nat.ltb prio 2 then (2%nat, Some oc) else (prio, ret) in
    let '(prio, ret) := if negb (N.eqb (o_short o) 0) && str_eqb name (encode_rune (o_short o)) && Nat.ltb prio 1
                        then (1%nat, Some oc) else (prio, ret) in
    option_by_name_aux delim rest name prio ret
  end.
Definition option_by_name (delim : str) (ocs : list octx) (name : str) : option octx :=
  option_by_name_aux delim ocs name O None.

(* a group subtree together with the namespace context it sits in *)
Record gref := { gr_group : group; gr_ns : list str; gr_envns : list str }.

Definition gref_octxs (g : gref) : list octx :=
  group_octxs (group_depth (gr_group g)) (gr_ns g) (gr_envns g) (gr_group g).

(* all groups of a group tree in eachGroup order, each with its context *)
Fixpoint group_refs (fuel : nat) (ns envns : list str) (g : group) : list gref :=
  match fuel with
  | O => []
  | S f =>
    {| gr_group := g; gr_ns := ns; gr_envns := envns |} ::
    flat_map (group_refs f (ns ++ [g_ns (grp_info g)]) (envns ++ [g_envns (grp_info g)])) (grp_subs g)
  end.
Definition cmd_group_refs (c : command) : list gref :=
  let g := cmd_group c in group_refs (group_depth g) [] [] g.

(* Group.Find: last group (other than g itself) whose description matches, case-insensitively *)
Definition group_find (c : command) (name : str) : option gref :=
  let l := to_lower name in
  fold_left (fun acc gr => if str_eqb (to_lower (g_short (grp_info (gr_group gr)))) l then Some gr else acc)
            (tl (cmd_group_refs c)) None.

(* Command.groupByName *)
Fixpoint cmd_group_by_name (fuel : nat) (c : command) (name : str) : option gref :=
  match fuel with
  | O => None
  | S f =>
    let own := match name with
               | [] => hd_error (cmd_group_refs c)
               | _ => group_find c name
               end in
    match own with
    | Some g => Some g
    | None =>
      (fix subs (l : list command) : option gref :=
         match l with
         | [] => None
         | sc :: rest =>
           let prefix := c_name (cmd_info sc) ++ [46] in
           if has_prefix name prefix then
             match cmd_group_by_name f sc (skipn (length prefix) name) with
             | Some g => Some g
             | None => subs rest
             end
           else if str_eqb name (c_name (cmd_info sc)) then hd_error (cmd_group_refs sc)
           else subs rest
         end) (cmd_subs c)
    end
  end.

(* IniParser.matchingGroups *)
Definition matching_groups (root : command) (name : str) : list gref :=
  match name with
  | [] => cmd_group_refs root
  | _ => match cmd_group_by_name (cmd_depth root) root name with
         | Some g => [g]
         | None => []
         end
  end.

(* the option an entry names: first matching group in order; no-ini options are invisible *)
Fixpoint resolve_entry (delim : str) (groups : list gref) (name : str) : option octx :=
  match name with
  | [] => None                      (* an entry without a name cannot name an option *)
  | _ =>
    match groups with
    | [] => None
    | g :: rest =>
      match option_by_name delim (gref_octxs g) name with
      | Some oc => if o_noini (oc_opt oc) then resolve_entry delim rest name else Some oc
      | None => resolve_entry delim rest name
      end
    end
  end.

(* ------------------------------------------------------------------ application *)
Section Apply.
  Variable orc : oracles.
  Variable delim : str.
  Variable help_text : rt -> str.
  Variable ignore_unknown : bool.
  Variable as_defaults : bool.

  (* quotesLookup: option id -> all entries so far were quoted *)
  Definition quotes := list (nat * bool).
  Fixpoint q_get (q : quotes) (k : nat) : option bool :=
    match q with [] => None | (k', v) :: q' => if Nat.eqb k k' then Some v else q_get q' k end.
  Fixpoint q_set (q : quotes) (k : nat) (v : bool) : quotes :=
    match q with
    | [] => [(k, v)]
    | (k', v') :: q' => if Nat.eqb k k' then (k', v) :: q' else (k', v') :: q_set q' k v
    end.

  Definition fl_set_prevent (f : oflags) (p : bool) : oflags :=
    {| f_isset := f_isset f; f_isdefault := f_isdefault f; f_prevent := p; f_clearref := f_clearref f;
       f_iniquote := f_iniquote f; f_ininame := f_ininame f; f_deflit := f_deflit f |}.
  Definition fl_set_ininame (f : oflags) (n : str) : oflags :=
    {| f_isset := f_isset f; f_isdefault := f_isdefault f; f_prevent := f_prevent f; f_clearref := f_clearref f;
       f_iniquote := f_iniquote f; f_ininame := n; f_deflit := f_deflit f |}.
  Definition fl_set_iniquote (f : oflags) (q : bool) : oflags :=
    {| f_isset := f_isset f; f_isdefault := f_isdefault f; f_prevent := f_prevent f; f_clearref := f_clearref f;
       f_iniquote := q; f_ininame := f_ininame f; f_deflit := f_deflit f |}.

  (* one entry; state = (rt, quotes, defaulted ids); result None = continue *)
  Definition apply_entry (groups : list gref) (e : ini_entry) (r : rt) (q : quotes) (dfl : list nat)
    : res (rt * quotes * list nat * option err) :=
    match resolve_entry delim groups (ie_name e) with
    | None =>
      if ignore_unknown then Ok (r, q, dfl, None)
      else Ok (r, q, dfl, Some (EIni (ie_line e) (s2l "unknown option: " ++ ie_name e)))
    | Some oc =>
      let o := oc_opt oc in
      let fid := o_fid o in
      let was_defaulted := existsb (Nat.eqb fid) dfl in
      if as_defaults && f_prevent (rt_fl r fid) && negb was_defaulted then Ok (r, q, dfl, None)
      else
        let r := if as_defaults && f_prevent (rt_fl r fid) then set_fl r fid (fl_set_prevent (rt_fl r fid) false) else r in
        (* value handed to Set: nil for a no-argument option with an empty value; map values may be quoted *)
        let pv : option str + err :=
            if negb (can_argument o) && negb (nonempty (ie_value e)) then inl None
            else if is_map (o_ty o) then
              match cut_byte (ie_value e) 58 with
              | (k, Some v) =>
                match v with
                | 34 :: _ =>
                  match unquote v with
                  | Some u => inl (Some (k ++ [58] ++ u))
                  | None => inr (EIni (ie_line e) err_syntax)
                  end
                | _ => inl (Some (ie_value e))
                end
              | (_, None) => inl (Some (ie_value e))
              end
            else inl (Some (ie_value e)) in
        match pv with
        | inr er => Ok (r, q, dfl, Some er)
        | inl v =>
          let quoted := ie_quoted e ||
                        (can_argument o || nonempty (ie_value e)) && is_map (o_ty o) &&
                        match cut_byte (ie_value e) 58 with (_, Some (34 :: _)) => true | _ => false end in
          ' (r', se) <- (if as_defaults then opt_set_default orc delim help_text oc v r
                         else opt_set orc delim help_text oc v r) ;;
          match se with
          | Some er => Ok (r', q, dfl, Some (EIni (ie_line e) (err_text er)))
          | None =>
            let r' := set_fl r' fid (fl_set_prevent (rt_fl r' fid) true) in
            let q' := match q_get q fid with
                      | Some _ => if negb quoted then q_set q fid false else q
                      | None => q_set q fid quoted
                      end in
            let r' := set_fl r' fid (fl_set_ininame (rt_fl r' fid) (ie_name e)) in
            Ok (r', q', (if as_defaults then fid :: dfl else dfl), None)
          end
        end
    end.

  Fixpoint apply_entries (groups : list gref) (es : list ini_entry) (r : rt) (q : quotes) (dfl : list nat)
    : res (rt * quotes * list nat * option err) :=
    match es with
    | [] => Ok (r, q, dfl, None)
    | e :: rest =>
      ' (r', q', dfl', er) <- apply_entry groups e r q dfl ;;
      match er with
      | Some _ => Ok (r', q', dfl', er)
      | None => apply_entries groups rest r' q' dfl'
      end
    end.

  Fixpoint apply_sections (root : command) (f : ini_file) (r : rt) (q : quotes) (dfl : list nat)
    : res (rt * quotes * option err) :=
    match f with
    | [] => Ok (r, q, None)
    | (name, es) :: rest =>
      match matching_groups root name with
      | [] =>
        if ignore_unknown then apply_sections root rest r q dfl
        else Ok (r, q, Some (EFlags ErrUnknownGroup (s2l "could not find option group `" ++ name ++ s2l "'")))
      | groups =>
        ' (r', q', dfl', er) <- apply_entries groups es r q dfl ;;
        match er with
        | Some _ => Ok (r', q', er)
        | None => apply_sections root rest r' q' dfl'
        end
      end
    end.

  (* IniParser.parse: re-arm clearReferenceBeforeSet, apply, then record quoting *)
  Definition ini_apply (root : command) (f : ini_file) (r : rt) : res (rt * option err) :=
    let r := fold_left (fun r oc => let fid := o_fid (oc_opt oc) in
                                    let fl := rt_fl r fid in
                                    set_fl r fid (fl_with fl (f_isset fl) (f_isdefault fl) (f_prevent fl) true))
                       (tree_octxs root) r in
    ' (r', q, er) <- apply_sections root f r [] [] ;;
    match er with
    | Some _ => Ok (r', er)          (* quotesLookup is only applied on success *)
    | None => Ok (fold_left (fun r kv => set_fl r (fst kv) (fl_set_iniquote (rt_fl r (fst kv)) (snd kv))) q r', None)
    end.
End Apply.

(* ------------------------------------------------------------------ writer *)
Section Write.
  Variable orc : oracles.
  Variable delim : str.
  Variable include_defaults comment_defaults include_comments : bool.

  Definition kind_is_string (k : kind) : bool := match k with KString | KCustom | KComp => true | _ => false end.
  (* reflect.Kind == String of the (element) type handed to writeOption *)
  Definition write_kind_is_string (t : vtype) : bool :=
    match t with
    | TScalar k => kind_is_string k
    | TPtr k => kind_is_string k
    | TSlice (TScalar k) => kind_is_string k
    | TSlice (TPtr k) => kind_is_string k
    | TMap _ v => kind_is_string v
    | _ => false
    end.

  Definition write_option (name : str) (is_string : bool) (key value : str) (comment force_quote : bool) : str :=
    let needs_quote := negb (all_print value) || negb (str_eqb (trim_space value) value)
                       || match value with 34 :: _ => true | _ => false end in
    let value := if force_quote || (is_string && needs_quote) then quote value else value in
    (if comment then s2l "; " else []) ++ name ++ s2l " =" ++
    (if nonempty key then [32] ++ key ++ [58] ++ value
     else if nonempty value then 32 :: value else []) ++ [10].

  (* optionIniName; an option added with Group.AddOption has no struct field and is written
     under its long name (LongNameWithNamespace: such options live in the own group of a
     command, which carries no namespace in the modelled domain), else its short name *)
  Definition option_ini_name (o : opt) (fl : oflags) : str :=
    if nonempty (f_ininame fl) then f_ininame fl
    else if nonempty (o_ininame o) then o_ininame o
    else if nonempty (o_field o) then o_field o
    else if nonempty (o_long o) then o_long o
    else encode_rune (o_short o).

  (* text of convertToString, errors ignored as the writer does (`v, _ :=`) *)
  Definition cts (o : opt) (t : vtype) (v : value) : res str :=
    bind (convert_to_string orc (o_base o) t v) (fun x => Ok (fst x)).

  Fixpoint write_list (f : value -> res str) (l : list value) : res str :=
    match l with
    | [] => Ok []
    | x :: l' => bind (f x) (fun a => bind (write_list f l') (fun b => Ok (a ++ b)))
    end.

  Definition write_opt (o : opt) (r : rt) : res str :=
    let fl := rt_fl r (o_fid o) in
    let v := rt_vals r (o_fid o) in
    if is_func (o_ty o) || o_hidden o || o_noini o then Ok []
    else
      bind (opt_value_is_default orc o r) (fun isdef =>
        if negb include_defaults && isdef then Ok []
        else
          let oname := option_ini_name o fl in
          let comment := include_defaults && comment_defaults && isdef in
          let iss := write_kind_is_string (o_ty o) in
          let head := if include_comments && nonempty (o_desc o) then s2l "; " ++ o_desc o ++ [10] else [] in
          let tail := if include_comments then [10] else [] in
          bind (match o_ty o, v with
                | TSlice e, VSlice _ l =>
                  match l with
                  | [] => Ok (write_option oname iss [] [] true (f_iniquote fl))
                  | _ => write_list (fun x => bind (cts o e x) (fun t => Ok (write_option oname iss [] t comment (f_iniquote fl)))) l
                  end
                | TMap k vk, VMap _ l =>
                  match l with
                  | [] => Ok (write_option oname iss [] [] true (f_iniquote fl))
                  | _ =>
                    bind (write_list (fun kv => match kv with
                                               | VSlice _ [a; b] =>
                                                 bind (cts o (TScalar k) a) (fun ka =>
                                                 bind (cts o (TScalar vk) b) (fun vb =>
                                                   Ok (hex_of_str ka ++ [58] ++ hex_of_str vb ++ [59])))
                                               | _ => Ok []
                                               end)
                                     (map (fun kv : value * value => VSlice false [fst kv; snd kv]) l))
                         (fun packed =>
                            (* sort by the rendered key (sort.Strings) *)
                            let pairs := map (fun p => match cut_byte p 58 with
                                                       | (a, Some b) => (str_of_hex a, str_of_hex b)
                                                       | (a, None) => (str_of_hex a, [])
                                                       end)
                                             (removelast (split packed [59])) in
                            Ok (concat (map (fun kv : str * str => write_option oname iss (fst kv) (snd kv) comment (f_iniquote fl))
                                            (sort_by (fun kv : str * str => fst kv) pairs))))
                  end
                | TPtr _, VPtr None => Ok (write_option oname iss [] [] true (f_iniquote fl))   (* no value to write *)
                | t, _ => bind (cts o t v) (fun tx => Ok (write_option oname iss [] tx comment (f_iniquote fl)))
                end)
               (fun body => Ok (head ++ body ++ tail))).

  (* (text of the options, whether any option was written) *)
  Fixpoint write_opts (os : list opt) (r : rt) : res (str * bool) :=
    match os with
    | [] => Ok ([], false)
    | o :: rest =>
      bind (write_opt o r) (fun a =>
      bind (write_opts rest r) (fun b =>
        Ok (a ++ fst b, nonempty a || snd b)))
    end.

  Definition write_group (is_cmd_group : bool) (g : group) (namespace : str) (r : rt) : res str :=
    let gi := grp_info g in
    let sname := if negb is_cmd_group && nonempty (g_short gi)
                 then (if nonempty namespace then namespace ++ [46] else []) ++ g_short gi
                 else namespace in
    bind (write_opts (grp_opts g) r) (fun ow =>
      let '(body, any) := ow in
      (* the own group of the parser itself (always the first group written) belongs to the
         global section, which has no header; any other group gets its header, even an empty one *)
      Ok (if any then (if is_cmd_group && negb (nonempty sname) then [] else s2l "[" ++ sname ++ s2l "]" ++ [10]) ++ body ++
                      (if include_comments then [] else [10]) else [])).

  Fixpoint write_command (fuel : nat) (c : command) (namespace : str) (r : rt) : res str :=
    match fuel with
    | O => Ok []
    | S f =>
      let groups := cmd_groups c in
      bind ((fix go (gs : list group) (first : bool) : res str :=
               match gs with
               | [] => Ok []
               | g :: rest =>
                 bind (if g_hidden (grp_info g) then Ok [] else write_group first g namespace r) (fun a =>
                 bind (go rest false) (fun b => Ok (a ++ b)))
               end) groups true) (fun own =>
      bind ((fix subs (l : list command) : res str :=
               match l with
               | [] => Ok []
               | sc :: rest =>
                 let ci := cmd_info sc in
                 bind (if c_hidden ci then Ok []
                       else write_command f sc (if nonempty namespace then namespace ++ [46] ++ c_name ci else c_name ci) r) (fun a =>
                 bind (subs rest) (fun b => Ok (a ++ b)))
               end) (cmd_subs c)) (fun sub => Ok (own ++ sub)))
    end.

  Definition write_ini (root : command) (r : rt) : res str := write_command (cmd_depth root) root [] r.
End Write.
