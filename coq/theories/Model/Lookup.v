(* Flattened views of the declaration tree and command.makeLookup.  Definitions only. *)
From GoFlags Require Import Base.Str Base.Utf8 Golib.Strings Model.Types Model.Tag Model.Scan.
Open Scope N_scope.

(* an option together with what Go reaches through option.group...parent *)
Record octx := {
  oc_opt : opt;
  oc_ns : list str;          (* namespaces of the enclosing groups, outermost first (may contain "") *)
  oc_envns : list str;       (* env-namespaces, outermost first *)
  oc_ghidden : bool;         (* Hidden mark of the option's own group *)
  oc_gshort : str;           (* ShortDescription of the option's own group *)
  oc_builtin : bool }.       (* option's group is the built-in help group *)

(* eachGroup over a group tree (pre-order), collecting option contexts *)
Fixpoint group_octxs (fuel : nat) (ns envns : list str) (g : group) : list octx :=
  match fuel with
  | O => []
  | S f =>
    let 'Group gi os subs := g in
    let ns' := ns ++ [g_ns gi] in
    let envns' := envns ++ [g_envns gi] in
    map (fun o => {| oc_opt := o; oc_ns := ns'; oc_envns := envns'; oc_ghidden := g_hidden gi;
                     oc_gshort := g_short gi; oc_builtin := g_builtin_help gi |}) os
    ++ flat_map (group_octxs f ns' envns') subs
  end.

Definition cmd_octxs (c : command) : list octx :=
  let g := cmd_group c in group_octxs (group_depth g) [] [] g.

(* all groups of a command in eachGroup order, with the namespace context *)
Fixpoint group_list (fuel : nat) (g : group) : list group :=
  match fuel with
  | O => []
  | S f => g :: flat_map (group_list f) (grp_subs g)
  end.
Definition cmd_groups (c : command) : list group :=
  let g := cmd_group c in group_list (group_depth g) g.

(* sub-command reached by a path of child indices *)
Fixpoint cmd_at (c : command) (path : list nat) : option command :=
  match path with
  | [] => Some c
  | i :: p => match nth_error (cmd_subs c) i with
              | Some s => cmd_at s p
              | None => None
              end
  end.

(* commands from the root down to (and including) the one at [path] *)
Fixpoint cmd_chain (c : command) (path : list nat) : list command :=
  c :: match path with
       | [] => []
       | i :: p => match nth_error (cmd_subs c) i with
                   | Some s => cmd_chain s p
                   | None => []
                   end
       end.

(* eachCommand(recurse): pre-order over the command tree, with paths *)
Fixpoint all_cmds (fuel : nat) (c : command) (path : list nat) : list (list nat * command) :=
  match fuel with
  | O => []
  | S f =>
    (path, c) ::
    flat_map (fun ic : nat * command => all_cmds f (snd ic) (path ++ [fst ic]))
             (combine (seq 0 (length (cmd_subs c))) (cmd_subs c))
  end.
Definition tree_cmds (root : command) : list (list nat * command) := all_cmds (cmd_depth root) root [].

(* eachOption over the whole tree *)
Definition tree_octxs (root : command) : list octx :=
  flat_map (fun pc : list nat * command => cmd_octxs (snd pc)) (tree_cmds root).

Definition long_name (delim : str) (oc : octx) : str := long_with_ns delim (oc_ns oc) (o_long (oc_opt oc)).
Definition octx_string (delim : str) (oc : octx) : str := opt_string delim (oc_ns oc) (oc_opt oc).
Definition env_key (edelim : str) (oc : octx) : str :=
  match o_envkey (oc_opt oc) with
  | [] => []
  | k => fold_right (fun n acc => n ++ edelim ++ acc) k (filter nonempty (oc_envns oc))
  end.

(* ---- lookup tables: association lists in insertion order; Go map semantics =
   the LAST binding of a key wins *)
Record lookup := {
  lk_short : list (str * octx);
  lk_long : list (str * octx);
  lk_cmds : list (str * nat) }.    (* name or alias -> child index in the current command *)

Fixpoint assoc_last {A} (l : list (str * A)) (k : str) (acc : option A) : option A :=
  match l with
  | [] => acc
  | (k', v) :: l' => assoc_last l' k (if str_eqb k k' then Some v else acc)
  end.
Definition find_last {A} (l : list (str * A)) (k : str) : option A := assoc_last l k None.

Definition fill_opts (delim : str) (c : command) : list (str * octx) * list (str * octx) :=
  let ocs := cmd_octxs c in
  (flat_map (fun oc => if negb (N.eqb (o_short (oc_opt oc)) 0) then [(encode_rune (o_short (oc_opt oc)), oc)] else []) ocs,
   flat_map (fun oc => if nonempty (o_long (oc_opt oc)) then [(long_name delim oc, oc)] else []) ocs).

Definition fill_cmds (c : command) : list (str * nat) :=
  flat_map (fun ic : nat * command =>
              let ci := cmd_info (snd ic) in
              (c_name ci, fst ic) :: map (fun a => (a, fst ic)) (c_aliases ci))
           (combine (seq 0 (length (cmd_subs c))) (cmd_subs c)).

(* makeLookup for the command at [path]: ancestors root-first (options only), then the
   command itself (options, then its sub-commands' names and aliases) *)
Definition make_lookup (delim : str) (root : command) (path : list nat) : lookup :=
  let chain := cmd_chain root path in
  let shorts := flat_map (fun c => fst (fill_opts delim c)) chain in
  let longs := flat_map (fun c => snd (fill_opts delim c)) chain in
  {| lk_short := shorts; lk_long := longs;
     lk_cmds := match cmd_at root path with Some c => fill_cmds c | None => [] end |}.
