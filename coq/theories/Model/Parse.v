(* parser.go: ParseArgs.  Definitions only.
   [step] is one iteration of the Go loop `for !s.eof()`; [run_loop] drives it
   with fuel; [parse_args] adds the prologue and epilogue. *)
From GoFlags Require Import Base.Str Base.Utf8 Golib.Strings Golib.Strconv
     Model.Types Model.Tag Model.Scan Model.Lookup Model.Convert Model.State Model.Closest.
Open Scope N_scope.


Record pst := {
  ps_arg : str; ps_args : list str; ps_ret : list str; ps_pos : list arg;
  ps_err : option err; ps_cmd : list nat; ps_lk : lookup }.

Definition ps_with_args (s : pst) (a : str) (rest : list str) : pst :=
  {| ps_arg := a; ps_args := rest; ps_ret := ps_ret s; ps_pos := ps_pos s; ps_err := ps_err s;
     ps_cmd := ps_cmd s; ps_lk := ps_lk s |}.
Definition ps_with_err (s : pst) (e : option err) : pst :=
  {| ps_arg := ps_arg s; ps_args := ps_args s; ps_ret := ps_ret s; ps_pos := ps_pos s; ps_err := e;
     ps_cmd := ps_cmd s; ps_lk := ps_lk s |}.
Definition ps_with_retpos (s : pst) (ret : list str) (pos : list arg) : pst :=
  {| ps_arg := ps_arg s; ps_args := ps_args s; ps_ret := ret; ps_pos := pos; ps_err := ps_err s;
     ps_cmd := ps_cmd s; ps_lk := ps_lk s |}.

(* optstyle_other.go *)
Definition argument_is_option (t : str) : bool :=
  match t with
  | 45 :: c :: r => if negb (N.eqb c 45) then true
                    else match r with d :: _ => negb (N.eqb d 45) | [] => false end
  | _ => false
  end.

(* stripOptionPrefix + splitOption: (islong, name, inline argument) *)
Definition split_option (t : str) : bool * str * option str :=
  match t with
  | 45 :: 45 :: body =>
    (match cut_byte body 61 with
     | (n, Some a) => (true, n, Some a)
     | (n, None) => (true, n, None)
     end)
  | 45 :: body =>
    (* short form: split only when the first '=' directly follows the first character *)
    let n := snd (decode_rune body) in
    (match index_byte body 61 with
     | Some pos => if Nat.ltb 0 pos && Nat.eqb pos n
                   then (false, firstn pos body, Some (skipn (S pos) body))
                   else (false, body, None)
     | None => (false, body, None)
     end)
  | _ => (false, t, None)
  end.

Fixpoint vtype_is_signed (t : vtype) : bool :=
  match t with
  | TScalar (KInt i) | TPtr (KInt i) => ikind_signed i
  | TScalar (KFloat _) | TPtr (KFloat _) => true
  | TScalar KDuration | TPtr KDuration => true
  | TSlice e => vtype_is_signed e
  | _ => false
  end.

Definition is_digit (c : N) : bool := N.leb 48 c && N.leb c 57.

(* Option.isValidValue: true = acceptable as a separate-token argument *)
Definition is_valid_value (o : opt) (a : str) : bool :=
  negb (argument_is_option a) ||
  (vtype_is_signed (o_ty o) && match a with 45 :: d :: _ => is_digit d | _ => false end).

Definition has_percent (s : str) : bool := existsb (N.eqb 37) s.

Section Parse.
  Variable cfg : pconfig.
  Variable orc : oracles.
  Variable root : command.             (* declaration tree during this ParseArgs (help groups added) *)
  Variable help_text : rt -> str.

  Let delim := pc_nsdelim cfg.
  Let po := pc_opts cfg.

  Definition ostr (oc : octx) : str := octx_string delim oc.

  Definition marshal_error (oc : octx) (msg : str) : err :=
    let t := if is_func (o_ty (oc_opt oc)) then [] else vtype_name (o_ty (oc_opt oc)) in
    EFlags ErrMarshal (s2l "invalid argument for flag `" ++ ostr oc ++ s2l "'" ++
                       (if nonempty t then s2l " (expected " ++ t ++ s2l ")" else []) ++ s2l ": " ++ msg).

  Definition wrap_marshal (oc : octx) (e : err) : err :=
    match e with EFlags _ _ => e | _ => marshal_error oc (err_text e) end.

  (* parseState.addArgs *)
  Fixpoint add_args (args : list str) (s : pst) (r : rt) {struct args} : res (pst * rt * option err) :=
    match args with
    | [] => Ok (s, r, None)
    | a :: rest =>
      match ps_pos s with
      | [] => Ok (ps_with_retpos s (ps_ret s ++ args) [], r, None)
      | p :: ps' =>
        ' (v, e) <- convert orc (a_base p) a (a_ty p) (rt_vals r (a_fid p)) ;;
        let r := set_val r (a_fid p) v in
        match e with
        | Some m => let er := EForeign m in Ok (ps_with_err s (Some er), r, Some er)
        | None =>
          let s := if is_slice (a_ty p) then s else ps_with_retpos s (ps_ret s) ps' in
          add_args rest s r
        end
      end
    end.

  (* fillParseState *)
  Definition fill_parse_state (s : pst) (path : list nat) : pst :=
    {| ps_arg := ps_arg s; ps_args := ps_args s; ps_ret := ps_ret s;
       ps_pos := match cmd_at root path with Some c => cmd_args c | None => [] end;
       ps_err := ps_err s; ps_cmd := path; ps_lk := make_lookup delim root path |}.

  Definition cur_cmd (s : pst) : command :=
    match cmd_at root (ps_cmd s) with Some c => c | None => root end.

  (* parseOption *)
  Definition parse_option (oc : octx) (canarg : bool) (argument : option str) (s : pst) (r : rt)
    : res (pst * rt * option err) :=
    let o := oc_opt oc in
    let finish (s : pst) (rr : rt * option err) : res (pst * rt * option err) :=
        Ok (s, fst rr, option_map (wrap_marshal oc) (snd rr)) in
    if negb (can_argument o) then
      match argument with
      | Some _ => Ok (s, r, Some (EFlags ErrNoArgumentForBool (s2l "bool flag `" ++ ostr oc ++ s2l "' cannot have an argument")))
      | None => rr <- opt_set orc delim help_text oc None r ;; finish s rr
      end
    else
      let with_arg (s : pst) (a : str) : res (pst * rt * option err) :=
          let ua : option str :=
              if o_unquote o then
                match a with
                | 34 :: _ => unquote a
                | _ => Some a
                end
              else Some a in
          match ua with
          | None => Ok (s, r, Some (marshal_error oc err_syntax))
          | Some a' => rr <- opt_set orc delim help_text oc (Some a') r ;; finish s rr
          end in
      match argument with
      | Some a => with_arg s a
      | None =>
        match (if canarg then ps_args s else []) with
        | a :: rest =>
          let s := ps_with_args s a rest in
          if negb (is_valid_value o a) then
            let msg := s2l "expected argument for flag `" ++ ostr oc ++ s2l "', but got option `" ++ a ++ s2l "'" in
            if has_percent msg then Panic (unmodelled "percent sign in a message used as a format string")
            else Ok (s, r, Some (EFlags ErrExpectedArgument msg))
          else if po_passdd po && str_eqb a (s2l "--") then
            Ok (s, r, Some (EFlags ErrExpectedArgument
                 (s2l "expected argument for flag `" ++ ostr oc ++ s2l "', but got double dash `--'")))
          else with_arg s a
        | [] =>
          if o_optional o then
            (fix each (vs : list str) (r : rt) : res (pst * rt * option err) :=
               match vs with
               | [] => Ok (s, r, None)
               | v :: vs' =>
                 rr <- opt_set orc delim help_text oc (Some v) r ;;
                 match snd rr with
                 | Some e => finish s rr
                 | None => each vs' (fst rr)
                 end
               end) (o_optval o) (opt_empty o r)
          else Ok (s, r, Some (EFlags ErrExpectedArgument (s2l "expected argument for flag `" ++ ostr oc ++ s2l "'")))
        end
      end.

  Definition unknown_flag (name : str) : err :=
    EFlags ErrUnknownFlag (s2l "unknown flag `" ++ name ++ s2l "'").

  (* parseLong *)
  Definition parse_long (name : str) (argument : option str) (s : pst) (r : rt) : res (pst * rt * option err) :=
    match find_last (lk_long (ps_lk s)) name with
    | Some oc => parse_option oc (negb (o_optional (oc_opt oc))) argument s r
    | None => Ok (s, r, Some (unknown_flag name))
    end.

  (* splitShortConcatArg *)
  Definition split_short_concat (s : pst) (optname : str) : str * option str :=
    let '(c, n) := decode_rune optname in
    if Nat.eqb n (length optname) then (optname, None)
    else
      let first := encode_rune c in
      match find_last (lk_short (ps_lk s)) first with
      | Some oc => if can_argument (oc_opt oc) then (first, Some (skipn n optname)) else (optname, None)
      | None => (optname, None)
      end.

  (* the rune loop of parseShort over range_str optname *)
  Fixpoint short_loop (total : nat) (rs : list (nat * N * nat)) (argument : option str) (s : pst) (r : rt)
    : res (pst * rt * option err) :=
    match rs with
    | [] => Ok (s, r, None)
    | (i, c, _) :: rs' =>
      let shortname := encode_rune c in
      match find_last (lk_short (ps_lk s)) shortname with
      | Some oc =>
        let is_last := match rune_len c with Some l => Nat.eqb (i + l) total | None => false end in
        let canarg := is_last && negb (o_optional (oc_opt oc)) in
        ' (s', r', e) <- parse_option oc canarg argument s r ;;
        match e with
        | Some _ => Ok (s', r', e)
        | None => short_loop total rs' None s' r'
        end
      | None => Ok (s, r, Some (unknown_flag shortname))
      end
    end.

  Definition parse_short (optname : str) (argument : option str) (s : pst) (r : rt) : res (pst * rt * option err) :=
    let '(optname, argument) :=
        match argument with
        | None => split_short_concat s optname
        | Some _ => (optname, argument)
        end in
    short_loop (length optname) (range_str optname) argument s r.

  (* parseNonOption: returns the error it RETURNS (which only breaks the loop) *)
  Definition parse_non_option (s : pst) (r : rt) : res (pst * rt * option err) :=
    match ps_pos s with
    | _ :: _ => add_args [ps_arg s] s r
    | [] =>
      let c := cur_cmd s in
      if nonempty (map (fun _ => 0) (cmd_subs c)) && negb (nonempty (map (fun _ => 0) (ps_ret s))) then
        match find_last (lk_cmds (ps_lk s)) (ps_arg s) with
        | Some child =>
          Ok (fill_parse_state s (ps_cmd s ++ [child]), set_active r (ps_cmd s) child, None)
        | None =>
          if negb (c_sub_optional (cmd_info c)) then
            ' (s', r', _) <- add_args [ps_arg s] s r ;;
            Ok (s', r', Some (EFlags ErrUnknownCommand (s2l "Unknown command `" ++ ps_arg s ++ s2l "'")))
          else add_args [ps_arg s] s r
        end
      else add_args [ps_arg s] s r
    end.

  (* the harness' UnknownOptionHandler instances *)
  Definition run_handler (name : str) (argument : option str) (args : list str) : list str + err :=
    match pc_handler cfg with
    | HIdentity | HNone => inl args
    | HDropNext => inl (tl args)
    | HError => inr (EForeign (s2l "handler error: " ++ name))
    end.

  Inductive step_res := Continue (s : pst) (r : rt) | Break (s : pst) (r : rt).

  (* one iteration of the loop; precondition: ps_args s is non-empty *)
  Definition step (s : pst) (r : rt) : res step_res :=
    match ps_args s with
    | [] => Ok (Break s r)
    | a :: rest =>
      let s := ps_with_args s a rest in
      if po_passdd po && str_eqb a (s2l "--") then
        ' (s', r', _) <- add_args rest s r ;;
        Ok (Break (ps_with_args s' a rest) r')
      else if negb (argument_is_option a) then
        if po_passafter po && match find_last (lk_cmds (ps_lk s)) a with None => true | Some _ => false end then
          ' (s1, r1, e1) <- add_args [a] s r ;;
          match e1 with
          | Some _ => Ok (Break s1 r1)
          | None => ' (s2, r2, _) <- add_args rest s1 r1 ;; Ok (Break s2 r2)
          end
        else
          ' (s', r', e) <- parse_non_option s r ;;
          match e with
          | Some _ => Ok (Break s' r')
          | None => Ok (Continue s' r')
          end
      else
        let '(islong, optname, argument) := split_option a in
        ' (s', r', e) <- (if islong then parse_long optname argument s r else
                            (* parseShort reports the name it computed; the handler gets the split name *)
                            parse_short optname argument s r) ;;
        match e with
        | None => Ok (Continue s' r')
        | Some er =>
          let is_unknown := match er with EFlags ErrUnknownFlag _ => true | _ => false end in
          let has_handler := match pc_handler cfg with HNone => false | _ => true end in
          if negb is_unknown || (negb (po_ignore po) && negb has_handler) then
            Ok (Break (ps_with_err s' (Some er)) r')
          else if po_ignore po then
            ' (s2, r2, _) <- add_args [a] s' r' ;; Ok (Continue s2 r2)
          else
            let r' := log_unknown r' optname argument (ps_args s') in
            match run_handler optname argument (ps_args s') with
            | inr he => Ok (Break (ps_with_err s' (Some he)) r')
            | inl newargs => Ok (Continue (ps_with_args s' (ps_arg s') newargs) r')
            end
        end
    end.

  Fixpoint run_loop (fuel : nat) (s : pst) (r : rt) : res (pst * rt) :=
    match fuel with
    | O => Panic (s2l "OUT-OF-FUEL")
    | S f =>
      match ps_args s with
      | [] => Ok (s, r)
      | _ =>
        sr <- step s r ;;
        match sr with
        | Break s' r' => Ok (s', r')
        | Continue s' r' => run_loop f s' r'
        end
      end
    end.

  (* ---- after the loop *)
  Fixpoint clear_defaults (ocs : list octx) (s : pst) (r : rt) : res (pst * rt) :=
    match ocs with
    | [] => Ok (s, r)
    | oc :: ocs' =>
      ' (r', e) <- opt_clear_default orc delim help_text (pc_env cfg) (pc_envdelim cfg) oc r ;;
      let s' := match e with Some er => ps_with_err s (Some (wrap_marshal oc er)) | None => s end in
      clear_defaults ocs' s' r'
    end.

  Definition join_names (names : list str) : str :=
    join (removelast names) (s2l ", ") ++ s2l " and " ++ last names [].

  Definition slice_len (v : value) : Z := match v with VSlice _ l => Z.of_nat (length l) | _ => 0%Z end.

  Definition bq (s : str) : str := 96 :: s ++ [96].

  Definition arg_reqname (s : pst) (r : rt) (a : arg) : list str :=
    let remaining := is_slice (a_ty a) in
    let arg_required := (negb remaining && c_args_required (cmd_info (cur_cmd s)))
                        || negb (Z.eqb (a_req a) (-1)) || negb (Z.eqb (a_max a) (-1)) in
    if negb arg_required then []
    else if remaining then
      let n := slice_len (rt_vals r (a_fid a)) in
      if (n <? a_req a)%Z then
        let arguments := if (1 <? a_req a)%Z then s2l "arguments, but got only " ++ dec_of_Z n else s2l "argument" in
        [bq (a_name a ++ s2l " (at least " ++ dec_of_Z (a_req a) ++ s2l " " ++ arguments ++ s2l ")")]
      else if negb (Z.eqb (a_max a) (-1)) && (a_max a <? n)%Z then
        if Z.eqb (a_max a) 0 then [bq (a_name a ++ s2l " (zero arguments)")]
        else
          let arguments := if (1 <? a_max a)%Z then s2l "arguments, but got " ++ dec_of_Z n else s2l "argument" in
          [bq (a_name a ++ s2l " (at most " ++ dec_of_Z (a_max a) ++ s2l " " ++ arguments ++ s2l ")")]
      else []
    else [bq (a_name a)].

  Definition check_required (s : pst) (r : rt) : pst :=
    let chain := active_chain (cmd_depth root) (rt_active r) root [] in
    let missing := flat_map (fun pc : list nat * command =>
                      filter (fun oc => negb (f_isset (rt_fl r (o_fid (oc_opt oc)))) && o_required (oc_opt oc))
                             (cmd_octxs (snd pc))) chain in
    match missing with
    | [] =>
      match ps_pos s with
      | [] => s
      | pos =>
        let reqnames := flat_map (arg_reqname s r) pos in
        match reqnames with
        | [] => s
        | [n] => ps_with_err s (Some (EFlags ErrRequired (s2l "the required argument " ++ n ++ s2l " was not provided")))
        | _ => ps_with_err s (Some (EFlags ErrRequired (s2l "the required arguments " ++ join_names reqnames ++ s2l " were not provided")))
        end
      end
    | _ =>
      let names := sort_strs (map (fun oc => 96 :: ostr oc ++ [39]) missing) in
      match names with
      | [n] => ps_with_err s (Some (EFlags ErrRequired (s2l "the required flag " ++ n ++ s2l " was not specified")))
      | _ => ps_with_err s (Some (EFlags ErrRequired (s2l "the required flags " ++ join_names names ++ s2l " were not specified")))
      end
    end.

  Definition visible_sorted_names (c : command) : list str :=
    sort_strs (map (fun sc => c_name (cmd_info sc)) (filter (fun sc => negb (c_hidden (cmd_info sc))) (cmd_subs c))).

  Definition one_of (names : list str) : str :=
    join (removelast names) (s2l ", ") ++ s2l " or " ++ last names [].

  (* estimateCommand *)
  Definition estimate_command (s : pst) : err :=
    let names := visible_sorted_names (cur_cmd s) in
    match ps_ret s with
    | w :: _ =>
      let '(c, l) := closest_choice w names in
      let msg := s2l "Unknown command `" ++ w ++ s2l "'" in
      let msg :=
          if Nat.ltb (2 * l) (length c) then msg ++ s2l ", did you mean `" ++ c ++ s2l "'?"
          else match names with
               | [] => msg
               | [n] => msg ++ s2l ". You should use the " ++ n ++ s2l " command"
               | _ => msg ++ s2l ". Please specify one command of: " ++ one_of names
               end in
      EFlags ErrUnknownCommand msg
    | [] =>
      EFlags ErrCommandRequired
             match names with
             | [] => []
             | [n] => s2l "Please specify the " ++ n ++ s2l " command"
             | _ => s2l "Please specify one command of: " ++ one_of names
             end
    end.

  Record presult := { pr_ret : option (list str); pr_err : option err }.

  Definition print_error (r : rt) (e : err) : rt :=
    if po_print po then
      log_out r (match e with EFlags ErrHelp _ => true | _ => false end) (err_text e ++ [10])
    else r.

  Definition initial_pst (args : list str) : pst :=
    fill_parse_state {| ps_arg := []; ps_args := args; ps_ret := []; ps_pos := []; ps_err := None;
                        ps_cmd := []; ps_lk := {| lk_short := []; lk_long := []; lk_cmds := [] |} |} [].

  (* the argument loop, then (if no error so far) defaults for every option of the
     tree and the required check *)
  Definition parse_core (args : list str) (r : rt) : res (pst * rt) :=
    ' (s, r) <- run_loop (S (length args)) (initial_pst args) r ;;
    match ps_err s with
    | None => ' (s1, r1) <- clear_defaults (tree_octxs root) s r ;; Ok (check_required s1 r1, r1)
    | Some _ => Ok (s, r)
    end.

  (* error / missing-command diagnosis / dispatch, and the returned values *)
  Definition parse_finish (s : pst) (r : rt) : rt * presult :=
    let c := cur_cmd s in
    let '(r, reterr) :=
        match ps_err s with
        | Some e => (r, Some e)
        | None =>
          if nonempty (map (fun _ => 0) (cmd_subs c)) && negb (c_sub_optional (cmd_info c))
          then (r, Some (estimate_command s))
          else
            match c_exec (cmd_info c) with
            | ExNone => if pc_cmdhandler cfg then (log_exec r None (ps_ret s), None) else (r, None)
            | ExOk => (log_exec r (Some (ps_cmd s)) (ps_ret s), None)
            | ExErr m => (log_exec r (Some (ps_cmd s)) (ps_ret s), Some (EForeign m))
            end
        end in
    match reterr with
    | Some e =>
      let retargs := match e with
                     | EFlags ErrHelp _ => ps_args s
                     | _ => ps_arg s :: ps_args s
                     end in
      (print_error r e, {| pr_ret := Some retargs; pr_err := Some e |})
    | None => (r, {| pr_ret := Some (ps_ret s); pr_err := None |})
    end.

  (* everything after `fillParseState` *)
  Definition parse_body (args : list str) (r : rt) : res (rt * presult) :=
    ' (s, r) <- parse_core args r ;; Ok (parse_finish s r).
End Parse.
