(* C03 (unconsumed arguments are conserved, in order) and C10 (positional arguments
   bind in declaration order) on the ParseArgs model (Model/Parse.v). *)
From GoFlags Require Import Base.Str Base.Utf8 Golib.Strings Golib.Strconv
     Model.Types Model.Tag Model.Scan Model.Lookup Model.Convert Model.State Model.Closest Model.Parse.
From Coq Require Import Lia.
Open Scope N_scope.

(* in-order subsequence: nothing invented, altered, duplicated or reordered *)
Inductive subseq {A : Type} : list A -> list A -> Prop :=
| sub_nil : forall l, subseq [] l
| sub_take : forall x a b, subseq a b -> subseq (x :: a) (x :: b)
| sub_skip : forall x a b, subseq a b -> subseq a (x :: b).

(* ---- independent specification of positional binding (C10):
   tokens are assigned to the declared positional fields in declaration order;
   a slice field (always the one at the head of the queue when reached) absorbs
   every further token; tokens beyond the declared fields are left over. *)
Fixpoint bind_spec (pos : list arg) (toks : list str) : list (arg * str) * list str :=
  match toks with
  | [] => ([], [])
  | t :: toks' =>
    match pos with
    | [] => ([], toks)
    | p :: pos' =>
      let '(a, rest) := bind_spec (if is_slice (a_ty p) then pos else pos') toks' in
      ((p, t) :: a, rest)
    end
  end.

(* queue left after binding *)
Fixpoint queue_after (pos : list arg) (toks : list str) : list arg :=
  match toks with
  | [] => pos
  | _ :: toks' =>
    match pos with
    | [] => []
    | p :: pos' => queue_after (if is_slice (a_ty p) then pos else pos') toks'
    end
  end.

(* ---- subseq facts *)
Lemma subseq_refl : forall {A} (l : list A), subseq l l.
Proof. induction l; constructor; auto. Qed.

Lemma subseq_prefix : forall {A} (pre a b : list A), subseq a b -> subseq a (pre ++ b).
Proof. induction pre; simpl; intros; auto. constructor; auto. Qed.

Lemma subseq_app : forall {A} (a b c d : list A),
  subseq a b -> subseq c d -> subseq (a ++ c) (b ++ d).
Proof.
  intros A a b c d H. revert c d. induction H; intros; simpl.
  - apply subseq_prefix; auto.
  - constructor; auto.
  - constructor; auto.
Qed.

Lemma subseq_skipn : forall {A} k (l : list A), subseq (skipn k l) l.
Proof.
  induction k; intros; simpl.
  - apply subseq_refl.
  - destruct l; constructor; auto.
Qed.

Lemma subseq_skipn_cons : forall {A} k (a : A) (l : list A), subseq (skipn k [a]) (a :: l).
Proof.
  intros. destruct k; simpl.
  - constructor. constructor.
  - destruct k; constructor.
Qed.

Ltac fin H :=
  repeat match type of H with
  | Ok _ = Ok _ => inversion H; subst; clear H
  | bind ?x _ = _ => destruct x eqn:?; cbn [bind] in H; try discriminate
  | (match ?x with _ => _ end) = _ => destruct x eqn:?; try discriminate
  end.

Ltac finsr H := cbv beta iota in H; injection H as H; rewrite <- H; clear H.

Section Args.
  Variable cfg : pconfig.
  Variable orc : oracles.
  Variable root : command.
  Variable help_text : rt -> str.

  (* storing one bound token: conversion into the field's current value *)
  Definition store_binding (r : rt) (pt : arg * str) : rt :=
    let '(p, t) := pt in
    match convert orc (a_base p) t (a_ty p) (rt_vals r (a_fid p)) with
    | Ok (v, _) => set_val r (a_fid p) v
    | _ => r
    end.


  (* ---- auxiliary lemmas ------------------------------------------------------ *)
  Lemma add_args_cons : forall a rest s r,
    add_args orc (a :: rest) s r =
    match ps_pos s with
    | [] => Ok (ps_with_retpos s (ps_ret s ++ a :: rest) [], r, None)
    | p :: ps' =>
      bind (convert orc (a_base p) a (a_ty p) (rt_vals r (a_fid p))) (fun x =>
        let '(v, e) := x in
        match e with
        | Some m => Ok (ps_with_err s (Some (EForeign m)), set_val r (a_fid p) v, Some (EForeign m))
        | None => add_args orc rest (if is_slice (a_ty p) then s else ps_with_retpos s (ps_ret s) ps')
                           (set_val r (a_fid p) v)
        end)
    end.
  Proof. reflexivity. Qed.

  Lemma add_args_nil : forall s r, add_args orc [] s r = Ok (s, r, None).
  Proof. reflexivity. Qed.

  (* ---- TO PROVE ------------------------------------------------------------- *)

  (* C10: successful addArgs = the specification: fields filled in declaration order
     with the converted tokens, the rest appended to the remaining arguments in order *)
  Theorem add_args_spec : forall toks s r s' r',
    add_args orc toks s r = Ok (s', r', None) ->
    ps_ret s' = ps_ret s ++ snd (bind_spec (ps_pos s) toks) /\
    ps_pos s' = queue_after (ps_pos s) toks /\
    r' = fold_left store_binding (fst (bind_spec (ps_pos s) toks)) r /\
    ps_args s' = ps_args s /\ ps_arg s' = ps_arg s /\ ps_err s' = ps_err s /\ ps_cmd s' = ps_cmd s.
  Proof.
    induction toks as [|t toks IH]; intros s r s' r' H.
    - rewrite add_args_nil in H. inversion H; subst; clear H. simpl.
      rewrite app_nil_r. repeat split; reflexivity.
    - rewrite add_args_cons in H.
      destruct (ps_pos s) as [|p ps'] eqn:Hp.
      + inversion H; subst; clear H. simpl. repeat split; reflexivity.
      + destruct (convert orc (a_base p) t (a_ty p) (rt_vals r (a_fid p))) as [[v e]| |] eqn:Hc;
          cbn [bind] in H; try discriminate.
        destruct e as [m|]; [inversion H|].
        apply IH in H.
        cbn [bind_spec queue_after].
        destruct (is_slice (a_ty p)).
        * rewrite Hp in H.
          destruct (bind_spec (p :: ps') toks) as [bs rest] eqn:Hb.
          cbn [fst snd] in *. cbn [fold_left store_binding]. rewrite Hc. exact H.
        * cbn [ps_with_retpos ps_ret ps_pos ps_args ps_arg ps_err ps_cmd] in H.
          destruct (bind_spec ps' toks) as [bs rest] eqn:Hb.
          cbn [fst snd] in *. cbn [fold_left store_binding]. rewrite Hc. exact H.
  Qed.

  (* binding is compositional: it does not matter in how many calls (i.e. with which
     options interleaved between them) the tokens arrive *)
  Theorem add_args_app : forall a b s r,
    add_args orc (a ++ b) s r =
    match add_args orc a s r with
    | Ok (s1, r1, None) => add_args orc b s1 r1
    | other => other
    end.
  Proof.
    induction a as [|x a IH]; intros b s r.
    - reflexivity.
    - change ((x :: a) ++ b) with (x :: (a ++ b)). rewrite !add_args_cons.
      destruct (ps_pos s) as [|p ps'] eqn:Hp.
      + destruct b as [|y b].
        * rewrite app_nil_r. reflexivity.
        * rewrite add_args_cons. cbn [ps_with_retpos ps_pos ps_ret].
          unfold ps_with_retpos; cbn. rewrite <- app_assoc. reflexivity.
      + destruct (convert orc (a_base p) x (a_ty p) (rt_vals r (a_fid p))) as [[v e]| |];
          cbn [bind]; try reflexivity.
        destruct e; [reflexivity|]. apply IH.
  Qed.

  (* a failed conversion stops binding at that token with the error recorded *)
  Theorem add_args_error : forall toks s r s' r' e,
    add_args orc toks s r = Ok (s', r', Some e) ->
    ps_err s' = Some e /\ exists m, e = EForeign m.
  Proof.
    induction toks as [|t toks IH]; intros s r s' r' e H.
    - rewrite add_args_nil in H. inversion H.
    - rewrite add_args_cons in H.
      destruct (ps_pos s) as [|p ps'] eqn:Hp.
      + inversion H.
      + destruct (convert orc (a_base p) t (a_ty p) (rt_vals r (a_fid p))) as [[v e0]| |];
          cbn [bind] in H; try discriminate.
        destruct e0 as [m|].
        * inversion H; subst; clear H. split; [reflexivity|]. eexists; reflexivity.
        * eapply IH; eauto.
  Qed.

  (* the parts of the state addArgs never touches *)
  Lemma add_args_frame : forall toks s r s' r' e,
    add_args orc toks s r = Ok (s', r', e) ->
    ps_args s' = ps_args s /\ ps_arg s' = ps_arg s /\ ps_cmd s' = ps_cmd s /\ ps_lk s' = ps_lk s.
  Proof.
    induction toks as [|t toks IH]; intros s r s' r' e H.
    - rewrite add_args_nil in H. inversion H; subst. auto.
    - rewrite add_args_cons in H.
      destruct (ps_pos s) as [|p ps'] eqn:Hp.
      + inversion H; subst. auto.
      + destruct (convert orc (a_base p) t (a_ty p) (rt_vals r (a_fid p))) as [[v e0]| |];
          cbn [bind] in H; try discriminate.
        destruct e0 as [m|].
        * inversion H; subst; clear H. auto.
        * apply IH in H. destruct (is_slice (a_ty p)); exact H.
  Qed.

  (* what addArgs appends is a suffix of its input: the first k tokens went to positionals *)
  Corollary add_args_ret_suffix : forall toks s r s' r' e,
    add_args orc toks s r = Ok (s', r', e) ->
    exists k, ps_ret s' = ps_ret s ++ skipn k toks.
  Proof.
    induction toks as [|t toks IH]; intros s r s' r' e H.
    - rewrite add_args_nil in H. inversion H; subst. exists O. simpl. rewrite app_nil_r. reflexivity.
    - rewrite add_args_cons in H.
      destruct (ps_pos s) as [|p ps'] eqn:Hp.
      + inversion H; subst. exists O. reflexivity.
      + destruct (convert orc (a_base p) t (a_ty p) (rt_vals r (a_fid p))) as [[v e0]| |];
          cbn [bind] in H; try discriminate.
        destruct e0 as [m|].
        * inversion H; subst; clear H. exists (S (length toks)). cbn [skipn].
          rewrite skipn_all, app_nil_r. reflexivity.
        * apply IH in H. destruct H as [k H]. exists (S k). cbn [skipn].
          destruct (is_slice (a_ty p)); exact H.
  Qed.

  (* ---- C03: pass-through rules, one loop iteration each ---------------------- *)
  Lemma dd_eqb : str_eqb (s2l "--") (s2l "--") = true.
  Proof. reflexivity. Qed.

  (* step on a non-empty argument list, by cases *)
  Lemma step_dd : forall s r a rest,
    ps_args s = a :: rest ->
    (po_passdd (pc_opts cfg) && str_eqb a (s2l "--")) = true ->
    step cfg orc root help_text s r =
    bind (add_args orc rest (ps_with_args s a rest) r) (fun x =>
      let '(s', r', _) := x in Ok (Break (ps_with_args s' a rest) r')).
  Proof.
    intros s r a rest Ha Hd. unfold step. rewrite Ha. cbv zeta. rewrite Hd. reflexivity.
  Qed.

  Lemma step_pass_after : forall s r a rest,
    ps_args s = a :: rest ->
    (po_passdd (pc_opts cfg) && str_eqb a (s2l "--")) = false ->
    argument_is_option a = false ->
    po_passafter (pc_opts cfg) = true ->
    find_last (lk_cmds (ps_lk s)) a = None ->
    step cfg orc root help_text s r =
    bind (add_args orc [a] (ps_with_args s a rest) r) (fun x =>
      let '(s1, r1, e1) := x in
      match e1 with
      | Some _ => Ok (Break s1 r1)
      | None => bind (add_args orc rest s1 r1) (fun y => let '(s2, r2, _) := y in Ok (Break s2 r2))
      end).
  Proof.
    intros s r a rest Ha Hd Ho Hp Hf. unfold step. rewrite Ha. cbv zeta. rewrite Hd, Ho, Hp.
    cbn [negb andb ps_with_args ps_lk]. rewrite Hf. reflexivity.
  Qed.

  (* `--` with PassDoubleDash: the untouched tail goes through addArgs, the loop stops *)
  Theorem C03_terminator : forall s r rest s' r',
    po_passdd (pc_opts cfg) = true ->
    ps_args s = s2l "--" :: rest ->
    step cfg orc root help_text s r = Ok (Break s' r') ->
    exists k, ps_ret s' = ps_ret s ++ skipn k rest.
  Proof.
    intros s r rest s' r' Hdd Ha H.
    rewrite (step_dd s r _ _ Ha) in H by (rewrite Hdd, dd_eqb; reflexivity).
    destruct (add_args orc rest (ps_with_args s (s2l "--") rest) r) as [[[s1 r1] e1]| |] eqn:Hadd;
      cbn [bind] in H; try discriminate.
    inversion H; subst; clear H.
    apply add_args_ret_suffix in Hadd. exact Hadd.
  Qed.

  Theorem C03_terminator_always_breaks : forall s r rest,
    po_passdd (pc_opts cfg) = true ->
    ps_args s = s2l "--" :: rest ->
    forall s' r', step cfg orc root help_text s r <> Ok (Continue s' r').
  Proof.
    intros s r rest Hdd Ha s' r' H.
    rewrite (step_dd s r _ _ Ha) in H by (rewrite Hdd, dd_eqb; reflexivity).
    destruct (add_args orc rest (ps_with_args s (s2l "--") rest) r) as [[[s1 r1] e1]| |];
      cbn [bind] in H; discriminate.
  Qed.

  (* PassAfterNonOption: from the first non-option, non-command token on, everything
     is passed through *)
  Theorem C03_pass_after : forall s r a rest s' r',
    po_passafter (pc_opts cfg) = true ->
    ps_args s = a :: rest ->
    (po_passdd (pc_opts cfg) && str_eqb a (s2l "--")) = false ->
    argument_is_option a = false ->
    find_last (lk_cmds (ps_lk s)) a = None ->
    step cfg orc root help_text s r = Ok (Break s' r') ->
    ps_err s' = None ->
    exists k, ps_ret s' = ps_ret s ++ skipn k (a :: rest).
  Proof.
    intros s r a rest s' r' Hpa Ha Hd Ho Hf H Herr.
    rewrite (step_pass_after s r a rest Ha Hd Ho Hpa Hf) in H.
    pose proof (add_args_app [a] rest (ps_with_args s a rest) r) as Happ.
    destruct (add_args orc [a] (ps_with_args s a rest) r) as [[[s1 r1] e1]| |] eqn:H1;
      cbn [bind] in H; try discriminate.
    destruct e1 as [e1|].
    - inversion H; subst; clear H. apply add_args_error in H1. destruct H1 as [H1 _].
      rewrite H1 in Herr. discriminate.
    - destruct (add_args orc rest s1 r1) as [[[s2 r2] e2]| |] eqn:H2;
        cbn [bind] in H; try discriminate.
      inversion H; subst; clear H.
      apply add_args_ret_suffix in Happ. exact Happ.
  Qed.

  (* ---- C03: conservation over the whole loop --------------------------------- *)
  (* option parsing never touches the remaining arguments and only consumes pending tokens *)
  Definition opt_frame (s s' : pst) : Prop :=
    ps_ret s' = ps_ret s /\ exists pre, ps_args s = pre ++ ps_args s'.

  Lemma opt_frame_refl : forall s, opt_frame s s.
  Proof. intros; split; [reflexivity|exists []; reflexivity]. Qed.

  Lemma opt_frame_trans : forall a b c, opt_frame a b -> opt_frame b c -> opt_frame a c.
  Proof.
    intros a b c [R1 [p1 A1]] [R2 [p2 A2]]. split; [congruence|].
    exists (p1 ++ p2). rewrite A1, A2, app_assoc. reflexivity.
  Qed.

  Lemma opt_frame_take : forall s a rest, ps_args s = a :: rest -> opt_frame s (ps_with_args s a rest).
  Proof. intros s a rest H. split; [reflexivity|]. exists [a]. exact H. Qed.

  Lemma parse_option_frame : forall oc canarg argument s r s' r' e,
    parse_option cfg orc help_text oc canarg argument s r = Ok (s', r', e) -> opt_frame s s'.
  Proof.
    intros oc canarg argument s r s' r' e H.
    unfold parse_option in H. cbv zeta in H.
    destruct (negb (can_argument (oc_opt oc))).
    - fin H; apply opt_frame_refl.
    - destruct argument as [a|].
      + fin H; apply opt_frame_refl.
      + destruct (if canarg then ps_args s else []) as [|a rest] eqn:Hargs.
        * destruct (o_optional (oc_opt oc)); [|fin H; apply opt_frame_refl].
          revert H. generalize (opt_empty (oc_opt oc) r). generalize (o_optval (oc_opt oc)).
          induction l as [|v vs IH]; intros r0 H.
          -- fin H. apply opt_frame_refl.
          -- cbv beta iota in H.
             destruct (opt_set orc (pc_nsdelim cfg) help_text oc (Some v) r0) as [rr| |];
               cbn [bind] in H; try discriminate.
             destruct (snd rr).
             ++ fin H. apply opt_frame_refl.
             ++ eapply IH; eauto.
        * assert (Ha : ps_args s = a :: rest) by (destruct canarg; [exact Hargs|discriminate]).
          fin H; apply opt_frame_take; exact Ha.
  Qed.

  (* without an unknown-option handler (which may rewrite the argument list), the
     loop only ever appends to the remaining arguments an in-order subsequence of the
     tokens still pending *)
  Lemma parse_long_frame : forall name argument s r s' r' e,
    parse_long cfg orc help_text name argument s r = Ok (s', r', e) -> opt_frame s s'.
  Proof.
    intros name argument s r s' r' e H. unfold parse_long in H.
    destruct (find_last (lk_long (ps_lk s)) name) as [oc|].
    - eapply parse_option_frame; eauto.
    - fin H. apply opt_frame_refl.
  Qed.

  Lemma short_loop_frame : forall total rs argument s r s' r' e,
    short_loop cfg orc help_text total rs argument s r = Ok (s', r', e) -> opt_frame s s'.
  Proof.
    induction rs as [|[[i c] n] rs IH]; intros argument s r s' r' e H.
    - cbn [short_loop] in H. fin H. apply opt_frame_refl.
    - cbn [short_loop] in H. cbv zeta in H.
      destruct (find_last (lk_short (ps_lk s)) (encode_rune c)) as [oc|].
      + match type of H with bind ?x _ = _ => destruct x as [[[s1 r1] e1]| |] eqn:Hpo end;
          cbn [bind] in H; try discriminate.
        apply parse_option_frame in Hpo.
        destruct e1.
        * fin H. exact Hpo.
        * eapply opt_frame_trans; [exact Hpo|]. eapply IH; eauto.
      + fin H. apply opt_frame_refl.
  Qed.

  Lemma parse_short_frame : forall optname argument s r s' r' e,
    parse_short cfg orc help_text optname argument s r = Ok (s', r', e) -> opt_frame s s'.
  Proof.
    intros optname argument s r s' r' e H. unfold parse_short in H.
    destruct (match argument with
              | Some _ => (optname, argument)
              | None => split_short_concat s optname
              end) as [o a].
    eapply short_loop_frame; eauto.
  Qed.

  Lemma parse_non_option_frame : forall s r s' r' e,
    parse_non_option cfg orc root s r = Ok (s', r', e) ->
    ps_args s' = ps_args s /\ exists k, ps_ret s' = ps_ret s ++ skipn k [ps_arg s].
  Proof.
    assert (A : forall s r s' r' e, add_args orc [ps_arg s] s r = Ok (s', r', e) ->
                ps_args s' = ps_args s /\ exists k, ps_ret s' = ps_ret s ++ skipn k [ps_arg s]).
    { intros s r s' r' e H. split.
      - apply add_args_frame in H. tauto.
      - eapply add_args_ret_suffix; eauto. }
    intros s r s' r' e H. unfold parse_non_option in H.
    destruct (ps_pos s); [|eapply A; eauto].
    match type of H with (if ?c then _ else _) = _ => destruct c end; [|eapply A; eauto].
    destruct (find_last (lk_cmds (ps_lk s)) (ps_arg s)) as [child|].
    - fin H. split; [reflexivity|]. exists 1%nat. cbn. rewrite app_nil_r. reflexivity.
    - match type of H with (if ?c then _ else _) = _ => destruct c end; [|eapply A; eauto].
      destruct (add_args orc [ps_arg s] s r) as [[[s1 r1] e1]| |] eqn:Ha; cbn [bind] in H; try discriminate.
      fin H. eapply A; eauto.
  Qed.

  Definition step_post (args ret : list str) (sr : step_res) : Prop :=
    match sr with
    | Continue s' _ =>
      exists pre m, args = pre ++ ps_args s' /\ ps_ret s' = ret ++ m /\ subseq m pre
    | Break s' _ => exists m, ps_ret s' = ret ++ m /\ subseq m args
    end.

  Lemma step_frame : forall s r sr,
    pc_handler cfg = HNone ->
    step cfg orc root help_text s r = Ok sr -> step_post (ps_args s) (ps_ret s) sr.
  Proof.
    intros s r sr Hh H. unfold step in H.
    destruct (ps_args s) as [|a rest] eqn:Ha.
    { finsr H. exists []. rewrite app_nil_r. split; [reflexivity|constructor]. }
    cbv zeta in H.
    destruct (po_passdd (pc_opts cfg) && str_eqb a (s2l "--")).
    { destruct (add_args orc rest (ps_with_args s a rest) r) as [[[s1 r1] e1]| |] eqn:H1;
        cbn [bind] in H; try discriminate.
      finsr H. apply add_args_ret_suffix in H1. destruct H1 as [k H1].
      exists (skipn k rest). split; [exact H1|]. constructor. apply subseq_skipn. }
    destruct (negb (argument_is_option a)).
    { match type of H with (if ?c then _ else _) = _ => destruct c end.
      - pose proof (add_args_app [a] rest (ps_with_args s a rest) r) as Happ.
        destruct (add_args orc [a] (ps_with_args s a rest) r) as [[[s1 r1] e1]| |] eqn:H1;
          cbn [bind] in H; try discriminate.
        destruct e1 as [e1|].
        + finsr H. apply add_args_ret_suffix in H1. destruct H1 as [k H1].
          exists (skipn k [a]). split; [exact H1|]. apply subseq_skipn_cons.
        + destruct (add_args orc rest s1 r1) as [[[s2 r2] e2]| |] eqn:H2;
            cbn [bind] in H; try discriminate.
          finsr H. apply add_args_ret_suffix in Happ. destruct Happ as [k Happ].
          exists (skipn k (a :: rest)). split; [exact Happ|]. apply subseq_skipn.
      - destruct (parse_non_option cfg orc root (ps_with_args s a rest) r) as [[[s1 r1] e1]| |] eqn:H1;
          cbn [bind] in H; try discriminate.
        apply parse_non_option_frame in H1. destruct H1 as [HA [k HR]].
        cbn [ps_with_args ps_args ps_ret ps_arg] in HA, HR.
        destruct e1; finsr H.
        + exists (skipn k [a]). split; [exact HR|]. apply subseq_skipn_cons.
        + exists [a], (skipn k [a]). rewrite HA. split; [reflexivity|].
          split; [exact HR|]. apply subseq_skipn. }
    destruct (split_option a) as [[islong optname] argument].
    assert (HF : forall s1 r1 e1,
               (if islong then parse_long cfg orc help_text optname argument (ps_with_args s a rest) r
                else parse_short cfg orc help_text optname argument (ps_with_args s a rest) r)
               = Ok (s1, r1, e1) -> opt_frame (ps_with_args s a rest) s1).
    { intros s1 r1 e1 H1. destruct islong.
      - eapply parse_long_frame; eauto.
      - eapply parse_short_frame; eauto. }
    match type of H with bind ?x _ = _ => destruct x as [[[s1 r1] e1]| |] eqn:H1 end;
      cbn [bind] in H; try discriminate.
    specialize (HF _ _ _ eq_refl). destruct HF as [HR [pre HA]].
    cbn [ps_with_args ps_args ps_ret] in HR, HA.
    destruct e1 as [er|].
    - cbv zeta in H. rewrite Hh in H.
      match type of H with (if ?c then _ else _) = _ => destruct c eqn:Hc end.
      + finsr H. exists []. cbn [ps_with_err ps_ret]. rewrite app_nil_r.
        split; [exact HR|constructor].
      + destruct (po_ignore (pc_opts cfg)) eqn:Hi.
        * destruct (add_args orc [a] s1 r1) as [[[s2 r2] e2]| |] eqn:H2;
            cbn [bind] in H; try discriminate.
          finsr H. pose proof (add_args_frame _ _ _ _ _ _ H2) as [HA2 _].
          apply add_args_ret_suffix in H2. destruct H2 as [k H2].
          exists (a :: pre), (skipn k [a]). rewrite HA2, HA. split; [reflexivity|].
          rewrite H2, HR. split; [reflexivity|]. apply subseq_skipn_cons.
        * exfalso. cbn in Hc. rewrite Bool.orb_true_r in Hc. discriminate.
    - finsr H. exists (a :: pre), []. rewrite HA, app_nil_r. split; [reflexivity|].
      split; [exact HR|constructor].
  Qed.

  Theorem run_loop_subseq : forall fuel s r s' r',
    pc_handler cfg = HNone ->
    run_loop cfg orc root help_text fuel s r = Ok (s', r') ->
    exists mid, ps_ret s' = ps_ret s ++ mid /\ subseq mid (ps_args s).
  Proof.
    induction fuel as [|f IH]; intros s r s' r' Hh H.
    - discriminate.
    - cbn [run_loop] in H.
      destruct (ps_args s) as [|a rest] eqn:Ha.
      + fin H. exists []. rewrite app_nil_r. split; [reflexivity|constructor].
      + rewrite <- Ha.
        destruct (step cfg orc root help_text s r) as [sr| |] eqn:Hs; cbn [bind] in H; try discriminate.
        apply step_frame in Hs; [|exact Hh].
        destruct sr as [s1 r1|s1 r1]; cbn [step_post] in Hs.
        * destruct Hs as [pre [m [HA [HR HS]]]].
          apply IH in H; [|exact Hh]. destruct H as [mid [HR2 HS2]].
          exists (m ++ mid). rewrite HR2, HR, HA, app_assoc. split; [reflexivity|].
          apply subseq_app; assumption.
        * fin H. exact Hs.
  Qed.

  Lemma clear_defaults_ret : forall ocs s r s' r',
    clear_defaults cfg orc help_text ocs s r = Ok (s', r') -> ps_ret s' = ps_ret s.
  Proof.
    induction ocs as [|oc ocs IH]; intros s r s' r' H.
    - cbn [clear_defaults] in H. fin H. reflexivity.
    - cbn [clear_defaults] in H.
      match type of H with bind ?x _ = _ => destruct x as [[r1 e1]| |] end;
        cbn [bind] in H; try discriminate.
      apply IH in H. rewrite H. destruct e1; reflexivity.
  Qed.

  Lemma check_required_ret : forall s r, ps_ret (check_required cfg root s r) = ps_ret s.
  Proof.
    intros s r. unfold check_required. cbv zeta.
    repeat match goal with
           | |- ps_ret (match ?x with _ => _ end) = _ => destruct x
           end; reflexivity.
  Qed.

  Theorem C03_subseq_main : forall args r s' r',
    pc_handler cfg = HNone ->
    parse_core cfg orc root help_text args r = Ok (s', r') ->
    subseq (ps_ret s') args.
  Proof.
    intros args r s' r' Hh H. unfold parse_core in H.
    destruct (run_loop cfg orc root help_text (S (length args)) (initial_pst cfg root args) r)
      as [[s1 r1]| |] eqn:Hl; cbn [bind] in H; try discriminate.
    apply run_loop_subseq in Hl; [|exact Hh]. destruct Hl as [mid [HR HS]].
    cbn in HR, HS. subst mid.
    destruct (ps_err s1).
    - fin H. exact HS.
    - destruct (clear_defaults cfg orc help_text (tree_octxs root) s1 r1) as [[s2 r2]| |] eqn:Hc;
        cbn [bind] in H; try discriminate.
      fin H. rewrite check_required_ret.
      apply clear_defaults_ret in Hc. rewrite Hc. exact HS.
  Qed.
End Args.

Print Assumptions add_args_spec.
Print Assumptions add_args_app.
Print Assumptions add_args_error.
Print Assumptions add_args_ret_suffix.
Print Assumptions C03_terminator.
Print Assumptions C03_terminator_always_breaks.
Print Assumptions C03_pass_after.
Print Assumptions run_loop_subseq.
Print Assumptions C03_subseq_main.
