(* Auxiliary lemmas for ParseFrame.v, part 1: a weakest-precondition style predicate
   over the [res] monad, the classification of panic tags, the "logs untouched"
   preorder, and specifications of Convert.v / State.v operations. *)
From GoFlags Require Import Base.Str Base.Utf8 Golib.Strings Golib.Strconv
     Model.Types Model.Tag Model.Scan Model.Lookup Model.Convert Model.State.
From Coq Require Import Lia.
Open Scope N_scope.

(* ------------------------------------------------------------------ panic tags *)
(* same body as ParseFrame.benign_panic *)
Definition benign (t : str) : Prop :=
  has_prefix t (s2l "ORACLE-MISS:") = true \/ has_prefix t (s2l "UNMODELLED:") = true \/
  t = s2l "reflect: call of nil function" \/
  t = s2l "reflect: Call with too few input arguments" \/
  t = s2l "call on non-func" \/
  t = s2l "ill-typed value" \/ t = s2l "ill-typed map entry" \/
  t = s2l "value method main.Custom.MarshalFlag called using nil *Custom pointer".

Lemma benign_oracle : forall w, benign (oracle_miss w).
Proof. intros w; left; destruct w; reflexivity. Qed.
Lemma benign_unmodelled : forall w, benign (unmodelled w).
Proof. intros w; right; left; unfold unmodelled; destruct (s2l w); reflexivity. Qed.
Lemma benign_nilfunc : benign (s2l "reflect: call of nil function").
Proof. right; right; left; reflexivity. Qed.
Lemma benign_fewargs : benign (s2l "reflect: Call with too few input arguments").
Proof. right; right; right; left; reflexivity. Qed.
Lemma benign_nonfunc : benign (s2l "call on non-func").
Proof. right; right; right; right; left; reflexivity. Qed.
Lemma not_benign_fuel : ~ benign (s2l "OUT-OF-FUEL").
Proof.
  unfold benign; intros [H|[H|[H|[H|[H|[H|[H|H]]]]]]]; cbv in H; discriminate H.
Qed.

(* ------------------------------------------------------------------ wp over res *)
Definition wp {A} (P : str -> Prop) (x : res A) (Q : A -> Prop) : Prop :=
  match x with Ok a => Q a | Err _ => True | Panic t => P t end.

Lemma wp_bind {A B} P (a : res A) (f : A -> res B) Q :
  wp P a (fun x => wp P (f x) Q) -> wp P (bind a f) Q.
Proof. destruct a; simpl; auto. Qed.

Lemma wp_mono {A} (P P' : str -> Prop) (a : res A) (Q Q' : A -> Prop) :
  wp P a Q -> (forall t, P t -> P' t) -> (forall x, Q x -> Q' x) -> wp P' a Q'.
Proof. destruct a; simpl; auto. Qed.

Lemma wp_conseq {A} P (a : res A) (Q Q' : A -> Prop) :
  wp P a Q -> (forall x, Q x -> Q' x) -> wp P a Q'.
Proof. destruct a; simpl; auto. Qed.

Lemma wp_ok {A} P (a : res A) Q x : wp P a Q -> a = Ok x -> Q x.
Proof. intros H ->; exact H. Qed.

Lemma wp_panic {A} P (a : res A) Q t : wp P a Q -> a = Panic t -> P t.
Proof. intros H ->; exact H. Qed.

Lemma wp_ret {A} P (x : A) (Q : A -> Prop) : Q x -> wp P (Ok x) Q.
Proof. exact (fun H => H). Qed.

Ltac wp_bind_with L := apply wp_bind; eapply wp_conseq; [ apply L | ].

(* ------------------------------------------------------------------ opt_empty_value *)
(* the value stored by opt_empty differs from [empty_value (o_ty o)] only for a pointer
   option added with Group.AddOption (no struct field) *)
Lemma opt_empty_value_field : forall o,
  opt_is_added o = false -> opt_empty_value o = empty_value (o_ty o).
Proof. intros o H. unfold opt_empty_value. rewrite H. destruct (o_ty o); reflexivity. Qed.
Lemma opt_empty_value_not_ptr : forall o,
  (forall k, o_ty o <> TPtr k) -> opt_empty_value o = empty_value (o_ty o).
Proof.
  intros o H. unfold opt_empty_value. destruct (o_ty o) eqn:E; try reflexivity.
  exfalso. eapply H. reflexivity.
Qed.
Lemma opt_empty_value_added_ptr : forall o k,
  opt_is_added o = true -> o_ty o = TPtr k -> opt_empty_value o = VPtr (Some (zero_kind k)).
Proof. intros o k H E. unfold opt_empty_value. rewrite E, H. reflexivity. Qed.

(* ------------------------------------------------------------------ logs preorder *)
Definition same_logs (r r' : rt) : Prop :=
  l_exec (rt_logs r') = l_exec (rt_logs r) /\ l_out (rt_logs r') = l_out (rt_logs r).

Lemma same_logs_refl r : same_logs r r.
Proof. split; reflexivity. Qed.
Lemma same_logs_trans r1 r2 r3 : same_logs r1 r2 -> same_logs r2 r3 -> same_logs r1 r3.
Proof. intros [A B] [C D]; split; congruence. Qed.

Lemma sl_set_val r k v : same_logs r (set_val r k v).
Proof. split; reflexivity. Qed.
Lemma sl_set_fl r k v : same_logs r (set_fl r k v).
Proof. split; reflexivity. Qed.
Lemma sl_set_active r p c : same_logs r (set_active r p c).
Proof. split; reflexivity. Qed.
Lemma sl_log_call r k a : same_logs r (log_call r k a).
Proof. split; reflexivity. Qed.
Lemma sl_log_unknown r n a l : same_logs r (log_unknown r n a l).
Proof. split; reflexivity. Qed.
Lemma sl_opt_empty o r : same_logs r (opt_empty o r).
Proof. unfold opt_empty; destruct (is_func (o_ty o)); [apply same_logs_refl|apply sl_set_val]. Qed.

Global Hint Resolve same_logs_refl sl_set_val sl_set_fl sl_set_active sl_log_call sl_log_unknown
     sl_opt_empty : sl.

Lemma sl_step r1 r2 r3 : same_logs r2 r3 -> same_logs r1 r2 -> same_logs r1 r3.
Proof. intros; eapply same_logs_trans; eauto. Qed.

(* ------------------------------------------------------------------ Convert.v *)
Lemma convert_kind_wp orc b v k : wp benign (convert_kind orc b v k) (fun _ => True).
Proof.
  destruct k; unfold convert_kind.
  - destruct v; [exact I|]. destruct (parse_bool _); exact I.
  - destruct (get_base b); [|exact I].
    destruct (ikind_signed k).
    + destruct (parse_int _ _ _); exact I.
    + destruct (parse_uint _ _ _); exact I.
  - destruct (find_float _ _ _) as [[?|?]|]; try exact I. apply benign_oracle.
  - exact I.
  - destruct (find_dur _ _) as [[?|?]|]; try exact I. apply benign_oracle.
  - destruct (has_prefix _ _); exact I.
  - destruct (has_prefix _ _); exact I.
Qed.

Lemma convert_wp orc b ty : forall v cur, wp benign (convert orc b v ty cur) (fun _ => True).
Proof.
  induction ty as [k|k|e IHty|k1 k2|a b0]; intros v cur; cbn [convert].
  - wp_bind_with convert_kind_wp. intros [x|x] _; exact I.
  - wp_bind_with convert_kind_wp. intros [x|x] _; exact I.
  - wp_bind_with IHty. intros [x [e0|]] _; exact I.
  - destruct (cut_byte v 58) as [a [c|]].
    + wp_bind_with convert_kind_wp. intros [x|x] _; [|exact I].
      wp_bind_with convert_kind_wp. intros [y|y] _; exact I.
    + wp_bind_with convert_kind_wp. intros [x|x] _; [|exact I].
      wp_bind_with convert_kind_wp. intros [y|y] _; exact I.
  - exact I.
Qed.

(* ------------------------------------------------------------------ State.v *)
Section Ops.
  Variable orc : oracles.
  Variable delim : str.
  Variable help_text : rt -> str.

  Lemma opt_call_wp oc arg r :
    wp benign (opt_call orc help_text oc arg r) (fun re => same_logs r (fst re)).
  Proof.
    assert (F : forall r0, same_logs r r0 ->
      wp benign
        (if o_is_help (oc_opt oc) then Ok (r0, Some (EFlags ErrHelp (help_text r0)))
         else match rt_vals r0 (o_fid (oc_opt oc)), o_ty (oc_opt oc) with
              | VFunc true _, _ => Panic (s2l "reflect: call of nil function")
              | VFunc false fails, TFunc _ true =>
                Ok (r0, if fails then Some (foreign (s2l "callback failed")) else None)
              | _, _ => Ok (r0, None)
              end) (fun re => same_logs r (fst re))).
    { intros r0 H. destruct (o_is_help (oc_opt oc)); [exact H|].
      destruct (rt_vals r0 (o_fid (oc_opt oc))); try exact H.
      destruct isnil; [apply benign_nilfunc|].
      destruct (o_ty (oc_opt oc)); try exact H. destruct ret_err; exact H. }
    unfold opt_call. cbv zeta.
    destruct arg as [v|]; destruct (o_ty (oc_opt oc)) as [k|k|e|k1 k2|[k|] b] eqn:E;
      try apply benign_nonfunc; try apply benign_fewargs.
    - wp_bind_with convert_wp. intros [x [e|]] _; [apply same_logs_refl|].
      apply F. auto with sl.
    - apply F. destruct (o_is_help _); auto with sl.
    - apply F. destruct (o_is_help _); auto with sl.
  Qed.

  Lemma opt_set_wp oc arg r :
    wp benign (opt_set orc delim help_text oc arg r) (fun re => same_logs r (fst re)).
  Proof.
    unfold opt_set. cbv zeta.
    set (r1 := set_fl _ _ _).
    assert (H1 : same_logs r r1).
    { unfold r1. eapply sl_step; [apply sl_set_fl|].
      destruct (_ && _); auto with sl. }
    clearbody r1.
    apply wp_bind.
    assert (K : wp benign (if is_func (o_ty (oc_opt oc)) then opt_call orc help_text oc arg r1
         else bind (convert orc (o_base (oc_opt oc)) match arg with Some v => v | None => [] end
                       (o_ty (oc_opt oc)) (rt_vals r1 (o_fid (oc_opt oc))))
                (fun cv => let '(v, e) := cv in Ok (set_val r1 (o_fid (oc_opt oc)) v, option_map foreign e)))
         (fun re => same_logs r (fst re))).
    { destruct (is_func _).
      - eapply wp_conseq; [apply opt_call_wp|]. intros x Hx. eapply same_logs_trans; eauto.
      - wp_bind_with convert_wp. intros [v e] _. cbn [wp fst].
        eapply sl_step; [apply sl_set_val|exact H1]. }
    destruct (o_choices (oc_opt oc)) as [|c cs]; [exact K|].
    destruct arg as [v|]; [|exact K].
    destruct (existsb _ _); [exact K|]. exact H1.
  Qed.

  Lemma opt_set_default_wp oc arg r :
    wp benign (opt_set_default orc delim help_text oc arg r) (fun re => same_logs r (fst re)).
  Proof.
    unfold opt_set_default. cbv zeta.
    destruct (f_prevent _); [apply same_logs_refl|].
    wp_bind_with opt_set_wp. intros [r' [e|]] H; cbn [wp fst] in *; [exact H|].
    eapply sl_step; [apply sl_set_fl|exact H].
  Qed.

  Lemma set_defaults_wp oc ds : forall r,
    wp benign (set_defaults orc delim help_text oc ds r) (fun re => same_logs r (fst re)).
  Proof.
    induction ds as [|d ds IH]; intros r; cbn [set_defaults]; [apply same_logs_refl|].
    wp_bind_with opt_set_default_wp. intros [r' [e|]] H; cbn [wp fst] in *; [exact H|].
    eapply wp_conseq; [apply IH|]. intros x Hx. eapply same_logs_trans; eauto.
  Qed.

  Lemma opt_clear_default_wp env edelim oc r :
    wp benign (opt_clear_default orc delim help_text env edelim oc r) (fun re => same_logs r (fst re)).
  Proof.
    unfold opt_clear_default. cbv zeta.
    destruct (f_prevent _); [apply same_logs_refl|].
    set (r1 := set_fl _ _ _).
    assert (H1 : same_logs r r1) by (unfold r1; auto with sl).
    clearbody r1.
    match goal with |- context [match ?u with [] => _ | _ :: _ => _ end] => destruct u as [|d ds] end.
    - destruct (o_ty (oc_opt oc)); try exact H1;
        destruct (rt_vals r1 _); try exact H1; destruct isnil; try exact H1;
        cbn [wp fst]; (eapply sl_step; [apply sl_opt_empty|exact H1]).
    - eapply wp_conseq; [apply set_defaults_wp|]. intros x Hx.
      eapply same_logs_trans; [exact H1|]. eapply same_logs_trans; [apply sl_opt_empty|exact Hx].
  Qed.
End Ops.
