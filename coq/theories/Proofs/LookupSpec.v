(* C07 (unknown options are never silently accepted) and C08 (command selection and
   option scoping): properties of makeLookup and of one loop iteration. *)
From GoFlags Require Import Base.Str Base.Utf8 Golib.Strings Golib.Strconv
     Model.Types Model.Tag Model.Scan Model.Lookup Model.Convert Model.State Model.Closest Model.Parse.
From Coq Require Import Lia.
Open Scope N_scope.

(* ---- association lists with "last binding wins" (Go map insertion) ---- *)
Lemma assoc_last_acc : forall {A} (l : list (str * A)) k acc,
  assoc_last l k acc = match assoc_last l k None with Some v => Some v | None => acc end.
Proof.
  induction l as [|[k' v] l IH]; intros k acc; simpl; [reflexivity|].
  rewrite (IH k (if str_eqb k k' then Some v else acc)).
  rewrite (IH k (if str_eqb k k' then Some v else None)).
  destruct (assoc_last l k None); [reflexivity|].
  destruct (str_eqb k k'); reflexivity.
Qed.

Lemma find_last_cons : forall {A} k' (v : A) l k,
  find_last ((k', v) :: l) k =
  match find_last l k with Some w => Some w | None => if str_eqb k k' then Some v else None end.
Proof. intros; unfold find_last; simpl; apply assoc_last_acc. Qed.

Lemma find_last_in : forall {A} (l : list (str * A)) k v, find_last l k = Some v -> In (k, v) l.
Proof.
  induction l as [|[k' w] l IH]; intros k v H.
  - discriminate.
  - rewrite find_last_cons in H.
    destruct (find_last l k) eqn:E.
    + right; apply IH; congruence.
    + destruct (str_eqb_spec k k'); [|discriminate].
      left; congruence.
Qed.

Lemma find_last_none : forall {A} (l : list (str * A)) k, find_last l k = None <-> forall v, ~ In (k, v) l.
Proof.
  induction l as [|[k' w] l IH]; intros k.
  - split; [intros _ v []|reflexivity].
  - rewrite find_last_cons. split.
    + intros H v [Hv|Hv].
      * inversion Hv; subst. rewrite str_eqb_refl in H.
        destruct (find_last l k); discriminate.
      * destruct (find_last l k) eqn:E; [discriminate|].
        apply (proj1 (IH k) E v Hv).
    + intros H.
      assert (E : find_last l k = None) by (apply IH; intros v Hv; apply (H v); right; exact Hv).
      rewrite E. destruct (str_eqb_spec k k'); [|reflexivity].
      subst; exfalso; apply (H w); left; reflexivity.
Qed.

(* later bindings shadow earlier ones *)
Lemma find_last_app : forall {A} (a b : list (str * A)) k,
  find_last (a ++ b) k = match find_last b k with Some v => Some v | None => find_last a k end.
Proof.
  induction a as [|[k' w] a IH]; intros b k.
  - simpl. destruct (find_last b k); reflexivity.
  - simpl app. rewrite !find_last_cons, IH.
    destruct (find_last b k); reflexivity.
Qed.

(* membership in a flat_map of conditional singletons *)
Lemma in_flat_map_cond : forall {A B} (c : A -> bool) (f : A -> B) (l : list A) k x,
  In (k, x) (flat_map (fun oc => if c oc then [(f oc, oc)] else []) l) <->
  In x l /\ c x = true /\ k = f x.
Proof.
  intros. rewrite in_flat_map. split.
  - intros [y [Hy Hin]]. destruct (c y) eqn:E; [|destruct Hin].
    destruct Hin as [Heq|[]]. inversion Heq; subst. auto.
  - intros [Hin [Hc ->]]. exists x. split; [exact Hin|]. rewrite Hc. left; reflexivity.
Qed.

Lemma in_combine_seq : forall {A} (l : list A) start i (x : A),
  In (i, x) (combine (seq start (length l)) l) <-> (start <= i)%nat /\ nth_error l (i - start) = Some x.
Proof.
  induction l as [|y l IH]; intros start i x; simpl.
  - split; [intros []|]. intros [_ H]. destruct (i - start)%nat; discriminate.
  - rewrite IH. split.
    + intros [H|[Hle H]].
      * inversion H; subst. split; [lia|]. rewrite Nat.sub_diag. reflexivity.
      * split; [lia|]. replace (i - start)%nat with (S (i - S start)) by lia. exact H.
    + intros [Hle H]. destruct (i - start)%nat as [|m] eqn:E.
      * left. inversion H; subst. f_equal. lia.
      * right. split; [lia|]. replace (i - S start)%nat with m by lia. exact H.
Qed.

Lemma in_combine_seq0 : forall {A} (l : list A) i (x : A),
  In (i, x) (combine (seq 0 (length l)) l) <-> nth_error l i = Some x.
Proof.
  intros. rewrite in_combine_seq, Nat.sub_0_r. split; [intros [_ H]; exact H|intros H; split; [lia|exact H]].
Qed.

Lemma in_fill_cmds : forall c w i,
  In (w, i) (fill_cmds c) <->
  exists sub, nth_error (cmd_subs c) i = Some sub /\
              (w = c_name (cmd_info sub) \/ In w (c_aliases (cmd_info sub))).
Proof.
  intros. unfold fill_cmds. rewrite in_flat_map. split.
  - intros [[j sub] [Hin H]]. cbn [fst snd] in H. apply in_combine_seq0 in Hin.
    destruct H as [H|H].
    + inversion H; subst. exists sub; auto.
    + apply in_map_iff in H. destruct H as [a [Ha Hin']]. inversion Ha; subst. exists sub; auto.
  - intros [sub [Hn H]]. exists (i, sub). split; [apply in_combine_seq0; exact Hn|].
    cbn [fst snd]. destruct H as [->|H]; [left; reflexivity|].
    right. apply in_map_iff. exists w; auto.
Qed.

Lemma cmd_chain_snoc : forall path root i cur sub,
  cmd_at root path = Some cur -> nth_error (cmd_subs cur) i = Some sub ->
  cmd_chain root (path ++ [i]) = cmd_chain root path ++ [sub].
Proof.
  induction path as [|j p IH]; intros root i cur sub Hat Hn.
  - simpl in Hat. inversion Hat; subst. simpl. rewrite Hn. destruct sub; reflexivity.
  - simpl in Hat. simpl. destruct (nth_error (cmd_subs root) j) as [s|]; [|discriminate].
    rewrite (IH s i cur sub Hat Hn). reflexivity.
Qed.

Lemma cmd_at_snoc : forall path root i cur sub,
  cmd_at root path = Some cur -> nth_error (cmd_subs cur) i = Some sub ->
  cmd_at root (path ++ [i]) = Some sub.
Proof.
  induction path as [|j p IH]; intros root i cur sub Hat Hn.
  - simpl in Hat. inversion Hat; subst. simpl. rewrite Hn. reflexivity.
  - simpl in Hat. simpl. destruct (nth_error (cmd_subs root) j) as [s|]; [|discriminate].
    exact (IH s i cur sub Hat Hn).
Qed.

Lemma find_last_nodup : forall {A} (l : list (str * A)) k v,
  NoDup (map fst l) -> In (k, v) l -> find_last l k = Some v.
Proof.
  induction l as [|[k' w] l IH]; intros k v Hnd Hin; [destruct Hin|].
  simpl in Hnd. inversion Hnd as [|? ? Hnotin Hnd']; subst.
  rewrite find_last_cons. destruct Hin as [Heq|Hin].
  - inversion Heq; subst.
    assert (E : find_last l k = None).
    { apply find_last_none. intros v' Hv'. apply Hnotin.
      apply in_map_iff. exists (k, v'); auto. }
    rewrite E, str_eqb_refl. reflexivity.
  - rewrite (IH k v Hnd' Hin). reflexivity.
Qed.

Section Lk.
  Variable delim : str.
  Variable root : command.

  (* options declared along the chain root -> ... -> command at [path] *)
  Definition chain_octxs (path : list nat) : list octx := flat_map cmd_octxs (cmd_chain root path).

  Lemma in_lk_long : forall path n oc,
    In (n, oc) (lk_long (make_lookup delim root path)) <->
    In oc (chain_octxs path) /\ nonempty (o_long (oc_opt oc)) = true /\ n = long_name delim oc.
  Proof.
    intros. unfold make_lookup, chain_octxs; cbn [lk_long]. rewrite !in_flat_map. split.
    - intros [c [Hc H]]. unfold fill_opts in H; cbn [snd] in H.
      apply (in_flat_map_cond (fun oc => nonempty (o_long (oc_opt oc))) (long_name delim)) in H.
      destruct H as [H1 [H2 H3]]. split; [exists c; auto|auto].
    - intros [[c [Hc H1]] [H2 H3]]. exists c. split; [exact Hc|].
      unfold fill_opts; cbn [snd].
      apply (in_flat_map_cond (fun oc => nonempty (o_long (oc_opt oc))) (long_name delim)). auto.
  Qed.

  Lemma in_lk_short : forall path n oc,
    In (n, oc) (lk_short (make_lookup delim root path)) <->
    In oc (chain_octxs path) /\ negb (N.eqb (o_short (oc_opt oc)) 0) = true /\
    n = encode_rune (o_short (oc_opt oc)).
  Proof.
    intros. unfold make_lookup, chain_octxs; cbn [lk_short]. rewrite !in_flat_map. split.
    - intros [c [Hc H]]. unfold fill_opts in H; cbn [fst] in H.
      apply (in_flat_map_cond (fun oc => negb (N.eqb (o_short (oc_opt oc)) 0))
                              (fun oc => encode_rune (o_short (oc_opt oc)))) in H.
      destruct H as [H1 [H2 H3]]. split; [exists c; auto|auto].
    - intros [[c [Hc H1]] [H2 H3]]. exists c. split; [exact Hc|].
      unfold fill_opts; cbn [fst].
      apply (in_flat_map_cond (fun oc => negb (N.eqb (o_short (oc_opt oc)) 0))
                              (fun oc => encode_rune (o_short (oc_opt oc)))). auto.
  Qed.

  (* ---- exact-name lookup (no prefix or case-insensitive matching) ---- *)
  Theorem lookup_long_exact : forall path n oc,
    find_last (lk_long (make_lookup delim root path)) n = Some oc ->
    long_name delim oc = n /\ nonempty (o_long (oc_opt oc)) = true /\ In oc (chain_octxs path).
  Proof.
    intros path n oc H. apply find_last_in, in_lk_long in H.
    destruct H as [H1 [H2 H3]]. auto.
  Qed.

  Theorem lookup_short_exact : forall path n oc,
    find_last (lk_short (make_lookup delim root path)) n = Some oc ->
    n = encode_rune (o_short (oc_opt oc)) /\ o_short (oc_opt oc) <> 0 /\ In oc (chain_octxs path).
  Proof.
    intros path n oc H. apply find_last_in, in_lk_short in H.
    destruct H as [H1 [H2 H3]]. split; [exact H3|]. split; [|exact H1].
    apply negb_true_iff, N.eqb_neq in H2. exact H2.
  Qed.

  (* every option of the chain is reachable by its exact qualified long name (it
     finds the innermost/last declaration of that name) *)
  Theorem lookup_long_complete : forall path oc,
    In oc (chain_octxs path) -> nonempty (o_long (oc_opt oc)) = true ->
    exists oc', find_last (lk_long (make_lookup delim root path)) (long_name delim oc) = Some oc'.
  Proof.
    intros path oc Hin Hne.
    destruct (find_last (lk_long (make_lookup delim root path)) (long_name delim oc)) as [oc'|] eqn:E.
    - exists oc'; reflexivity.
    - exfalso. apply (proj1 (find_last_none _ _) E oc). apply in_lk_long. auto.
  Qed.

  (* a name that no option of the chain carries is not found: in particular options
     of sibling commands and of commands not yet named are unknown *)
  Theorem lookup_long_scope : forall path n,
    (forall oc, In oc (chain_octxs path) -> nonempty (o_long (oc_opt oc)) = true -> long_name delim oc <> n) ->
    find_last (lk_long (make_lookup delim root path)) n = None.
  Proof.
    intros path n H. apply find_last_none. intros oc Hin. apply in_lk_long in Hin.
    destruct Hin as [H1 [H2 H3]]. apply (H oc H1 H2). symmetry; exact H3.
  Qed.

  (* ---- C08: entering a sub-command keeps the ancestors' options and adds its own,
     which shadow equally named ones (innermost declaration wins) ---- *)
  Theorem lookup_enter_long : forall path i cur sub,
    cmd_at root path = Some cur -> nth_error (cmd_subs cur) i = Some sub ->
    lk_long (make_lookup delim root (path ++ [i])) =
    lk_long (make_lookup delim root path) ++ snd (fill_opts delim sub).
  Proof.
    intros path i cur sub Hat Hn. unfold make_lookup; cbn [lk_long].
    rewrite (cmd_chain_snoc path root i cur sub Hat Hn), flat_map_app.
    cbn [flat_map]. rewrite app_nil_r. reflexivity.
  Qed.

  Theorem lookup_enter_short : forall path i cur sub,
    cmd_at root path = Some cur -> nth_error (cmd_subs cur) i = Some sub ->
    lk_short (make_lookup delim root (path ++ [i])) =
    lk_short (make_lookup delim root path) ++ fst (fill_opts delim sub).
  Proof.
    intros path i cur sub Hat Hn. unfold make_lookup; cbn [lk_short].
    rewrite (cmd_chain_snoc path root i cur sub Hat Hn), flat_map_app.
    cbn [flat_map]. rewrite app_nil_r. reflexivity.
  Qed.

  (* command words resolve, by name or by any alias, among the sub-commands of the
     current command only *)
  Theorem lookup_cmds_exact : forall path w i,
    find_last (lk_cmds (make_lookup delim root path)) w = Some i ->
    exists cur sub, cmd_at root path = Some cur /\ nth_error (cmd_subs cur) i = Some sub /\
                    (w = c_name (cmd_info sub) \/ In w (c_aliases (cmd_info sub))).
  Proof.
    intros path w i H. unfold make_lookup in H; cbn [lk_cmds] in H.
    destruct (cmd_at root path) as [cur|]; [|discriminate].
    apply find_last_in, in_fill_cmds in H. destruct H as [sub [H1 H2]].
    exists cur, sub. auto.
  Qed.

  (* name and aliases are interchangeable: when the names/aliases of the siblings are
     pairwise distinct, each of them resolves to its own command *)
  Theorem lookup_cmds_alias : forall (c : command) w i,
    NoDup (map fst (fill_cmds c)) -> In (w, i) (fill_cmds c) -> find_last (fill_cmds c) w = Some i.
  Proof. intros c w i. apply find_last_nodup. Qed.
End Lk.

(* "--" is not an option token *)
Lemma option_not_ddash : forall a, argument_is_option a = true -> str_eqb a (s2l "--") = false.
Proof.
  intros a H. destruct (str_eqb_spec a (s2l "--")) as [->|]; [|reflexivity].
  discriminate H.
Qed.

Section StepUnknown.
  Variable cfg : pconfig.
  Variable orc : oracles.
  Variable root : command.
  Variable help_text : rt -> str.

  (* ---- C07: the three policies for an unknown LONG option, one loop iteration ---- *)
  Theorem C07_unknown_long_fails : forall s r a rest n arg,
    ps_args s = a :: rest -> argument_is_option a = true ->
    split_option a = (true, n, arg) ->
    find_last (lk_long (ps_lk s)) n = None ->
    po_ignore (pc_opts cfg) = false -> pc_handler cfg = HNone ->
    step cfg orc root help_text s r =
    Ok (Break (ps_with_err (ps_with_args s a rest) (Some (unknown_flag n))) r).
  Proof.
    intros s r a rest n arg Hargs Hopt Hsplit Hfind Hign Hh.
    unfold step. rewrite Hargs. cbv zeta.
    rewrite (option_not_ddash a Hopt), andb_false_r, Hopt. cbn [negb].
    rewrite Hsplit. unfold parse_long. cbn [ps_lk ps_with_args]. rewrite Hfind.
    cbn [bind]. unfold unknown_flag at 1. cbv iota beta.
    rewrite Hign, Hh. reflexivity.
  Qed.

  Theorem C07_unknown_long_ignored : forall s r a rest n arg,
    ps_args s = a :: rest -> argument_is_option a = true ->
    split_option a = (true, n, arg) ->
    find_last (lk_long (ps_lk s)) n = None ->
    po_ignore (pc_opts cfg) = true ->
    step cfg orc root help_text s r =
    bind (add_args orc [a] (ps_with_args s a rest) r) (fun x => let '(s2, r2, _) := x in Ok (Continue s2 r2)).
  Proof.
    intros s r a rest n arg Hargs Hopt Hsplit Hfind Hign.
    unfold step. rewrite Hargs. cbv zeta.
    rewrite (option_not_ddash a Hopt), andb_false_r, Hopt. cbn [negb].
    rewrite Hsplit. unfold parse_long. cbn [ps_lk ps_with_args]. rewrite Hfind.
    cbn [bind]. unfold unknown_flag at 1. cbv iota beta.
    rewrite Hign. reflexivity.
  Qed.

  Theorem C07_unknown_long_handler : forall s r a rest n arg,
    ps_args s = a :: rest -> argument_is_option a = true ->
    split_option a = (true, n, arg) ->
    find_last (lk_long (ps_lk s)) n = None ->
    po_ignore (pc_opts cfg) = false -> pc_handler cfg <> HNone ->
    step cfg orc root help_text s r =
    Ok (let r' := log_unknown r n arg rest in
        match run_handler cfg n arg rest with
        | inr he => Break (ps_with_err (ps_with_args s a rest) (Some he)) r'
        | inl newargs => Continue (ps_with_args (ps_with_args s a rest) a newargs) r'
        end).
  Proof.
    intros s r a rest n arg Hargs Hopt Hsplit Hfind Hign Hh.
    unfold step. rewrite Hargs. cbv zeta.
    rewrite (option_not_ddash a Hopt), andb_false_r, Hopt. cbn [negb].
    rewrite Hsplit. unfold parse_long. cbn [ps_lk ps_with_args]. rewrite Hfind.
    cbn [bind]. unfold unknown_flag at 1. cbv iota beta.
    rewrite Hign. cbn [negb andb orb ps_args ps_arg ps_with_args].
    destruct (pc_handler cfg) eqn:E; [congruence| | |];
      destruct (run_handler cfg n arg rest); reflexivity.
  Qed.

  (* ---- C07: an unknown rune in a short cluster is reported, naming exactly that rune,
     and nothing after it in the cluster is applied ---- *)
  Theorem short_loop_unknown_first : forall total i c w rs argument s r,
    find_last (lk_short (ps_lk s)) (encode_rune c) = None ->
    short_loop cfg orc help_text total ((i, c, w) :: rs) argument s r =
    Ok (s, r, Some (unknown_flag (encode_rune c))).
  Proof. intros. cbn [short_loop]. rewrite H. reflexivity. Qed.

  (* ---- C08: a command word in command position switches to that command ---- *)
  Theorem C08_enter : forall s r i,
    ps_pos s = [] ->
    nonempty (map (fun _ => 0) (cmd_subs (cur_cmd root s))) = true ->
    ps_ret s = [] ->
    find_last (lk_cmds (ps_lk s)) (ps_arg s) = Some i ->
    parse_non_option cfg orc root s r =
    Ok (fill_parse_state cfg root s (ps_cmd s ++ [i]), set_active r (ps_cmd s) i, None).
  Proof.
    intros s r i Hpos Hsubs Hret Hfind. unfold parse_non_option.
    rewrite Hpos, Hsubs, Hret, Hfind. reflexivity.
  Qed.

  (* an unrecognised word where a command is required ends the loop (the diagnosis
     ErrUnknownCommand is produced after the loop by estimate_command); when
     sub-commands are optional the word is an ordinary argument *)
  Theorem C08_unknown_word_optional : forall s r,
    ps_pos s = [] ->
    find_last (lk_cmds (ps_lk s)) (ps_arg s) = None ->
    c_sub_optional (cmd_info (cur_cmd root s)) = true ->
    parse_non_option cfg orc root s r = add_args orc [ps_arg s] s r.
  Proof.
    intros s r Hpos Hfind Hopt. unfold parse_non_option.
    rewrite Hpos, Hfind, Hopt. cbn [negb].
    match goal with |- (if ?b then _ else _) = _ => destruct b end; reflexivity.
  Qed.
End StepUnknown.

Print Assumptions find_last_in.
Print Assumptions find_last_none.
Print Assumptions find_last_app.
Print Assumptions lookup_long_exact.
Print Assumptions lookup_short_exact.
Print Assumptions lookup_long_complete.
Print Assumptions lookup_long_scope.
Print Assumptions lookup_enter_long.
Print Assumptions lookup_enter_short.
Print Assumptions lookup_cmds_exact.
Print Assumptions lookup_cmds_alias.
Print Assumptions C07_unknown_long_fails.
Print Assumptions C07_unknown_long_ignored.
Print Assumptions C07_unknown_long_handler.
Print Assumptions short_loop_unknown_first.
Print Assumptions C08_enter.
Print Assumptions C08_unknown_word_optional.
