(* Property C16, the CONTENT of the rows: "the help text lists every non-hidden option ...
   WITH its short and namespaced long name, value name, choices, description and, beside a
   description, its default or default-mask and environment variable - every described
   positional argument and every non-hidden subcommand (its aliases beside its description)".
   HelpSpec.v establishes WHICH rows appear, HelpSafe.v the shape  line2 ++ pad ++ wrapped
   description  of an option row.  This file gives the text of each row, field by field, as
   equations about Model/Help.v. *)
From Coq Require Import List Arith NArith ZArith Lia Bool Permutation Sorted ZifyN ZifyBool ZifyNat.
From GoFlags Require Import Base.Str Base.Utf8 Golib.Strings Golib.Strconv
     Model.Types Model.Tag Model.Scan Model.Lookup Model.Convert Model.State Model.Help
     Proofs.QuoteUtf8 Proofs.CompleteSpec Proofs.HelpSpec Proofs.WrapSpec Proofs.HelpSafe.
Import ListNotations.
Local Open Scope nat_scope.

(* ================================================================== small list facts *)
Lemma nonempty_true_iff (s : str) : nonempty s = true <-> s <> [].
Proof. destruct s; cbn [nonempty]; split; intros H; congruence. Qed.
Lemma nonempty_false_iff (s : str) : nonempty s = false <-> s = [].
Proof. destruct s; cbn [nonempty]; split; intros H; congruence. Qed.

Lemma in_split_concat_map {A} (f : A -> str) (x : A) (l : list A) :
  In x l -> exists l1 l2, l = l1 ++ x :: l2 /\
                          concat (map f l) = concat (map f l1) ++ f x ++ concat (map f l2).
Proof.
  intros H. apply in_split in H. destruct H as (l1 & l2 & ->). exists l1, l2. split; [reflexivity|].
  rewrite map_app, concat_app. reflexivity.
Qed.

(* a namespaced name: the non-empty namespaces, outermost first, each followed by the
   delimiter, then the name itself *)
Lemma fold_ns_concat (delim : str) (l : list str) (k : str) :
  fold_right (fun n acc => n ++ delim ++ acc) k l = concat (map (fun n => n ++ delim) l) ++ k.
Proof.
  induction l as [|n l IH]; cbn [fold_right map concat]; [reflexivity|].
  rewrite IH, <- !app_assoc. reflexivity.
Qed.

Lemma long_with_ns_concat delim ns long :
  long <> [] ->
  long_with_ns delim ns long = concat (map (fun n => n ++ delim) (filter nonempty ns)) ++ long.
Proof.
  intros H. unfold long_with_ns. destruct long as [|x t]; [congruence|]. apply fold_ns_concat.
Qed.

(* ================================================================== TARGET 1: the name part *)
(* The name part of an option row is HelpSafe/WrapSpec's help_line2.  Its pieces, in the
   order in which they are written:
   - the indentation: two blanks, plus four when the alignment record says "indented"
     (rows of a sub-command, HelpSafe.C17_indent_consistent);
   - `-` and the short rune; an option WITHOUT a short name gets two blanks instead when some
     displayed option has one (al_hasshort), and nothing otherwise;
   - before a long name: `, ` after a short name; two more blanks (for the missing `, `) when
     the option has no short name but some option has one; nothing otherwise;
   - `--` and the long name with its namespaces;
   - for an option that takes an argument (anything but a bool flag that is not an
     Unmarshaler): `=`, the value name and the choices `[a|b|c]`.  The `=` is written even
     when the value name and the choices are both empty. *)
Theorem C16_option_row_names : forall cfg o ns a,
  let ind := (spaces 2 ++ (if al_indent a then spaces 4 else []))%N in
  let short := (s2l "-" ++ encode_rune (o_short o))%N in
  let long := (s2l "--" ++ long_with_ns (pc_nsdelim cfg) ns (o_long o))%N in
  let value := (if can_argument o then s2l "=" ++ o_valname o ++ choices_text o else [])%N in
  (* short and long name *)
  (o_short o <> 0%N -> o_long o <> [] ->
     help_line2 cfg o ns a = ind ++ short ++ s2l ", " ++ long ++ value) /\
  (* short name only *)
  (o_short o <> 0%N -> o_long o = [] ->
     help_line2 cfg o ns a = ind ++ short ++ value) /\
  (* long name only: aligned with the long names of the options that have a short name *)
  (o_short o = 0%N -> o_long o <> [] ->
     help_line2 cfg o ns a = ind ++ (if al_hasshort a then spaces 4 else []) ++ long ++ value) /\
  (* neither (such an option is never displayed: opt_show_in_help) *)
  (o_short o = 0%N -> o_long o = [] ->
     help_line2 cfg o ns a = ind ++ (if al_hasshort a then spaces 2 else []) ++ value) /\
  (* the namespaced long name *)
  (o_long o <> [] ->
     long_with_ns (pc_nsdelim cfg) ns (o_long o) =
     concat (map (fun n => n ++ pc_nsdelim cfg) (filter nonempty ns)) ++ o_long o) /\
  (* which options take an argument *)
  can_argument o = (vtype_is_unmarshaler (o_ty o) || negb (vtype_is_bool (o_ty o))) /\
  (* the choices *)
  (o_choices o = [] -> choices_text o = []) /\
  (o_choices o <> [] -> choices_text o = (s2l "[" ++ join (o_choices o) (s2l "|") ++ s2l "]")%N) /\
  (* the row of the option starts with the name part *)
  (forall r envns g row, help_option cfg r o ns envns g a = Ok row ->
     exists rest, row = help_line2 cfg o ns a ++ rest ++ [10%N]).
Proof.
  intros cfg o ns a ind short long value.
  assert (Hsp4 : spaces 4 = (s2l "  " ++ s2l "  ")%N) by reflexivity.
  assert (Hsp2 : spaces 2 = s2l "  ") by reflexivity.
  assert (Hind : ind = spaces (2 + (if al_indent a then 4 else 0))).
  { unfold ind. destruct (al_indent a); [reflexivity|]. now rewrite app_nil_r. }
  assert (Hval : forall X : str,
             (if can_argument o then X ++ [61%N] ++ o_valname o ++ choices_text o else X) = X ++ value).
  { intros X. unfold value. destruct (can_argument o); [reflexivity|]. now rewrite app_nil_r. }
  repeat match goal with |- _ /\ _ => split end.
  - intros Hs Hl. unfold help_line2. cbv zeta. rewrite Hval.
    apply N.eqb_neq in Hs. rewrite Hs. apply nonempty_true_iff in Hl. rewrite Hl. cbn [negb].
    rewrite Hind. unfold short, long. rewrite <- !app_assoc. reflexivity.
  - intros Hs Hl. unfold help_line2. cbv zeta. rewrite Hval.
    apply N.eqb_neq in Hs. rewrite Hs. rewrite Hl. cbn [negb nonempty].
    rewrite Hind. unfold short. rewrite <- !app_assoc. reflexivity.
  - intros Hs Hl. unfold help_line2. cbv zeta. rewrite Hval.
    rewrite Hs. apply nonempty_true_iff in Hl. rewrite Hl. cbn [N.eqb negb].
    rewrite Hind, Hsp4. unfold long. destruct (al_hasshort a); rewrite <- !app_assoc; reflexivity.
  - intros Hs Hl. unfold help_line2. cbv zeta. rewrite Hval.
    rewrite Hs, Hl. cbn [N.eqb negb nonempty].
    rewrite Hind, Hsp2. destruct (al_hasshort a); rewrite <- !app_assoc; reflexivity.
  - intros Hl. now apply long_with_ns_concat.
  - reflexivity.
  - unfold choices_text. now intros ->.
  - unfold choices_text. destruct (o_choices o); [congruence|reflexivity].
  - intros r envns g row H. rewrite help_option_eq in H.
    destruct (o_desc o) as [|d0 d].
    + inversion H; subst. exists []. reflexivity.
    + destruct (repeat_space _) as [pad|]; [|discriminate]. cbv zeta in H. inversion H; subst.
      match goal with |- exists rest, (_ ++ ?p ++ ?w ++ _ = _)%list => exists (p ++ w)%list end.
      now rewrite <- app_assoc.
Qed.

(* ================================================================== TARGET 2: the description part *)
(* what is shown as the default beside a description: the mask instead of the value when
   there is one (nothing at all for the mask "-"), else the default literal kept in the
   runtime state, when there is one *)
Definition default_part (r : rt) (o : opt) : str :=
  match o_mask o with
  | [] =>
    match f_deflit (rt_fl r (o_fid o)) with
    | [] => []
    | d => s2l " (default: " ++ d ++ s2l ")"
    end
  | m => if str_eqb m (s2l "-") then [] else s2l " (default: " ++ m ++ s2l ")"
  end%N.

(* the environment variable: the key with the non-empty environment namespaces of the
   enclosing groups, outermost first, each followed by the environment delimiter *)
Definition env_part (cfg : pconfig) (o : opt) (envns : list str) : str :=
  match o_envkey o with
  | [] => []
  | k => s2l " [$" ++ concat (map (fun n => n ++ pc_envdelim cfg) (filter nonempty envns)) ++ k ++ s2l "]"
  end%N.

Lemma env_key_oc_of cfg o ns envns g :
  env_key (pc_envdelim cfg) (oc_of o ns envns g) =
  match o_envkey o with
  | [] => []
  | k => concat (map (fun n => n ++ pc_envdelim cfg) (filter nonempty envns)) ++ k
  end.
Proof.
  unfold env_key, oc_of. cbn [oc_opt oc_envns]. destruct (o_envkey o) as [|k0 k]; [reflexivity|].
  apply fold_ns_concat.
Qed.

Lemma env_key_nonempty cfg o ns envns g :
  nonempty (env_key (pc_envdelim cfg) (oc_of o ns envns g)) = nonempty (o_envkey o).
Proof.
  rewrite env_key_oc_of. destruct (o_envkey o) as [|k0 k]; [reflexivity|]. cbn [nonempty].
  destruct (concat _); reflexivity.
Qed.

Lemma help_desc_eq cfg r o ns envns g :
  help_desc cfg r o ns envns g = (o_desc o ++ default_part r o ++ env_part cfg o envns)%N.
Proof.
  unfold help_desc, default_part, env_part. cbv zeta.
  rewrite env_key_nonempty, env_key_oc_of.
  assert (E : (if nonempty (o_envkey o)
               then s2l " [$" ++ match o_envkey o with
                                 | [] => []
                                 | _ :: _ => concat (map (fun n => n ++ pc_envdelim cfg) (filter nonempty envns)) ++ o_envkey o
                                 end ++ s2l "]"
               else [])%N =
              match o_envkey o with
              | [] => []
              | _ :: _ => (s2l " [$" ++ concat (map (fun n => n ++ pc_envdelim cfg) (filter nonempty envns)) ++ o_envkey o ++ s2l "]")%N
              end).
  { destruct (o_envkey o); [reflexivity|]. cbn [nonempty]. rewrite <- !app_assoc. reflexivity. }
  destruct (o_mask o) as [|m0 m].
  - destruct (f_deflit (rt_fl r (o_fid o))) as [|d0 d]; cbn [nonempty].
    + cbn [app]. destruct (o_envkey o); [reflexivity|]. cbn [nonempty]. rewrite <- !app_assoc. reflexivity.
    + destruct (o_envkey o); [|cbn [nonempty]]; rewrite <- ?app_assoc; reflexivity.
  - destruct (str_eqb (m0 :: m) (s2l "-")); cbn [nonempty].
    + cbn [app]. destruct (o_envkey o); [reflexivity|]. cbn [nonempty]. rewrite <- !app_assoc. reflexivity.
    + destruct (o_envkey o); [|cbn [nonempty]]; rewrite <- ?app_assoc; reflexivity.
Qed.

(* The sketch of the task says "help_desc = [] when o_desc o = []".  For HelpSafe.help_desc as
   defined this is FALSE (help_desc does not look at the emptiness of the description; see
   help_desc_of_empty_description_not_empty below): what is true, and stated here, is that for
   an empty description help_option does not use help_desc at all - the row is the name part
   and a line break: no padding, no default, no environment variable. *)
Theorem C16_option_row_description : forall cfg r o ns envns g,
  let deflit := f_deflit (rt_fl r (o_fid o)) in
  let ekey := (concat (map (fun n => n ++ pc_envdelim cfg) (filter nonempty envns)) ++ o_envkey o)%N in
  (* nothing beside an empty description *)
  (o_desc o = [] -> forall a,
     help_option cfg r o ns envns g a = Ok (help_line2 cfg o ns a ++ [10%N])) /\
  (* otherwise the row is the name part, padded to the description column, and the wrapped
     description text help_desc *)
  (o_desc o <> [] -> forall a row,
     help_option cfg r o ns envns g a = Ok row ->
     let col := description_start a + 2 in
     row = (help_line2 cfg o ns a ++ spaces (col - rune_count (help_line2 cfg o ns a)) ++
            wrap_text (help_desc cfg r o ns envns g) (cols cfg - Z.of_nat col) (spaces col) ++ [10])%N) /\
  (* the description text: description, default part, environment part, in this order *)
  help_desc cfg r o ns envns g = (o_desc o ++ default_part r o ++ env_part cfg o envns)%N /\
  (* the default part *)
  (o_mask o = s2l "-" -> default_part r o = []) /\
  (o_mask o <> [] -> o_mask o <> s2l "-" ->
     default_part r o = (s2l " (default: " ++ o_mask o ++ s2l ")")%N) /\
  (o_mask o = [] -> deflit <> [] ->
     default_part r o = (s2l " (default: " ++ deflit ++ s2l ")")%N) /\
  (o_mask o = [] -> deflit = [] -> default_part r o = []) /\
  (* the environment part *)
  (o_envkey o = [] -> env_part cfg o envns = []) /\
  (o_envkey o <> [] -> env_part cfg o envns = (s2l " [$" ++ ekey ++ s2l "]")%N) /\
  (o_envkey o <> [] -> env_key (pc_envdelim cfg) (oc_of o ns envns g) = ekey).
Proof.
  intros cfg r o ns envns g deflit ekey. repeat match goal with |- _ /\ _ => split end.
  - intros Hd a. rewrite help_option_eq, Hd. reflexivity.
  - intros Hd a row H col. rewrite help_option_eq in H.
    destruct (o_desc o) as [|d0 d] eqn:Ed; [congruence|].
    unfold repeat_space in H. fold col in H.
    destruct (Z.ltb_spec (Z.of_nat col - Z.of_nat (rune_count (help_line2 cfg o ns a))) 0) as [Hn|Hn]; [discriminate|].
    cbv zeta in H. inversion H; subst. unfold help_desc. cbv zeta. rewrite Ed.
    do 2 f_equal. f_equal. f_equal. lia.
  - apply help_desc_eq.
  - intros Hm. unfold default_part. rewrite Hm. reflexivity.
  - intros Hm Hd. unfold default_part. destruct (o_mask o) as [|m0 m] eqn:Em; [congruence|].
    destruct (str_eqb_spec (m0 :: m) (s2l "-")); [congruence|reflexivity].
  - intros Hm Hd. unfold default_part. rewrite Hm. fold deflit. destruct deflit; [congruence|reflexivity].
  - intros Hm Hd. unfold default_part. rewrite Hm. fold deflit. rewrite Hd. reflexivity.
  - intros He. unfold env_part. rewrite He. reflexivity.
  - intros He. unfold env_part, ekey. destruct (o_envkey o); [congruence|]. rewrite <- !app_assoc. reflexivity.
  - intros He. rewrite env_key_oc_of. unfold ekey. destruct (o_envkey o); [congruence|reflexivity].
Qed.

(* ================================================================== TARGET 3: masked defaults *)
Lemma help_desc_with_default cfg r o d ns envns g :
  help_desc cfg r (opt_with_default o d) ns envns g = help_desc cfg r o ns envns g.
Proof. reflexivity. Qed.

Lemma help_option_with_default cfg r o d ns envns g a :
  help_option cfg r (opt_with_default o d) ns envns g a = help_option cfg r o ns envns g a.
Proof. reflexivity. Qed.

(* With a default mask neither the description part nor the whole row depends on the runtime
   state (in particular not on the default literal f_deflit: r1 and r2 are ANY two states),
   nor on the declared default list o_default; the description part is the explicit text on
   the right, in which neither occurs. *)
Theorem C16_masked_default_never_in_row : forall cfg r1 r2 o d ns envns g a,
  o_mask o <> [] ->
  help_desc cfg r1 o ns envns g = help_desc cfg r2 o ns envns g /\
  help_desc cfg r1 (opt_with_default o d) ns envns g = help_desc cfg r2 o ns envns g /\
  help_option cfg r1 (opt_with_default o d) ns envns g a = help_option cfg r2 o ns envns g a /\
  help_desc cfg r1 o ns envns g =
    (o_desc o ++ (if str_eqb (o_mask o) (s2l "-") then [] else s2l " (default: " ++ o_mask o ++ s2l ")")
            ++ env_part cfg o envns)%N.
Proof.
  intros cfg r1 r2 o d ns envns g a Hm.
  assert (Hdp : forall r, default_part r o =
                          (if str_eqb (o_mask o) (s2l "-") then [] else s2l " (default: " ++ o_mask o ++ s2l ")")%N).
  { intros r. unfold default_part. destruct (o_mask o); [congruence|reflexivity]. }
  split; [now rewrite !help_desc_eq, !Hdp|].
  split; [now rewrite help_desc_with_default, !help_desc_eq, !Hdp|].
  split; [rewrite help_option_with_default; now apply C16_mask_help_any|].
  now rewrite help_desc_eq, Hdp.
Qed.

(* ================================================================== the traversal only appends *)
Lemma opt_acc_prefix c g nh pc first a acc : exists x, opt_acc c g nh pc first a acc = (acc ++ x)%list.
Proof.
  unfold opt_acc. cbv zeta. destruct pc; destruct (first && negb nh);
    first [ now (exists []; rewrite app_nil_r) | rewrite <- ?app_assoc; eexists; reflexivity ].
Qed.

Section Prefix.
  Variable ho : list nat -> command -> group -> list str -> list str -> opt -> align -> res str.
  Variable ha : list nat -> command -> arg -> nat -> option str.

  Lemma g_opts_prefix p c nh g ns envns : forall os a acc pc first rows a' acc' pc' first' rows',
    g_opts ho p c nh g ns envns os a acc pc first rows = Ok (a', acc', pc', first', rows') ->
    exists suf, acc' = (acc ++ suf)%list.
  Proof.
    induction os as [|o os IH]; intros a acc pc first rows a' acc' pc' first' rows' H.
    - rewrite g_opts_nil in H. inversion H; subst. exists []. now rewrite app_nil_r.
    - rewrite g_opts_cons in H. destruct (negb (opt_show_in_help o)); [eapply IH; eassumption|].
      destruct (ho p c g ns envns o (opt_a pc a)) as [row|e|w]; cbn [bind] in H; try discriminate.
      apply IH in H. destruct H as (suf & ->).
      destruct (opt_acc_prefix c g nh pc first a acc) as (x & ->).
      exists (x ++ row ++ suf)%list. now rewrite <- !app_assoc.
  Qed.

  Lemma g_groups_prefix p c rest is_root : forall gs a acc pc own rows a' acc' pc' rows',
    g_groups ho p c rest is_root gs a acc pc own rows = Ok (a', acc', pc', rows') ->
    exists suf, acc' = (acc ++ suf)%list.
  Proof.
    induction gs as [|[[g ns] envns] gs IH]; intros a acc pc own rows a' acc' pc' rows' H.
    - rewrite g_groups_nil in H. inversion H; subst. exists []. now rewrite app_nil_r.
    - rewrite g_groups_cons in H.
      destruct (g_hidden (grp_info g) || (g_builtin_help (grp_info g) && negb is_root)); [eapply IH; eassumption|].
      destruct (g_opts ho p c (own && match rest with [] => true | _ => false end) g ns envns
                       (grp_opts g) a acc pc true rows) as [[[[[a1 acc1] pc1] f1] rows1]|e|w] eqn:E;
        cbn [bind fst snd] in H; try discriminate.
      apply g_opts_prefix in E. destruct E as (s1 & ->).
      apply IH in H. destruct H as (s2 & ->). exists (s1 ++ s2)%list. now rewrite <- app_assoc.
  Qed.

  Lemma g_argrows_prefix cfg p c dstart : forall l acc rows t rows',
    g_argrows ha cfg p c dstart l acc rows = Ok (t, rows') -> exists suf, t = (acc ++ suf)%list.
  Proof.
    induction l as [|ar l IH]; intros acc rows t rows' H.
    - rewrite g_argrows_nil in H. inversion H; subst. exists []. now rewrite app_nil_r.
    - rewrite g_argrows_cons in H. destruct (ha p c ar dstart) as [pad|]; [|discriminate].
      apply IH in H. destruct H as (suf & ->). eexists. rewrite <- app_assoc. reflexivity.
  Qed.

  Lemma g_cmds_prefix cfg inner : forall l a acc rows t rows',
    g_cmds ho ha cfg inner l a acc rows = Ok (t, rows') -> exists suf, t = (acc ++ suf)%list.
  Proof.
    induction l as [|[p c] rest IH]; intros a acc rows t rows' H.
    - rewrite g_cmds_nil in H. inversion H; subst. eexists. reflexivity.
    - rewrite g_cmds_cons in H.
      destruct (g_groups ho p c rest (is_root_path p) (cmd_group_ctxs c) a acc (negb (is_root_path p)) true rows)
        as [[[[a1 acc1] pc1] rows1]|e|w] eqn:E; cbn [bind fst snd] in H; try discriminate.
      apply g_groups_prefix in E. destruct E as (s1 & ->).
      destruct (described_args c) as [|ar l].
      + cbn [bind fst snd] in H. apply IH in H. destruct H as (s2 & ->).
        exists (s1 ++ s2)%list. now rewrite <- app_assoc.
      + match type of H with bind ?X _ = _ => destruct X as [[acc2 rows2]|e|w] eqn:EA end;
          cbn [bind fst snd] in H; try discriminate.
        apply g_argrows_prefix in EA. destruct EA as (s2 & ->).
        apply IH in H. destruct H as (s3 & ->).
        exists (s1 ++ arg_head p c ++ s2 ++ s3)%list. now rewrite <- !app_assoc.
  Qed.

  (* the text ends with the "Available commands" block of the innermost command *)
  Lemma g_cmds_tail cfg inner : forall l a acc rows t rows',
    g_cmds ho ha cfg inner l a acc rows = Ok (t, rows') ->
    exists pre, t = (pre ++ whr_cmdlist (sorted_visible_cmds inner))%list.
  Proof.
    induction l as [|[p c] rest IH]; intros a acc rows t rows' H.
    - rewrite g_cmds_nil in H. inversion H; subst. eexists. reflexivity.
    - rewrite g_cmds_cons in H.
      destruct (g_groups ho p c rest (is_root_path p) (cmd_group_ctxs c) a acc (negb (is_root_path p)) true rows)
        as [x|e|w]; cbn [bind] in H; try discriminate.
      match type of H with bind ?X _ = _ => destruct X as [y|e|w] end; cbn [bind] in H; try discriminate.
      eapply IH; eassumption.
  Qed.
End Prefix.

(* ================================================================== TARGET 4: command rows *)
(* the aliases, shown beside the short description *)
Definition aliases_text (ci : cinfo) : str :=
  match c_aliases ci with
  | [] => []
  | als => s2l " (aliases: " ++ join als (s2l ", ") ++ s2l ")"
  end%N.

(* the width of the command-name column: the longest name (in characters) *)
Definition cmd_col (sc : list command) : nat :=
  fold_left (fun m c => Nat.max m (rune_count (c_name (cmd_info c)))) sc 0.

(* the row of one command: two blanks, the name, and - ONLY when the command has a short
   description - blanks up to the column, two more blanks, the short description and the
   aliases *)
Definition cmd_row_text (col : nat) (c : command) : str :=
  (s2l "  " ++ c_name (cmd_info c) ++
   (if nonempty (g_short (grp_info (cmd_group c)))
    then spaces (col - rune_count (c_name (cmd_info c))) ++ s2l "  " ++ g_short (grp_info (cmd_group c)) ++
         aliases_text (cmd_info c)
    else []) ++ [10])%N.

Lemma whr_cmdlist_eq sc :
  whr_cmdlist sc =
  match sc with
  | [] => []
  | _ => ([10] ++ s2l "Available commands:" ++ [10] ++ concat (map (cmd_row_text (cmd_col sc)) sc))%N
  end.
Proof. destruct sc; reflexivity. Qed.

Lemma fold_max_ge {A} (f : A -> nat) (l : list A) : forall m,
  m <= fold_left (fun m c => Nat.max m (f c)) l m /\
  forall x, In x l -> f x <= fold_left (fun m c => Nat.max m (f c)) l m.
Proof.
  induction l as [|a l IH]; intros m; cbn [fold_left]; (split; [try lia|]).
  - intros x [].
  - destruct (IH (Nat.max m (f a))) as [H1 _]. lia.
  - destruct (IH (Nat.max m (f a))) as [H1 H2]. intros x [<-|Hin]; [lia|auto].
Qed.

Lemma fold_max_attained {A} (f : A -> nat) (l : list A) : forall m,
  fold_left (fun m c => Nat.max m (f c)) l m = m \/
  exists x, In x l /\ fold_left (fun m c => Nat.max m (f c)) l m = f x.
Proof.
  induction l as [|a l IH]; intros m; cbn [fold_left]; [now left|].
  destruct (IH (Nat.max m (f a))) as [E|(x & Hin & E)].
  - rewrite E. destruct (Nat.max_spec m (f a)) as [[_ ->]|[_ ->]]; [right; exists a; split; [now left|reflexivity]|now left].
  - right. exists x. split; [now right|exact E].
Qed.

(* In the help text the block of the sub-commands of the innermost active command comes
   last.  It lists the non-hidden sub-commands sorted by name, one row each; [col] is the
   length of the longest of their names. *)
Theorem C16_command_row_content : forall cfg root r out rows,
  write_help_rows cfg root r = Ok (out, rows) ->
  let inner := help_innermost root r in
  let sc := sorted_visible_cmds inner in
  let col := cmd_col sc in
  (* which commands, in which order *)
  Permutation sc (filter (fun c => negb (c_hidden (cmd_info c))) (cmd_subs inner)) /\
  StronglySorted (fun x y => str_ltb (c_name (cmd_info y)) (c_name (cmd_info x)) = false) sc /\
  (* the block *)
  (exists pre, out = (pre ++ match sc with
                             | [] => []
                             | _ => [10] ++ s2l "Available commands:" ++ [10] ++ concat (map (cmd_row_text col) sc)
                             end)%N) /\
  (* the column *)
  (forall c, In c sc -> rune_count (c_name (cmd_info c)) <= col) /\
  (sc <> [] -> exists c, In c sc /\ rune_count (c_name (cmd_info c)) = col) /\
  (* the row of a non-hidden sub-command is in the text *)
  (forall c, In c (cmd_subs inner) -> c_hidden (cmd_info c) = false ->
     exists l1 l2 pre,
       sc = l1 ++ c :: l2 /\
       out = (pre ++ [10] ++ s2l "Available commands:" ++ [10] ++
              concat (map (cmd_row_text col) l1) ++ cmd_row_text col c ++ concat (map (cmd_row_text col) l2))%N) /\
  (* the content of a row *)
  (forall c : command,
     let name := c_name (cmd_info c) in
     let sd := g_short (grp_info (cmd_group c)) in
     let als := c_aliases (cmd_info c) in
     (sd = [] -> cmd_row_text col c = (s2l "  " ++ name ++ [10])%N) /\
     (sd <> [] -> als = [] ->
        cmd_row_text col c = (s2l "  " ++ name ++ spaces (col - rune_count name) ++ s2l "  " ++ sd ++ [10])%N) /\
     (sd <> [] -> als <> [] ->
        cmd_row_text col c = (s2l "  " ++ name ++ spaces (col - rune_count name) ++ s2l "  " ++ sd ++
                              s2l " (aliases: " ++ join als (s2l ", ") ++ s2l ")" ++ [10])%N) /\
     (In c sc -> rune_count (name ++ spaces (col - rune_count name)) = col)).
Proof.
  intros cfg root r out rows H inner sc col.
  rewrite gen_write_help_rows_model in H. unfold gen_write_help_rows in H.
  apply g_cmds_tail in H. destruct H as (pre & Hout). fold inner sc in Hout.
  rewrite whr_cmdlist_eq in Hout. fold col in Hout.
  destruct (sort_by_sorted command (fun sc0 => c_name (cmd_info sc0)) (visible_cmds inner)) as (Hss & _ & Hperm).
  assert (Hcol : forall c, In c sc -> rune_count (c_name (cmd_info c)) <= col).
  { intros c Hc. apply (proj2 (fold_max_ge (fun c => rune_count (c_name (cmd_info c))) sc 0)). exact Hc. }
  repeat match goal with |- _ /\ _ => split end.
  - exact Hperm.
  - exact Hss.
  - exists pre. exact Hout.
  - exact Hcol.
  - intros Hne. destruct (fold_max_attained (fun c => rune_count (c_name (cmd_info c))) sc 0) as [E|(x & Hin & E)].
    + destruct sc as [|c0 l] eqn:Esc; [congruence|]. exists c0. split; [now left|].
      pose proof (Hcol c0 (or_introl eq_refl)) as Hle. unfold col, cmd_col in *. lia.
    + exists x. split; [exact Hin|]. unfold col, cmd_col. now rewrite E.
  - intros c Hc Hh.
    assert (Hin : In c sc).
    { apply (Permutation_in _ (Permutation_sym Hperm)). unfold visible_cmds. apply filter_In. split; [exact Hc|].
      now rewrite Hh. }
    destruct (in_split_concat_map (cmd_row_text col) c sc Hin) as (l1 & l2 & E1 & E2).
    exists l1, l2, pre. split; [exact E1|].
    rewrite Hout, E2. destruct sc; [destruct l1; discriminate|]. reflexivity.
  - intros c name sd als. repeat match goal with |- _ /\ _ => split end.
    + intros Hsd. unfold cmd_row_text. fold sd. rewrite Hsd. reflexivity.
    + intros Hsd Hals. unfold cmd_row_text, aliases_text. fold sd als name. rewrite Hals.
      apply nonempty_true_iff in Hsd. rewrite Hsd. rewrite <- !app_assoc. reflexivity.
    + intros Hsd Hals. unfold cmd_row_text, aliases_text. fold sd als name.
      apply nonempty_true_iff in Hsd. rewrite Hsd. destruct als; [congruence|]. rewrite <- !app_assoc. reflexivity.
    + intros Hin. rewrite rc_app_spaces. specialize (Hcol c Hin). fold name in Hcol. lia.
Qed.

(* ================================================================== TARGET 5: argument rows *)
(* the row of a described positional argument: two blanks, the name, a colon, blanks up to the
   description column, and the description wrapped to the width left of that column LESS ONE
   (the option rows use the full remaining width), continuation lines indented to the column *)
Definition arg_row_text (cfg : pconfig) (col : nat) (ar : arg) : str :=
  ((s2l "  " ++ a_name ar ++ s2l ":") ++
   spaces (col - rune_count (s2l "  " ++ a_name ar ++ s2l ":")) ++
   wrap_text (a_desc ar) (cols cfg - 1 - Z.of_nat col) (spaces col) ++ [10])%N.

Lemma g_argrows_text cfg p c dstart : forall l acc rows t rows',
  g_argrows model_ha cfg p c dstart l acc rows = Ok (t, rows') ->
  t = (acc ++ concat (map (arg_row_text cfg dstart) l))%list.
Proof.
  induction l as [|ar l IH]; intros acc rows t rows' H.
  - rewrite g_argrows_nil in H. inversion H; subst. cbn [map concat]. now rewrite app_nil_r.
  - rewrite g_argrows_cons in H. unfold model_ha, arg_pad, repeat_space in H.
    destruct (Z.ltb_spec (Z.of_nat dstart - Z.of_nat (rune_count (s2l "  " ++ a_name ar ++ s2l ":")%N)) 0) as [Hn|Hn];
      [discriminate|].
    apply IH in H. rewrite H. cbn [map concat]. unfold arg_row_text.
    replace (Z.to_nat (Z.of_nat dstart - Z.of_nat (rune_count (s2l "  " ++ a_name ar ++ s2l ":")%N)))
      with (dstart - rune_count (s2l "  " ++ a_name ar ++ s2l ":")%N) by lia.
    rewrite <- !app_assoc. reflexivity.
  Qed.

Lemma g_cmds_args ho cfg inner A : forall l a acc rows t rows',
  g_cmds ho model_ha cfg inner l a acc rows = Ok (t, rows') -> same_cols a A ->
  forall p c, In (p, c) l -> described_args c <> [] ->
  exists pre post,
    t = (pre ++ arg_head p c ++ concat (map (arg_row_text cfg (description_start A + 2)) (described_args c)) ++ post)%list.
Proof.
  induction l as [|[p0 c0] rest IH]; intros a acc rows t rows' H Hc p c Hin Hd; [destruct Hin|].
  rewrite g_cmds_cons in H.
  destruct (g_groups ho p0 c0 rest (is_root_path p0) (cmd_group_ctxs c0) a acc (negb (is_root_path p0)) true rows)
    as [[[[a1 acc1] pc1] rows1]|e|w] eqn:E; cbn [bind fst snd] in H; try discriminate.
  pose proof (g_groups_post _ _ _ _ _ _ _ _ _ _ _ _ _ _ _ E) as (C1 & _ & _).
  assert (Hc1 : same_cols a1 A) by (eapply same_cols_trans; eassumption).
  destruct Hin as [Heq|Hin].
  - inversion Heq; subst p0 c0. destruct (described_args c) as [|ar l'] eqn:ED; [congruence|]. rewrite <- ED in *.
    match type of H with bind ?X _ = _ => destruct X as [[acc2 rows2]|e|w] eqn:EA end;
      cbn [bind fst snd] in H; try discriminate.
    apply g_argrows_text in EA. apply g_cmds_prefix in H. destruct H as (suf & ->).
    exists acc1, suf. rewrite EA, (description_start_cols a1 A Hc1). rewrite <- !app_assoc. reflexivity.
  - match type of H with bind ?X _ = _ => destruct X as [[acc2 rows2]|e|w] end;
      cbn [bind fst snd] in H; try discriminate.
    eapply IH; eassumption.
Qed.

Theorem C16_argument_row_content : forall cfg root r out rows,
  write_help_rows cfg root r = Ok (out, rows) ->
  forall p c, In (p, c) (help_chain root r) ->
  let col := description_start (help_align cfg root r) + 2 in
  let dargs := filter (fun ar : arg => nonempty (a_desc ar)) (cmd_args c) in
  (* the block of the command: a heading and one row per described argument, in order *)
  (dargs <> [] ->
     exists pre post, out = (pre ++ arg_head p c ++ concat (map (arg_row_text cfg col) dargs) ++ post)%list) /\
  arg_head p c = (if is_root_path p then [10] ++ s2l "Arguments:" ++ [10]
                  else [10] ++ s2l "[" ++ c_name (cmd_info c) ++ s2l " command arguments]" ++ [10])%N /\
  (* one row *)
  (forall ar, In ar (cmd_args c) -> a_desc ar <> [] ->
     let name := (s2l "  " ++ a_name ar ++ s2l ":")%N in
     arg_row_text cfg col ar =
       (name ++ spaces (col - rune_count name) ++
        wrap_text (a_desc ar) (cols cfg - 1 - Z.of_nat col) (spaces col) ++ [10])%N /\
     rune_count name < col /\
     rune_count (name ++ spaces (col - rune_count name)) = col /\
     exists pre post, out = (pre ++ arg_row_text cfg col ar ++ post)%list).
Proof.
  intros cfg root r out rows H p c Hpc col dargs.
  rewrite gen_write_help_rows_model in H. unfold gen_write_help_rows in H.
  assert (Hblock : dargs <> [] ->
            exists pre post, out = (pre ++ arg_head p c ++ concat (map (arg_row_text cfg col) dargs) ++ post)%list).
  { intros Hd. exact (g_cmds_args _ cfg _ (help_align cfg root r) _ _ _ _ _ _ H (same_cols_refl _) p c Hpc Hd). }
  split; [exact Hblock|]. split; [reflexivity|].
  intros ar Har Hdesc name.
  assert (Hin : In ar dargs).
  { unfold dargs. apply filter_In. split; [exact Har|]. now apply nonempty_true_iff. }
  assert (Hlt : rune_count name < col).
  { apply (site_arg_dominated cfg (help_chain root r) align0 p c ar col).
    unfold arg_site. split; [exact Hpc|]. split; [exact Har|]. split; [now apply nonempty_true_iff|reflexivity]. }
  split; [reflexivity|]. split; [exact Hlt|]. split; [rewrite rc_app_spaces; lia|].
  destruct Hblock as (pre & post & ->); [intros E; rewrite E in Hin; destruct Hin|].
  destruct (in_split_concat_map (arg_row_text cfg col) ar dargs Hin) as (l1 & l2 & _ & ->).
  exists (pre ++ arg_head p c ++ concat (map (arg_row_text cfg col) l1))%list,
         (concat (map (arg_row_text cfg col) l2) ++ post)%list.
  rewrite <- !app_assoc. reflexivity.
Qed.

(* ================================================================== option rows in the help text *)
(* Targets 1-3 describe the text help_option returns; this section ties it to the help text:
   the row of every displayable option of a displayed group of a command on the active chain
   is help_option applied to the record computed by the alignment pass, with the indent flag
   on exactly for the commands other than the root, and that row is a segment of the text. *)
Section RowsIn.
  Variable ho : list nat -> command -> group -> list str -> list str -> opt -> align -> res str.
  Variable ha : list nat -> command -> arg -> nat -> option str.

  Lemma g_opts_rows_in p c nh g ns envns : forall os a acc pc first rows a' acc' pc' first' rows',
    g_opts ho p c nh g ns envns os a acc pc first rows = Ok (a', acc', pc', first', rows') ->
    al_indent a' || pc' = al_indent a || pc /\
    forall o, In o os -> opt_show_in_help o = true ->
      exists a0 row pre post,
        ho p c g ns envns o a0 = Ok row /\ acc' = (pre ++ row ++ post)%list /\
        same_cols a0 a /\ al_indent a0 = al_indent a || pc.
  Proof.
    induction os as [|o os IH]; intros a acc pc first rows a' acc' pc' first' rows' H.
    - rewrite g_opts_nil in H. inversion H; subst. split; [reflexivity|]. intros o [].
    - rewrite g_opts_cons in H. destruct (opt_show_in_help o) eqn:Hs; cbn [negb] in H.
      + destruct (ho p c g ns envns o (opt_a pc a)) as [row|e|w] eqn:Eho; cbn [bind] in H; try discriminate.
        assert (Hind : al_indent (opt_a pc a) = al_indent a || pc).
        { destruct pc; cbn [opt_a set_indent al_indent]; [now rewrite orb_true_r|now rewrite orb_false_r]. }
        pose proof H as Hp. apply g_opts_prefix in Hp. destruct Hp as (suf & Hsuf).
        destruct (IH _ _ _ _ _ _ _ _ _ _ H) as (I1 & I2). split.
        * rewrite I1, orb_false_r. exact Hind.
        * intros o1 [<-|Hin] Hs1.
          -- exists (opt_a pc a), row, (opt_acc c g nh pc first a acc), suf.
             split; [exact Eho|]. split; [rewrite Hsuf; now rewrite <- app_assoc|].
             split; [apply opt_a_cols|exact Hind].
          -- destruct (I2 o1 Hin Hs1) as (a0 & row1 & pre & post & K1 & K2 & K3 & K4).
             exists a0, row1, pre, post. split; [exact K1|]. split; [exact K2|].
             split; [eapply same_cols_trans; [exact K3|apply opt_a_cols]|].
             rewrite K4, orb_false_r. exact Hind.
      + destruct (IH _ _ _ _ _ _ _ _ _ _ H) as (I1 & I2). split; [exact I1|].
        intros o1 [<-|Hin] Hs1; [congruence|]. now apply I2.
  Qed.

  Lemma g_groups_rows_in p c rest is_root : forall gs a acc pc own rows a' acc' pc' rows',
    g_groups ho p c rest is_root gs a acc pc own rows = Ok (a', acc', pc', rows') ->
    al_indent a' || pc' = al_indent a || pc /\
    forall g ns envns o, In (g, ns, envns) gs ->
      g_hidden (grp_info g) = false -> (g_builtin_help (grp_info g) = true -> is_root = true) ->
      In o (grp_opts g) -> opt_show_in_help o = true ->
      exists a0 row pre post,
        ho p c g ns envns o a0 = Ok row /\ acc' = (pre ++ row ++ post)%list /\
        same_cols a0 a /\ al_indent a0 = al_indent a || pc.
  Proof.
    induction gs as [|[[g ns] envns] gs IH]; intros a acc pc own rows a' acc' pc' rows' H.
    - rewrite g_groups_nil in H. inversion H; subst. split; [reflexivity|]. intros g ns envns o [].
    - rewrite g_groups_cons in H.
      destruct (g_hidden (grp_info g) || (g_builtin_help (grp_info g) && negb is_root)) eqn:Hskip.
      + destruct (IH _ _ _ _ _ _ _ _ _ H) as (I1 & I2). split; [exact I1|].
        intros g1 ns1 envns1 o [Heq|Hin] Hh Hb Ho Hs; [|now apply (I2 g1 ns1 envns1 o)].
        inversion Heq; subst g1 ns1 envns1. rewrite Hh in Hskip. cbn [orb] in Hskip.
        apply andb_true_iff in Hskip. destruct Hskip as [K1 K2]. rewrite (Hb K1) in K2. discriminate.
      + destruct (g_opts ho p c (own && match rest with [] => true | _ => false end) g ns envns
                         (grp_opts g) a acc pc true rows) as [[[[[a1 acc1] pc1] f1] rows1]|e|w] eqn:E;
          cbn [bind fst snd] in H; try discriminate.
        pose proof E as C1. apply g_opts_post in C1. destruct C1 as (C1 & _ & _).
        pose proof E as J. apply g_opts_rows_in in J. destruct J as (J1 & J2).
        pose proof H as Hp. apply g_groups_prefix in Hp. destruct Hp as (suf & Hsuf).
        destruct (IH _ _ _ _ _ _ _ _ _ H) as (I1 & I2). split; [now rewrite I1|].
        intros g1 ns1 envns1 o [Heq|Hin] Hh Hb Ho Hs.
        * inversion Heq; subst g1 ns1 envns1.
          destruct (J2 o Ho Hs) as (a0 & row & pre & post & K1 & K2 & K3 & K4).
          exists a0, row, pre, (post ++ suf)%list. split; [exact K1|].
          split; [rewrite Hsuf, K2; now rewrite <- !app_assoc|]. split; assumption.
        * destruct (I2 g1 ns1 envns1 o Hin Hh Hb Ho Hs) as (a0 & row & pre & post & K1 & K2 & K3 & K4).
          exists a0, row, pre, post. split; [exact K1|]. split; [exact K2|].
          split; [eapply same_cols_trans; eassumption|]. now rewrite K4.
  Qed.

  Lemma g_cmds_rows_in cfg inner A : forall l a acc rows t rows',
    g_cmds ho ha cfg inner l a acc rows = Ok (t, rows') ->
    chain_shape l -> same_cols a A -> (al_indent a = true -> Forall nonroot l) ->
    forall p c g ns envns o, In (p, c) l -> In (g, ns, envns) (cmd_group_ctxs c) ->
      g_hidden (grp_info g) = false -> (g_builtin_help (grp_info g) = true -> is_root_path p = true) ->
      In o (grp_opts g) -> opt_show_in_help o = true ->
      exists a0 row pre post,
        ho p c g ns envns o a0 = Ok row /\ t = (pre ++ row ++ post)%list /\
        same_cols a0 A /\ al_indent a0 = negb (is_root_path p).
  Proof.
    induction l as [|[p0 c0] rest IH]; intros a acc rows t rows' H Hsh Hc Hi p c g ns envns o Hin; [destruct Hin|].
    intros Hg Hh Hb Ho Hs.
    rewrite g_cmds_cons in H.
    destruct (g_groups ho p0 c0 rest (is_root_path p0) (cmd_group_ctxs c0) a acc (negb (is_root_path p0)) true rows)
      as [[[[a1 acc1] pc1] rows1]|e|w] eqn:E; cbn [bind fst snd] in H; try discriminate.
    pose proof E as C1. apply g_groups_post in C1. destruct C1 as (C1 & _ & _).
    assert (Hc1 : same_cols a1 A) by (eapply same_cols_trans; eassumption).
    pose proof E as J. apply g_groups_rows_in in J. destruct J as (_ & J2).
    cbn [chain_shape] in Hsh.
    match type of H with bind ?X _ = _ => destruct X as [[acc2 rows2]|e|w] eqn:EA end;
      cbn [bind fst snd] in H; try discriminate.
    destruct Hin as [Heq|Hin].
    - inversion Heq; subst p0 c0.
      destruct (J2 g ns envns o Hg Hh Hb Ho Hs) as (a0 & row & pre & post & K1 & K2 & K3 & K4).
      assert (Hacc2 : exists s2, acc2 = (acc1 ++ s2)%list).
      { destruct (described_args c) as [|ar l'].
        - inversion EA; subst. exists []. now rewrite app_nil_r.
        - apply g_argrows_prefix in EA. destruct EA as (s2 & ->). eexists. rewrite <- app_assoc. reflexivity. }
      destruct Hacc2 as (s2 & ->).
      apply g_cmds_prefix in H. destruct H as (s3 & ->).
      exists a0, row, pre, (post ++ s2 ++ s3)%list. split; [exact K1|].
      split; [rewrite K2; now rewrite <- !app_assoc|].
      split; [eapply same_cols_trans; eassumption|].
      rewrite K4. destruct (is_root_path p) eqn:Er; cbn [negb]; [|apply orb_true_r].
      rewrite orb_false_r. destruct (al_indent a) eqn:Ea; [|reflexivity].
      specialize (Hi eq_refl). inversion Hi as [|x y Hx Hy]; subst. unfold nonroot in Hx. cbn [fst] in Hx. congruence.
    - eapply (IH a1 acc2 rows2 t rows' H); try eassumption.
      + destruct rest as [|x rest']; [exact I|]. cbn [chain_shape]. now inversion Hsh.
      + intros _. exact Hsh.
  Qed.
End RowsIn.

(* the record with which the rows of the command at path p are laid out *)
Definition row_align (cfg : pconfig) (root : command) (r : rt) (p : list nat) : align :=
  {| al_maxlong := al_maxlong (help_align cfg root r);
     al_hasshort := al_hasshort (help_align cfg root r);
     al_hasvalname := al_hasvalname (help_align cfg root r);
     al_indent := negb (is_root_path p) |}.

Theorem C16_option_row_in_help : forall cfg root r out rows,
  write_help_rows cfg root r = Ok (out, rows) ->
  forall p c g ns envns o,
    In (p, c) (help_chain root r) -> In (g, ns, envns) (cmd_group_ctxs c) ->
    g_hidden (grp_info g) = false -> (g_builtin_help (grp_info g) = true -> p = []) ->
    In o (grp_opts g) -> opt_show_in_help o = true ->
    exists row pre post,
      help_option cfg r o ns envns g (row_align cfg root r p) = Ok row /\
      out = (pre ++ row ++ post)%list.
Proof.
  intros cfg root r out rows H p c g ns envns o Hpc Hg Hh Hb Ho Hs.
  rewrite gen_write_help_rows_model in H. unfold gen_write_help_rows in H.
  destruct (help_chain_shape root r) as (tl & E & Htl).
  destruct (g_cmds_rows_in (model_ho cfg r) model_ha cfg _ (help_align cfg root r) _ _ _ _ _ _ H)
    with (p := p) (c := c) (g := g) (ns := ns) (envns := envns) (o := o)
    as (a0 & row & pre & post & K1 & K2 & (C1 & C2 & C3) & K4); try assumption.
  - rewrite E. exact Htl.
  - apply same_cols_refl.
  - rewrite help_align_indent. discriminate.
  - intros K. rewrite (Hb K). reflexivity.
  - exists row, pre, post. split; [|exact K2]. unfold model_ho in K1.
    replace (row_align cfg root r p) with a0; [exact K1|].
    unfold row_align. destruct a0 as [m hs hv ind]. cbn [al_maxlong al_hasshort al_hasvalname al_indent] in C1, C2, C3, K4.
    now subst.
Qed.

(* ================================================================== TARGET 6: man page entries *)
(* the pieces of the ".TP" entry of an option, in the order in which they are written *)
Definition man_names (cfg : pconfig) (o : opt) (ns : list str) : str :=
  ((if negb (N.eqb (o_short o) 0) then s2l "\fB\-" ++ encode_rune (o_short o) ++ s2l "\fR" else []) ++
   (if nonempty (o_long o) then
      (if negb (N.eqb (o_short o) 0) then s2l ", " else []) ++
      s2l "\fB\-\-" ++ man_quote (long_with_ns (pc_nsdelim cfg) ns (o_long o)) ++ s2l "\fR"
    else []))%N.

Definition man_value (o : opt) : str :=
  (if nonempty (o_valname o) || o_optional o then
     if o_optional o then
       s2l " [\fI" ++ man_quote (o_valname o) ++ s2l "=" ++ man_quote (join (map quote (o_optval o)) (s2l ", ")) ++ s2l "\fR]"
     else s2l " \fI" ++ man_quote (o_valname o) ++ s2l "\fR"
   else [])%N.

Definition man_default (cfg : pconfig) (o : opt) (envns : list str) : str :=
  match o_mask o with
  | [] =>
    match o_default o with
    | [] =>
      match o_envkey o with
      | [] => []
      | k => s2l " <default: \fI$" ++
             man_quote (concat (map (fun n => n ++ pc_envdelim cfg) (filter nonempty envns)) ++ k) ++ s2l "\fR>"
      end
    | ds => s2l " <default: \fI" ++ man_quote (join (map quote ds) (s2l ", ")) ++ s2l "\fR>"
    end
  | m => if str_eqb m (s2l "-") then [] else s2l " <default: \fI" ++ man_quote m ++ s2l "\fR>"
  end%N.

Definition man_required (o : opt) : str := if o_required o then s2l " (\fIrequired\fR)" else [].

Definition man_description (o : opt) : str :=
  if nonempty (o_desc o) then format_for_man (o_desc o) ++ [10%N] else [].

Lemma man_option_eq cfg o ns envns g :
  man_option cfg o ns envns g =
  (s2l ".TP" ++ [10] ++ s2l "\fB" ++ man_names cfg o ns ++ man_value o ++ man_default cfg o envns ++
   man_required o ++ s2l "\fP" ++ [10] ++ man_description o)%N.
Proof.
  unfold man_option, man_names, man_value, man_default, man_required, man_description.
  rewrite env_key_nonempty, env_key_oc_of.
  rewrite <- !app_assoc.
  do 4 f_equal. do 2 f_equal.
  destruct (o_mask o) as [|m0 m]; [|reflexivity].
  destruct (o_default o) as [|d0 d]; [|reflexivity].
  destruct (o_envkey o); reflexivity.
Qed.

(* The entry of an option in the man page.  Differences from the help row: the value name is
   shown whenever it is non-empty or the option's argument is optional (whether or not the
   option takes an argument), an optional argument shows its quoted optional values, the
   choices are not shown, the default is the declared default list (each value quoted, joined
   by ", ") rather than the runtime literal, the environment variable is shown ONLY in place
   of a missing default (no mask, no default), a required option is marked, and everything
   except the description is on one line.  man_quote doubles the backslashes. *)
Theorem C16_man_option_row_content : forall cfg o ns envns g,
  let short := (s2l "\fB\-" ++ encode_rune (o_short o) ++ s2l "\fR")%N in
  let long := (s2l "\fB\-\-" ++ man_quote (long_with_ns (pc_nsdelim cfg) ns (o_long o)) ++ s2l "\fR")%N in
  let ekey := (concat (map (fun n => n ++ pc_envdelim cfg) (filter nonempty envns)) ++ o_envkey o)%N in
  man_option cfg o ns envns g =
    (s2l ".TP" ++ [10] ++ s2l "\fB" ++ man_names cfg o ns ++ man_value o ++ man_default cfg o envns ++
     man_required o ++ s2l "\fP" ++ [10] ++ man_description o)%N /\
  (* names *)
  (o_short o <> 0%N -> o_long o <> [] -> man_names cfg o ns = (short ++ s2l ", " ++ long)%N) /\
  (o_short o <> 0%N -> o_long o = [] -> man_names cfg o ns = short) /\
  (o_short o = 0%N -> o_long o <> [] -> man_names cfg o ns = long) /\
  (o_short o = 0%N -> o_long o = [] -> man_names cfg o ns = []) /\
  (* value *)
  (o_optional o = true ->
     man_value o = (s2l " [\fI" ++ man_quote (o_valname o) ++ s2l "=" ++
                    man_quote (join (map quote (o_optval o)) (s2l ", ")) ++ s2l "\fR]")%N) /\
  (o_optional o = false -> o_valname o <> [] ->
     man_value o = (s2l " \fI" ++ man_quote (o_valname o) ++ s2l "\fR")%N) /\
  (o_optional o = false -> o_valname o = [] -> man_value o = []) /\
  (* default *)
  (o_mask o = s2l "-" -> man_default cfg o envns = []) /\
  (o_mask o <> [] -> o_mask o <> s2l "-" ->
     man_default cfg o envns = (s2l " <default: \fI" ++ man_quote (o_mask o) ++ s2l "\fR>")%N) /\
  (o_mask o = [] -> o_default o <> [] ->
     man_default cfg o envns =
       (s2l " <default: \fI" ++ man_quote (join (map quote (o_default o)) (s2l ", ")) ++ s2l "\fR>")%N) /\
  (o_mask o = [] -> o_default o = [] -> o_envkey o <> [] ->
     man_default cfg o envns = (s2l " <default: \fI$" ++ man_quote ekey ++ s2l "\fR>")%N /\
     env_key (pc_envdelim cfg) (oc_of o ns envns g) = ekey) /\
  (o_mask o = [] -> o_default o = [] -> o_envkey o = [] -> man_default cfg o envns = []) /\
  (* required *)
  (o_required o = true -> man_required o = s2l " (\fIrequired\fR)") /\
  (o_required o = false -> man_required o = []) /\
  (* description *)
  (o_desc o = [] -> man_description o = []) /\
  (o_desc o <> [] -> man_description o = (format_for_man (o_desc o) ++ [10])%N).
Proof.
  intros cfg o ns envns g short long ekey.
  repeat match goal with |- _ /\ _ => split end.
  - apply man_option_eq.
  - intros Hs Hl. unfold man_names. apply N.eqb_neq in Hs. rewrite Hs. apply nonempty_true_iff in Hl. rewrite Hl.
    cbn [negb]. unfold short, long. rewrite <- !app_assoc. reflexivity.
  - intros Hs Hl. unfold man_names. apply N.eqb_neq in Hs. rewrite Hs, Hl. cbn [negb nonempty].
    now rewrite app_nil_r.
  - intros Hs Hl. unfold man_names. rewrite Hs. apply nonempty_true_iff in Hl. rewrite Hl. reflexivity.
  - intros Hs Hl. unfold man_names. rewrite Hs, Hl. reflexivity.
  - intros Ho. unfold man_value. rewrite Ho, orb_true_r. reflexivity.
  - intros Ho Hv. unfold man_value. rewrite Ho. apply nonempty_true_iff in Hv. rewrite Hv. reflexivity.
  - intros Ho Hv. unfold man_value. rewrite Ho, Hv. reflexivity.
  - intros Hm. unfold man_default. rewrite Hm. reflexivity.
  - intros Hm Hd. unfold man_default. destruct (o_mask o) as [|m0 m]; [congruence|].
    destruct (str_eqb_spec (m0 :: m) (s2l "-")); [congruence|reflexivity].
  - intros Hm Hd. unfold man_default. rewrite Hm. destruct (o_default o); [congruence|reflexivity].
  - intros Hm Hd He. split.
    + unfold man_default, ekey. rewrite Hm, Hd. destruct (o_envkey o); [congruence|reflexivity].
    + rewrite env_key_oc_of. unfold ekey. destruct (o_envkey o); [congruence|reflexivity].
  - intros Hm Hd He. unfold man_default. rewrite Hm, Hd, He. reflexivity.
  - intros H. unfold man_required. now rewrite H.
  - intros H. unfold man_required. now rewrite H.
  - intros H. unfold man_description. now rewrite H.
  - intros H. unfold man_description. apply nonempty_true_iff in H. now rewrite H.
Qed.

(* the entries are segments of the option part of the man page of the command ... *)
Lemma flat_map_in_split {A} (f : A -> str) (x : A) (l : list A) :
  In x l -> exists pre post, flat_map f l = (pre ++ f x ++ post)%list.
Proof.
  intros H. apply in_split in H. destruct H as (l1 & l2 & ->).
  exists (flat_map f l1), (flat_map f l2). now rewrite flat_map_app.
Qed.

Theorem C16_man_option_row_in_page : forall cfg c g ns envns o,
  In (g, ns, envns) (cmd_group_ctxs c) -> group_show_in_help g = true ->
  In o (grp_opts g) -> opt_show_in_help o = true ->
  exists pre post, man_options cfg c = (pre ++ man_option cfg o ns envns g ++ post)%list.
Proof.
  intros cfg c g ns envns o Hg Hsg Ho Hs. rewrite C16_man_rows.
  assert (Hin : In (g, ns, envns)
                   (filter (fun gc : group * list str * list str => group_show_in_help (fst (fst gc))) (cmd_group_ctxs c))).
  { apply filter_In. split; [exact Hg|exact Hsg]. }
  destruct (flat_map_in_split (man_group_block cfg c) _ _ Hin) as (pre1 & post1 & ->).
  assert (Hino : In o (filter opt_show_in_help (grp_opts g))) by (apply filter_In; split; assumption).
  unfold man_group_block. cbv beta iota zeta.
  destruct (flat_map_in_split (fun o => man_option cfg o ns envns g) _ _ Hino) as (pre2 & post2 & ->).
  exists (pre1 ++ man_group_header c g ++ pre2)%list, (post2 ++ post1)%list.
  rewrite <- !app_assoc. reflexivity.
Qed.

(* ... and the option part of the top-level command is a segment of the man page *)
Lemma app_mid_step (m a rest : str) :
  (exists pre post, rest = (pre ++ m ++ post)%list) -> exists pre post, (a ++ rest)%list = (pre ++ m ++ post)%list.
Proof. intros (pre & post & ->). exists (a ++ pre)%list, post. now rewrite <- app_assoc. Qed.

Theorem C16_man_options_in_page : forall cfg root date,
  exists pre post, write_man cfg root date = (pre ++ man_options cfg root ++ post)%list.
Proof.
  intros cfg root date. unfold write_man. cbv zeta.
  repeat lazymatch goal with
         | |- exists pre post, (man_options _ _ ++ _ = _)%list => fail
         | _ => apply app_mid_step
         end.
  eexists [], _. reflexivity.
Qed.

(* ================================================================== instances *)
Module RowSample.
  Import HelpSpec.Sample.

  (* a long-only string option with a value name, choices, a default and an environment key *)
  Definition o_fmt : opt :=
    {| o_fid := 7; o_field := s2l "Format"; o_short := 0; o_long := s2l "format";
       o_desc := s2l "Output format"; o_default := [s2l "text"]; o_envkey := s2l "FORMAT"; o_envdelim := [];
       o_optional := false; o_optval := []; o_required := false; o_valname := s2l "FMT"; o_mask := [];
       o_choices := [s2l "text"; s2l "json"]; o_hidden := false; o_ininame := []; o_noini := false; o_unquote := true;
       o_base := []; o_ty := TScalar KString; o_is_help := false |}.
  (* a bool flag with a short name only, no description, and an environment key *)
  Definition o_quiet : opt :=
    {| o_fid := 8; o_field := s2l "Quiet"; o_short := 113; o_long := [];
       o_desc := []; o_default := []; o_envkey := s2l "QUIET"; o_envdelim := [];
       o_optional := false; o_optval := []; o_required := false; o_valname := []; o_mask := [];
       o_choices := []; o_hidden := false; o_ininame := []; o_noini := false; o_unquote := true;
       o_base := []; o_ty := TScalar KBool; o_is_help := false |}.
  Definition rfmt : rt :=
    {| rt_vals := fun _ => VStr []; rt_fl := fun k => if Nat.eqb k 7 then lit (s2l "text") else oflags0;
       rt_active := []; rt_logs := logs0 |}.
  Definition a1 : align := {| al_maxlong := 30; al_hasshort := true; al_hasvalname := true; al_indent := true |}.

  (* TARGET 1: WrapSpec's example option (short and long name, value name) *)
  Example names_example_opt :
    o_short example_opt <> 0%N /\ o_long example_opt <> [] /\
    help_line2 cfg example_opt [] example_align = s2l "  -v, --verbose=LEVEL".
  Proof. split; [discriminate|]. split; [discriminate|]. vm_compute. reflexivity. Qed.
  (* long name only, under two namespaces (an empty one in between is skipped), indented row,
     some other option has a short name: 2 + 4 + 4 blanks; value name and choices *)
  Example names_long_only :
    o_short o_fmt = 0%N /\ o_long o_fmt <> [] /\ o_choices o_fmt <> [] /\
    help_line2 cfg o_fmt [s2l "out"; []; s2l "fmt"] a1 = s2l "          --out.fmt.format=FMT[text|json]".
  Proof. split; [reflexivity|]. split; [discriminate|]. split; [discriminate|]. vm_compute. reflexivity. Qed.
  (* a bool flag: no `=` *)
  Example names_bool_flag :
    o_short o_quiet <> 0%N /\ o_long o_quiet = [] /\ can_argument o_quiet = false /\
    help_line2 cfg o_quiet [] a1 = s2l "      -q".
  Proof. split; [discriminate|]. split; [reflexivity|]. split; [reflexivity|]. vm_compute. reflexivity. Qed.

  (* TARGET 2: description, default literal, namespaced environment key *)
  Example desc_default_env :
    o_desc o_fmt <> [] /\ o_mask o_fmt = [] /\ f_deflit (rt_fl rfmt (o_fid o_fmt)) <> [] /\ o_envkey o_fmt <> [] /\
    help_desc cfg rfmt o_fmt [] [s2l "APP"; []; s2l "OUT"] g_root = s2l "Output format (default: text) [$APP_OUT_FORMAT]".
  Proof. split; [discriminate|]. split; [reflexivity|]. split; [discriminate|]. split; [discriminate|]. vm_compute. reflexivity. Qed.
  Example desc_row :
    help_option cfg rfmt o_fmt [s2l "out"] [s2l "APP"] g_root a1 =
    Ok (s2l "          --out.format=FMT[text|json]      Output format (default: text)" ++ [10%N] ++
        s2l "                                           [$APP_FORMAT]" ++ [10%N]).
  Proof. vm_compute. reflexivity. Qed.
  (* the sketch's "help_desc = [] for an empty description" does not hold for HelpSafe.help_desc;
     the row nevertheless shows nothing beside the names *)
  Example help_desc_of_empty_description_not_empty :
    o_desc o_quiet = [] /\
    help_desc cfg rfmt o_quiet [] [s2l "APP"] g_root = s2l " [$APP_QUIET]" /\
    help_option cfg rfmt o_quiet [] [s2l "APP"] g_root a1 = Ok (s2l "      -q" ++ [10%N]).
  Proof. split; [reflexivity|]. split; vm_compute; reflexivity. Qed.

  (* TARGET 3: the premise holds for the masked option of HelpSpec's sample, whose default
     literal differs between the states r1 ("hunter2") and r2 ("swordfish") *)
  Example masked_instance :
    o_mask o_pass <> [] /\ f_deflit (rt_fl r1 (o_fid o_pass)) <> f_deflit (rt_fl r2 (o_fid o_pass)) /\
    help_desc cfg r1 o_pass [[]] [[]] g_root = s2l "Password (default: ****)" /\
    help_desc cfg r2 (opt_with_default o_pass [s2l "swordfish"]) [[]] [[]] g_root = s2l "Password (default: ****)".
  Proof. split; [discriminate|]. split; [discriminate|]. split; vm_compute; reflexivity. Qed.

  (* TARGET 4: sub-commands with and without aliases and short description, one hidden *)
  Definition mkcia (name : str) (als : list str) (hidden : bool) : cinfo :=
    {| c_name := name; c_aliases := als; c_sub_optional := false; c_args_required := false;
       c_hidden := hidden; c_exec := ExNone; c_usage := None; c_has_help := true |}.
  Definition c_list : command :=
    Command (mkcia (s2l "list") [] false) (Group (mkgi (s2l "List things") false) [] []) [] [].
  Definition c_remove : command :=
    Command (mkcia (s2l "remove") [s2l "rm"; s2l "del"] false) (Group (mkgi (s2l "Remove a thing") false) [] []) [] [].
  Definition c_bare : command :=
    Command (mkcia (s2l "x") [s2l "ex"] false) (Group (mkgi [] false) [] []) [] [].
  Definition c_hid : command :=
    Command (mkcia (s2l "secret") [] true) (Group (mkgi (s2l "Secret") false) [] []) [] [].
  Definition root2 : command :=
    Command (mkci (s2l "app") false) (Group (mkgi (s2l "Application Options") false) [o_user] [])
            [] [c_remove; c_hid; c_list; c_bare].
  Definition r0 : rt := {| rt_vals := fun _ => VStr []; rt_fl := fun _ => oflags0; rt_active := []; rt_logs := logs0 |}.

  Example commands_premises :
    (exists out rows, write_help_rows cfg root2 r0 = Ok (out, rows)) /\
    help_innermost root2 r0 = root2 /\ sorted_visible_cmds root2 = [c_list; c_remove; c_bare] /\
    cmd_col (sorted_visible_cmds root2) = 6 /\
    In c_remove (cmd_subs root2) /\ c_hidden (cmd_info c_remove) = false.
  Proof.
    split; [eexists; eexists; vm_compute; reflexivity|]. split; [reflexivity|]. split; [vm_compute; reflexivity|].
    split; [vm_compute; reflexivity|]. split; [cbn; tauto|reflexivity].
  Qed.
  Example commands_rows :
    cmd_row_text 6 c_list = s2l "  list    List things" ++ [10%N] /\
    cmd_row_text 6 c_remove = s2l "  remove  Remove a thing (aliases: rm, del)" ++ [10%N] /\
    (* no short description: the aliases are not shown either *)
    cmd_row_text 6 c_bare = s2l "  x" ++ [10%N].
  Proof. split; [|split]; vm_compute; reflexivity. Qed.
  Example commands_help :
    write_help cfg root2 r0 =
    Ok (s2l "Usage:" ++ [10%N] ++
        s2l "  app [OPTIONS] <list | remove | x>" ++ [10%N] ++
        s2l "  -u, --user= User name" ++ [10%N] ++
        [10%N] ++
        s2l "Available commands:" ++ [10%N] ++
        s2l "  list    List things" ++ [10%N] ++
        s2l "  remove  Remove a thing (aliases: rm, del)" ++ [10%N] ++
        s2l "  x" ++ [10%N]).
  Proof. vm_compute. reflexivity. Qed.

  (* TARGET 5: the described argument of the active sub-command "add" of HelpSpec's sample *)
  Example argument_premises :
    (exists out rows, write_help_rows cfg root r1 = Ok (out, rows)) /\
    In ([0], c_add) (help_chain root r1) /\ In a_file (cmd_args c_add) /\ a_desc a_file <> [] /\
    description_start (help_align cfg root r1) + 2 = 19.
  Proof.
    split; [eexists; eexists; vm_compute; reflexivity|]. split; [vm_compute; tauto|].
    split; [cbn; tauto|]. split; [discriminate|]. vm_compute. reflexivity.
  Qed.
  Example argument_row :
    arg_head [0] c_add = [10%N] ++ s2l "[add command arguments]" ++ [10%N] /\
    arg_row_text cfg 19 a_file = s2l "  FILE:            Input file" ++ [10%N].
  Proof. split; vm_compute; reflexivity. Qed.

  (* the option rows of the sample: the root's rows are not indented, those of "add" are *)
  Example option_row_in_help_instance :
    row_align cfg root r1 [0] = {| al_maxlong := 9; al_hasshort := true; al_hasvalname := false; al_indent := true |} /\
    help_option cfg r1 o_force [[]] [[]] (cmd_group c_add) (row_align cfg root r1 [0]) =
      Ok (s2l "      -f, --force= Force" ++ [10%N]) /\
    help_option cfg r1 o_user [[]] [[]] g_root (row_align cfg root r1 []) =
      Ok (s2l "  -u, --user=      User name (default: root)" ++ [10%N]).
  Proof. split; [|split]; vm_compute; reflexivity. Qed.

  (* TARGET 6 *)
  Example man_example_opt :
    man_option cfg example_opt [] [] g_root =
    s2l ".TP" ++ [10%N] ++ s2l "\fB\fB\-v\fR, \fB\-\-verbose\fR \fILEVEL\fR\fP" ++ [10%N] ++
    s2l "Show verbose debug information" ++ [10%N].
  Proof. vm_compute. reflexivity. Qed.
  (* the declared default, quoted; the choices and the environment key are not shown *)
  Example man_default_quoted :
    man_option cfg o_fmt [s2l "out"] [s2l "APP"] g_root =
    s2l ".TP" ++ [10%N] ++ s2l "\fB\fB\-\-out.format\fR \fIFMT\fR <default: \fI""text""\fR>\fP" ++ [10%N] ++
    s2l "Output format" ++ [10%N].
  Proof. vm_compute. reflexivity. Qed.
  (* the mask instead of the default *)
  Example man_masked :
    man_option cfg o_pass [[]] [[]] g_root =
    s2l ".TP" ++ [10%N] ++ s2l "\fB\fB\-p\fR, \fB\-\-password\fR <default: \fI****\fR>\fP" ++ [10%N] ++
    s2l "Password" ++ [10%N].
  Proof. vm_compute. reflexivity. Qed.
  (* no default: the environment variable takes its place; no description: nothing after the entry line *)
  Example man_env_as_default :
    man_option cfg o_quiet [] [s2l "APP"] g_root =
    s2l ".TP" ++ [10%N] ++ s2l "\fB\fB\-q\fR <default: \fI$APP_QUIET\fR>\fP" ++ [10%N].
  Proof. vm_compute. reflexivity. Qed.
  Example man_in_page_premises :
    In (g_root, [[]], [[]]) (cmd_group_ctxs root) /\ group_show_in_help g_root = true /\
    In o_pass (grp_opts g_root) /\ opt_show_in_help o_pass = true.
  Proof. vm_compute. repeat split; tauto. Qed.
End RowSample.

(* ================================================================== assumptions *)
Print Assumptions C16_option_row_names.
Print Assumptions C16_option_row_description.
Print Assumptions C16_masked_default_never_in_row.
Print Assumptions C16_command_row_content.
Print Assumptions C16_argument_row_content.
Print Assumptions C16_man_option_row_content.
Print Assumptions C16_option_row_in_help.
Print Assumptions C16_man_option_row_in_page.
Print Assumptions C16_man_options_in_page.
