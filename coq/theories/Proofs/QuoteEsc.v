(* hex digits, and the per-rune round trip: unquote_char undoes one escape emitted by Quote *)
From GoFlags Require Import Base.Str Base.Utf8 Golib.Strings Golib.Strconv Proofs.QuoteUtf8.
From Coq Require Import Lia ZifyN ZifyBool ZifyNat.
Open Scope N_scope.
Ltac Zify.zify_post_hook ::= Z.div_mod_to_equations.

Lemma is_print_ascii r : r < 127 -> is_print r = (32 <=? r).
Proof. intros H; unfold is_print. apply N.ltb_lt in H. rewrite H. reflexivity. Qed.
Global Opaque is_print.

(* ---- hex *)
Lemma hexdig_range d : d < 16 -> 48 <= hexdig d <= 102.
Proof. unfold hexdig; intros; destruct (N.ltb_spec d 10); lia. Qed.

Lemma unhex_hexdig d : d < 16 -> unhex (hexdig d) = Some d.
Proof.
  intros H; unfold unhex, hexdig. destruct (N.ltb_spec d 10).
  - replace ((48 <=? 48 + d) && (48 + d <=? 57)) with true by lia. f_equal; lia.
  - replace ((48 <=? 87 + d) && (87 + d <=? 57)) with false by lia.
    replace ((97 <=? 87 + d) && (87 + d <=? 102)) with true by lia. f_equal; lia.
Qed.

Lemma hex2_range b x : In x (hex2 b) -> 48 <= x <= 102.
Proof.
  unfold hex2; intros [<-|[<-|[]]]; apply hexdig_range; apply N.mod_lt; lia.
Qed.
Lemma hex4_range b x : In x (hex4 b) -> 48 <= x <= 102.
Proof. unfold hex4; intros H; apply in_app_or in H; destruct H; eapply hex2_range; eauto. Qed.
Lemma hex8_range b x : In x (hex8 b) -> 48 <= x <= 102.
Proof. unfold hex8; intros H; apply in_app_or in H; destruct H; eapply hex4_range; eauto. Qed.

Lemma read_hex_hex2 n b rest acc :
  read_hex (S (S n)) (hex2 b ++ rest) acc = read_hex n rest (acc * 256 + b mod 256).
Proof.
  unfold hex2; cbn [app read_hex].
  rewrite !unhex_hexdig by (apply N.mod_lt; lia). f_equal. lia.
Qed.

Lemma read_hex2 b rest : b < 256 -> read_hex 2 (hex2 b ++ rest) 0 = Some (b, rest).
Proof. intros; rewrite read_hex_hex2; cbn [read_hex]. do 2 f_equal. lia. Qed.

Lemma read_hex4 r rest : r < 65536 -> read_hex 4 (hex4 r ++ rest) 0 = Some (r, rest).
Proof.
  intros; unfold hex4. rewrite <- app_assoc, !read_hex_hex2; cbn [read_hex]. do 2 f_equal. lia.
Qed.

Lemma read_hex8 r rest : r < 4294967296 -> read_hex 8 (hex8 r ++ rest) 0 = Some (r, rest).
Proof.
  intros; unfold hex8, hex4. rewrite <- !app_assoc, !read_hex_hex2; cbn [read_hex]. do 2 f_equal. lia.
Qed.

(* ---- one-step behaviour of unquote_char *)
Lemma uq_raw c s1 : c <> dq -> c < 128 -> c <> bs -> unquote_char (c :: s1) = Some ([c], s1).
Proof.
  intros H1 H2 H3; unfold unquote_char.
  destruct (N.eqb_spec c dq); [congruence|].
  destruct (N.leb_spec 128 c); [lia|].
  destruct (N.eqb_spec c bs); [congruence|]. reflexivity.
Qed.

Lemma uq_wide c s1 : 128 <= c ->
  unquote_char (c :: s1) = let '(r, w) := decode_rune (c :: s1) in Some (encode_rune r, skipn w (c :: s1)).
Proof.
  intros H; unfold unquote_char.
  destruct (N.eqb_spec c dq); [unfold dq in *; lia|].
  destruct (N.leb_spec 128 c); [|lia]. reflexivity.
Qed.

Lemma uq_x s2 : unquote_char (bs :: 120 :: s2) =
  match read_hex 2 s2 0 with Some (v, r) => Some ([v], r) | None => None end.
Proof. reflexivity. Qed.
Lemma uq_u s2 : unquote_char (bs :: 117 :: s2) =
  match read_hex 4 s2 0 with
  | Some (v, r) => if valid_rune v then Some (encode_rune v, r) else None
  | None => None end.
Proof. reflexivity. Qed.
Lemma uq_U s2 : unquote_char (bs :: 85 :: s2) =
  match read_hex 8 s2 0 with
  | Some (v, r) => if valid_rune v then Some (encode_rune v, r) else None
  | None => None end.
Proof. reflexivity. Qed.

Lemma encode_small r x : In x (encode_rune r) -> x = r \/ 128 <= x.
Proof.
  unfold encode_rune.
  repeat match goal with |- context [if ?c then _ else _] => destruct c end;
  cbn [In]; intros H; repeat (destruct H as [H|H]; [subst x|]); try contradiction; auto; right; lia.
Qed.

Lemma skipn_firstn_app {A} n (l rest : list A) : (n <= length l)%nat -> skipn n (firstn n l ++ rest) = rest.
Proof.
  intros H. rewrite skipn_app, firstn_length, Nat.min_l by exact H.
  rewrite Nat.sub_diag, skipn_all2 by (rewrite firstn_length; lia). reflexivity.
Qed.

(* the escape emitted by quote_body for one rune: b = first source byte, (r, w) = decode *)
Definition esc1 (b r : N) (w : nat) : str :=
  if N.eqb r rune_error && Nat.eqb w 1 then bs :: 120 :: hex2 b else escaped_rune r.

Ltac bs_escape Hasc :=
  destruct (Hasc eq_refl) as [-> ->];
  (split; [intros; reflexivity
         | split; [ let Hin := fresh "Hin" in intros Hin; cbv in Hin; intuition discriminate
                  | left; eexists; reflexivity]]).

Lemma esc1_spec b t r w :
  (forall c, In c (b :: t) -> c < 256) -> dec (b :: t) r w ->
  (forall rest, unquote_char (esc1 b r w ++ rest) = Some (firstn w (b :: t), rest)) /\
  ~ In 10 (esc1 b r w) /\
  ((exists e', esc1 b r w = 92 :: e') \/ (esc1 b r w = firstn w (b :: t) /\ ~ In 34 (esc1 b r w))).
Proof.
  intros Hok Hd. unfold esc1.
  assert (Hb: b < 256) by (apply Hok; left; reflexivity).
  destruct (N.eqb r rune_error && Nat.eqb w 1) eqn:Hc.
  - apply andb_prop in Hc. destruct Hc as [Hr Hw]. apply N.eqb_eq in Hr. apply Nat.eqb_eq in Hw. subst w.
    split; [|split].
    + intros rest. cbn [app firstn]. rewrite uq_x, read_hex2 by exact Hb. reflexivity.
    + intros [Hin|[Hin|Hin]]; [discriminate Hin|discriminate Hin|apply hex2_range in Hin; lia].
    + left; eexists; reflexivity.
  - assert (Hwl: (1 <= w <= 4)%nat /\ (w <= length (b :: t))%nat) by (apply (dec_width _ _ _ Hd); discriminate).
    assert (Hcase: (w = 1%nat /\ r = b /\ b < 128) \/ ((1 < w)%nat /\ 128 <= r /\ 128 <= b)).
    { destruct (Nat.eq_dec w 1) as [->|Hn].
      - left. destruct (dec_w1 _ _ _ Hd eq_refl) as (b' & t' & E & [[? ?]|[? ?]]); injection E as <- <-.
        + auto.
        + subst r. rewrite N.eqb_refl in Hc. discriminate Hc.
      - right. assert (Hw: (1 < w)%nat) by lia. split; [exact Hw|].
        destruct (dec_wide _ _ _ Hd Hw) as (? & b' & t' & E & ?). injection E as <- <-. auto. }
    assert (Hasc: r < 128 -> w = 1%nat /\ b = r) by (intros; destruct Hcase as [(?&?&?)|(?&?&?)]; [auto|lia]).
    assert (Henc: encode_rune r = firstn w (b :: t)).
    { destruct Hcase as [(-> & -> & ?)|(? & ? & ?)].
      - unfold encode_rune. replace (b <? 128) with true by lia. reflexivity.
      - apply dec_encode; assumption. }
    destruct (dec_valid _ _ _ Hd) as [Hval Hmax].
    unfold escaped_rune.
    destruct (N.eqb_spec r dq) as [->|Hndq]; [bs_escape Hasc|].
    destruct (N.eqb_spec r bs) as [->|Hnbs]; [bs_escape Hasc|]. cbn [orb].
    destruct (is_print r) eqn:Hp.
    { rewrite Henc. split; [|split].
      - intros rest. destruct Hcase as [(-> & -> & ?)|(Hw & ? & ?)].
        + cbn [firstn app]. apply uq_raw; auto.
        + rewrite <- Henc at 2.
          pose proof (dec_prefix _ _ _ Hd Hw rest) as Hpre.
          destruct w as [|w']; [lia|]. 
          change (firstn (S w') (b :: t) ++ rest) with (b :: (firstn w' t ++ rest)) in *.
          rewrite uq_wide by assumption. rewrite Hpre.
          change (b :: (firstn w' t ++ rest)) with (firstn (S w') (b :: t) ++ rest).
          rewrite skipn_firstn_app by lia. reflexivity.
      - rewrite <- Henc. intros Hin. apply encode_small in Hin. destruct Hin as [<-|Hin]; [|lia].
        rewrite is_print_ascii in Hp by lia. discriminate Hp.
      - right. split; [reflexivity|]. rewrite <- Henc. intros Hin. apply encode_small in Hin.
        destruct Hin as [<-|Hin]; [|lia]. apply Hndq; reflexivity. }
    destruct (N.eqb_spec r 7) as [->|?]; [bs_escape Hasc|].
    destruct (N.eqb_spec r 8) as [->|?]; [bs_escape Hasc|].
    destruct (N.eqb_spec r 12) as [->|?]; [bs_escape Hasc|].
    destruct (N.eqb_spec r 10) as [->|?]; [bs_escape Hasc|].
    destruct (N.eqb_spec r 13) as [->|?]; [bs_escape Hasc|].
    destruct (N.eqb_spec r 9) as [->|?]; [bs_escape Hasc|].
    destruct (N.eqb_spec r 11) as [->|?]; [bs_escape Hasc|].
    destruct (N.ltb r 32 || N.eqb r 127) eqn:Hx.
    { destruct (Hasc ltac:(lia)) as [-> ->]. split; [|split].
      - intros rest. cbn [app firstn]. rewrite uq_x, read_hex2 by exact Hb. reflexivity.
      - intros [Hin|[Hin|Hin]]; [discriminate Hin|discriminate Hin|apply hex2_range in Hin; lia].
      - left; eexists; reflexivity. }
    destruct (N.ltb_spec r 65536).
    { split; [|split].
      - intros rest. cbn [app]. rewrite uq_u, read_hex4 by assumption. rewrite Hval, Henc. reflexivity.
      - intros [Hin|[Hin|Hin]]; [discriminate Hin|discriminate Hin|apply hex4_range in Hin; lia].
      - left; eexists; reflexivity. }
    { split; [|split].
      - intros rest. cbn [app]. rewrite uq_U, read_hex8 by lia. rewrite Hval, Henc. reflexivity.
      - intros [Hin|[Hin|Hin]]; [discriminate Hin|discriminate Hin|apply hex8_range in Hin; lia].
      - left; eexists; reflexivity. }
Qed.
