(* C01 ("option fields hold exactly what the command line denotes") and
   C05 ("defaults and value-source precedence"): specifications of Option.Set,
   Option.call, Option.setDefault, Option.clearDefault (Model/State.v) and the
   frame theorem for the ParseArgs loop (Model/Parse.v). *)
From GoFlags Require Import Base.Str Base.Utf8 Golib.Strings Golib.Strconv
     Model.Types Model.Tag Model.Scan Model.Lookup Model.Convert Model.State Model.Closest Model.Parse.
From GoFlags Require Import Proofs.FrameBase Proofs.LookupSpec.
From Coq Require Import Lia.
Open Scope N_scope.

(* ================================================================== basics *)

(* only the Ok outcome is constrained *)
Definition wpT {A} (x : res A) (Q : A -> Prop) : Prop := wp (fun _ => True) x Q.

Lemma wpT_bind {A B} (a : res A) (f : A -> res B) Q :
  wpT a (fun x => wpT (f x) Q) -> wpT (bind a f) Q.
Proof. apply wp_bind. Qed.
Lemma wpT_conseq {A} (a : res A) (Q Q' : A -> Prop) :
  wpT a Q -> (forall x, Q x -> Q' x) -> wpT a Q'.
Proof. apply wp_conseq. Qed.
Lemma wpT_ok {A} (a : res A) Q x : wpT a Q -> a = Ok x -> Q x.
Proof. apply wp_ok. Qed.
Lemma wpT_any {A} (a : res A) : wpT a (fun _ => True).
Proof. destruct a; exact I. Qed.

Ltac wpT_bind_with L := apply wpT_bind; eapply wpT_conseq; [ apply L | ].

Lemma upd_eq {A} (f : nat -> A) k v : upd f k v k = v.
Proof. unfold upd. rewrite Nat.eqb_refl. reflexivity. Qed.
Lemma upd_neq {A} (f : nat -> A) k v i : i <> k -> upd f k v i = f i.
Proof. intros H. unfold upd. destruct (Nat.eqb_spec i k); [contradiction|reflexivity]. Qed.

Lemma existsb_str_eqb_in v cs : existsb (str_eqb v) cs = true <-> In v cs.
Proof.
  rewrite existsb_exists. split.
  - intros [x [Hin Heq]]. apply str_eqb_eq in Heq. subst. exact Hin.
  - intros Hin. exists v. split; [exact Hin|apply str_eqb_refl].
Qed.
Lemma existsb_str_eqb_notin v cs : existsb (str_eqb v) cs = false <-> ~ In v cs.
Proof.
  rewrite <- existsb_str_eqb_in. destruct (existsb (str_eqb v) cs); split; intros H; congruence.
Qed.

(* the bookkeeping performed by every Option.Set: isSet, preventDefault := true,
   clearReferenceBeforeSet := false, isSetDefault kept *)
Definition set_flags (fl : oflags) : oflags := fl_with fl true (f_isdefault fl) true false.

(* ================================================================== frame relation *)

(* [r'] differs from [r] at most in the value and the bookkeeping of field [fid]
   and by callback-log entries for [fid] appended to l_calls *)
Definition frame_at (fid : nat) (r r' : rt) : Prop :=
  (forall k, k <> fid -> rt_vals r' k = rt_vals r k) /\
  (forall k, k <> fid -> rt_fl r' k = rt_fl r k) /\
  rt_active r' = rt_active r /\
  l_exec (rt_logs r') = l_exec (rt_logs r) /\
  l_unknown (rt_logs r') = l_unknown (rt_logs r) /\
  l_out (rt_logs r') = l_out (rt_logs r) /\
  exists ext, l_calls (rt_logs r') = l_calls (rt_logs r) ++ ext /\
              Forall (fun c : nat * option value => fst c = fid) ext.

Lemma frame_refl fid r : frame_at fid r r.
Proof.
  repeat split. exists []. split; [symmetry; apply app_nil_r|constructor].
Qed.

Lemma frame_trans fid r1 r2 r3 : frame_at fid r1 r2 -> frame_at fid r2 r3 -> frame_at fid r1 r3.
Proof.
  intros [A1 [A2 [A3 [A4 [A5 [A6 [e1 [A7 A8]]]]]]]] [B1 [B2 [B3 [B4 [B5 [B6 [e2 [B7 B8]]]]]]]].
  unfold frame_at. repeat split; try congruence.
  - intros k Hk. rewrite (B1 k Hk). apply A1; exact Hk.
  - intros k Hk. rewrite (B2 k Hk). apply A2; exact Hk.
  - exists (e1 ++ e2). split.
    + rewrite B7, A7, app_assoc. reflexivity.
    + apply Forall_app. split; assumption.
Qed.

Lemma frame_set_val fid r v : frame_at fid r (set_val r fid v).
Proof.
  unfold frame_at; cbn [set_val rt_vals rt_fl rt_active rt_logs]. repeat split.
  - intros k Hk. apply upd_neq; exact Hk.
  - exists []. split; [symmetry; apply app_nil_r|constructor].
Qed.

Lemma frame_set_fl fid r f : frame_at fid r (set_fl r fid f).
Proof.
  unfold frame_at; cbn [set_fl rt_vals rt_fl rt_active rt_logs]. repeat split.
  - intros k Hk. apply upd_neq; exact Hk.
  - exists []. split; [symmetry; apply app_nil_r|constructor].
Qed.

Lemma frame_log_call fid r a : frame_at fid r (log_call r fid a).
Proof.
  unfold frame_at, log_call; cbn [set_logs rt_vals rt_fl rt_active rt_logs l_calls l_exec l_unknown l_out].
  repeat split. exists [(fid, a)]. split; [reflexivity|]. constructor; [reflexivity|constructor].
Qed.

Lemma frame_opt_empty o r : frame_at (o_fid o) r (opt_empty o r).
Proof. unfold opt_empty. destruct (is_func (o_ty o)); [apply frame_refl|apply frame_set_val]. Qed.

Lemma frame_step fid r1 r2 r3 : frame_at fid r2 r3 -> frame_at fid r1 r2 -> frame_at fid r1 r3.
Proof. intros; eapply frame_trans; eauto. Qed.

(* ================================================================== State.v: frames (target 1) *)
Section Ops.
  Variable orc : oracles.
  Variable delim : str.
  Variable ht : rt -> str.

  Lemma opt_call_fr oc arg r :
    wpT (opt_call orc ht oc arg r) (fun re => frame_at (o_fid (oc_opt oc)) r (fst re)).
  Proof.
    assert (F : forall r0, frame_at (o_fid (oc_opt oc)) r r0 ->
      wpT
        (if o_is_help (oc_opt oc) then Ok (r0, Some (EFlags ErrHelp (ht r0)))
         else match rt_vals r0 (o_fid (oc_opt oc)), o_ty (oc_opt oc) with
              | VFunc true _, _ => Panic (s2l "reflect: call of nil function")
              | VFunc false fails, TFunc _ true =>
                Ok (r0, if fails then Some (foreign (s2l "callback failed")) else None)
              | _, _ => Ok (r0, None)
              end) (fun re => frame_at (o_fid (oc_opt oc)) r (fst re))).
    { intros r0 H. destruct (o_is_help (oc_opt oc)); [exact H|].
      destruct (rt_vals r0 (o_fid (oc_opt oc))); try exact H.
      destruct isnil; [exact I|].
      destruct (o_ty (oc_opt oc)); try exact H. destruct ret_err; exact H. }
    unfold opt_call. cbv zeta.
    destruct arg as [v|]; destruct (o_ty (oc_opt oc)) as [k|k|e|k1 k2|[k|] b] eqn:E;
      try exact I.
    - apply wpT_bind. eapply wpT_conseq; [apply wpT_any|].
      intros [x [e|]] _; [apply frame_refl|].
      apply F. apply frame_log_call.
    - apply F. destruct (o_is_help _); [apply frame_refl|apply frame_log_call].
    - apply F. destruct (o_is_help _); [apply frame_refl|apply frame_log_call].
  Qed.

  Lemma opt_set_fr oc arg r :
    wpT (opt_set orc delim ht oc arg r) (fun re => frame_at (o_fid (oc_opt oc)) r (fst re)).
  Proof.
    unfold opt_set. cbv zeta.
    set (r1 := set_fl _ _ _).
    assert (H1 : frame_at (o_fid (oc_opt oc)) r r1).
    { unfold r1. eapply frame_step; [apply frame_set_fl|].
      destruct (_ && _); [apply frame_opt_empty|apply frame_refl]. }
    clearbody r1.
    apply wpT_bind.
    assert (K : wpT (if is_func (o_ty (oc_opt oc)) then opt_call orc ht oc arg r1
         else bind (convert orc (o_base (oc_opt oc)) match arg with Some v => v | None => [] end
                       (o_ty (oc_opt oc)) (rt_vals r1 (o_fid (oc_opt oc))))
                (fun cv => let '(v, e) := cv in Ok (set_val r1 (o_fid (oc_opt oc)) v, option_map foreign e)))
         (fun re => frame_at (o_fid (oc_opt oc)) r (fst re))).
    { destruct (is_func _).
      - eapply wpT_conseq; [apply opt_call_fr|]. intros x Hx. eapply frame_trans; eauto.
      - apply wpT_bind. eapply wpT_conseq; [apply wpT_any|]. intros [v e] _. cbn [wpT wp fst].
        eapply frame_step; [apply frame_set_val|exact H1]. }
    destruct (o_choices (oc_opt oc)) as [|c cs]; [exact K|].
    destruct arg as [v|]; [|exact K].
    destruct (existsb _ _); [exact K|]. exact H1.
  Qed.

  Lemma opt_set_default_fr oc arg r :
    wpT (opt_set_default orc delim ht oc arg r) (fun re => frame_at (o_fid (oc_opt oc)) r (fst re)).
  Proof.
    unfold opt_set_default. cbv zeta.
    destruct (f_prevent _); [apply frame_refl|].
    wpT_bind_with opt_set_fr. intros [r' [e|]] H; cbn [wpT wp fst] in *; [exact H|].
    eapply frame_step; [apply frame_set_fl|exact H].
  Qed.

  Lemma set_defaults_fr oc ds : forall r,
    wpT (set_defaults orc delim ht oc ds r) (fun re => frame_at (o_fid (oc_opt oc)) r (fst re)).
  Proof.
    induction ds as [|d ds IH]; intros r; cbn [set_defaults]; [apply frame_refl|].
    wpT_bind_with opt_set_default_fr. intros [r' [e|]] H; cbn [wpT wp fst] in *; [exact H|].
    eapply wpT_conseq; [apply IH|]. intros x Hx. eapply frame_trans; eauto.
  Qed.

  Lemma opt_clear_default_fr env edelim oc r :
    wpT (opt_clear_default orc delim ht env edelim oc r) (fun re => frame_at (o_fid (oc_opt oc)) r (fst re)).
  Proof.
    unfold opt_clear_default. cbv zeta.
    destruct (f_prevent _); [apply frame_refl|].
    set (r1 := set_fl _ _ _).
    assert (H1 : frame_at (o_fid (oc_opt oc)) r r1) by (unfold r1; apply frame_set_fl).
    clearbody r1.
    match goal with |- context [match ?u with [] => _ | _ :: _ => _ end] => destruct u as [|d ds] end.
    - destruct (o_ty (oc_opt oc)); try exact H1;
        destruct (rt_vals r1 _); try exact H1; destruct isnil; try exact H1;
        cbn [wpT wp fst]; (eapply frame_step; [apply frame_opt_empty|exact H1]).
    - eapply wpT_conseq; [apply set_defaults_fr|]. intros x Hx.
      eapply frame_trans; [exact H1|]. eapply frame_trans; [apply frame_opt_empty|exact Hx].
  Qed.

  (* ---- target 1 *)
  Theorem opt_set_frame : forall oc arg r r' e,
    opt_set orc delim ht oc arg r = Ok (r', e) -> frame_at (o_fid (oc_opt oc)) r r'.
  Proof. intros oc arg r r' e H. exact (wpT_ok _ _ _ (opt_set_fr oc arg r) H). Qed.

  Theorem opt_call_frame : forall oc arg r r' e,
    opt_call orc ht oc arg r = Ok (r', e) -> frame_at (o_fid (oc_opt oc)) r r'.
  Proof. intros oc arg r r' e H. exact (wpT_ok _ _ _ (opt_call_fr oc arg r) H). Qed.

  Theorem opt_set_default_frame : forall oc arg r r' e,
    opt_set_default orc delim ht oc arg r = Ok (r', e) -> frame_at (o_fid (oc_opt oc)) r r'.
  Proof. intros oc arg r r' e H. exact (wpT_ok _ _ _ (opt_set_default_fr oc arg r) H). Qed.

  Theorem set_defaults_frame : forall oc ds r r' e,
    set_defaults orc delim ht oc ds r = Ok (r', e) -> frame_at (o_fid (oc_opt oc)) r r'.
  Proof. intros oc ds r r' e H. exact (wpT_ok _ _ _ (set_defaults_fr oc ds r) H). Qed.

  Theorem opt_clear_default_frame : forall env edelim oc r r' e,
    opt_clear_default orc delim ht env edelim oc r = Ok (r', e) -> frame_at (o_fid (oc_opt oc)) r r'.
  Proof. intros env edelim oc r r' e H. exact (wpT_ok _ _ _ (opt_clear_default_fr env edelim oc r) H). Qed.

  (* a non-func option never touches the logs at all *)
  Lemma opt_set_nonfunc_logs : forall oc arg r r' e,
    is_func (o_ty (oc_opt oc)) = false ->
    opt_set orc delim ht oc arg r = Ok (r', e) -> rt_logs r' = rt_logs r.
  Proof.
    intros oc arg r r' e Hf. unfold opt_set. cbv zeta. rewrite Hf.
    set (r1 := set_fl _ _ _).
    assert (H1 : rt_logs r1 = rt_logs r).
    { unfold r1. cbn [set_fl rt_logs]. destruct (_ && _); [|reflexivity].
      unfold opt_empty. rewrite Hf. reflexivity. }
    clearbody r1.
    assert (K : bind (convert orc (o_base (oc_opt oc)) match arg with Some v => v | None => [] end
                       (o_ty (oc_opt oc)) (rt_vals r1 (o_fid (oc_opt oc))))
                (fun cv => let '(v, e) := cv in Ok (set_val r1 (o_fid (oc_opt oc)) v, option_map foreign e))
                = Ok (r', e) -> rt_logs r' = rt_logs r).
    { destruct (convert _ _ _ _ _) as [[v e0]|e0|w]; cbn [bind]; intros H; inversion H; subst.
      exact H1. }
    destruct (o_choices (oc_opt oc)) as [|c cs]; [exact K|].
    destruct arg as [v|]; [|exact K].
    destruct (existsb _ _); [exact K|]. cbn [bind]. intros H; inversion H; subst. exact H1.
  Qed.
End Ops.

(* ================================================================== auxiliary: maps, key:value split *)

Definition slice_elems (v : value) : list value := match v with VSlice _ l => l | _ => [] end.
Definition map_elems (v : value) : list (value * value) := match v with VMap _ l => l | _ => [] end.

(* key/value texts of a map argument: split at the first ':'; no ':' = empty value text *)
Definition map_split (v : str) : str * str :=
  match cut_byte v 58 with (a, Some b) => (a, b) | (a, None) => (a, []) end.

Lemma cut_byte_some : forall s c a b, cut_byte s c = (a, Some b) -> s = a ++ c :: b /\ ~ In c a.
Proof.
  induction s as [|x s IH]; intros c a b H; cbn [cut_byte] in H; [discriminate|].
  destruct (N.eqb_spec x c) as [->|Hn].
  - inversion H; subst. split; [reflexivity|intros []].
  - destruct (cut_byte s c) as [a' b'] eqn:E. inversion H; subst.
    destruct (IH c a' b E) as [-> Hni]. split; [reflexivity|].
    intros [Hx|Hx]; [congruence|contradiction].
Qed.

Lemma cut_byte_none : forall s c a, cut_byte s c = (a, None) -> a = s /\ ~ In c s.
Proof.
  induction s as [|x s IH]; intros c a H; cbn [cut_byte] in H.
  - inversion H; subst. split; [reflexivity|intros []].
  - destruct (N.eqb_spec x c) as [->|Hn]; [discriminate|].
    destruct (cut_byte s c) as [a' b'] eqn:E. inversion H; subst.
    destruct (IH c a' E) as [-> Hni]. split; [reflexivity|].
    intros [Hx|Hx]; [congruence|contradiction].
Qed.

Lemma map_split_spec : forall v ks vs, map_split v = (ks, vs) ->
  (v = ks ++ 58 :: vs /\ ~ In 58 ks) \/ (~ In 58 v /\ ks = v /\ vs = []).
Proof.
  intros v ks vs H. unfold map_split in H.
  destruct (cut_byte v 58) as [a [b|]] eqn:E; inversion H; subst.
  - left. apply cut_byte_some. exact E.
  - right. destruct (cut_byte_none _ _ _ E) as [-> Hn]. auto.
Qed.

(* map_set: the first entry whose key is Go-equal to [k] gets the new value (its
   position and key are kept); without such an entry the binding is appended *)
Lemma map_set_hit : forall l1 k' v' l2 k v,
  (forall p, In p l1 -> veq k (fst p) = false) -> veq k k' = true ->
  map_set (l1 ++ (k', v') :: l2) k v = l1 ++ (k', v) :: l2.
Proof.
  induction l1 as [|[a b] l1 IH]; intros k' v' l2 k v Hm Hh; cbn [map_set app].
  - rewrite Hh. reflexivity.
  - pose proof (Hm (a, b) (or_introl eq_refl)) as Ha. cbn [fst] in Ha. rewrite Ha. f_equal. apply IH; [|exact Hh].
    intros p Hp. apply Hm. right; exact Hp.
Qed.

Lemma map_set_miss : forall l k v,
  (forall p, In p l -> veq k (fst p) = false) -> map_set l k v = l ++ [(k, v)].
Proof.
  induction l as [|[a b] l IH]; intros k v Hm; cbn [map_set app]; [reflexivity|].
  pose proof (Hm (a, b) (or_introl eq_refl)) as Ha. cbn [fst] in Ha. rewrite Ha. f_equal. apply IH.
  intros p Hp. apply Hm. right; exact Hp.
Qed.

Lemma map_set_length_le : forall l k v, (length l <= length (map_set l k v) <= S (length l))%nat.
Proof.
  induction l as [|[a b] l IH]; intros k v; cbn [map_set length]; [lia|].
  destruct (veq k a); cbn [length]; [lia|]. specialize (IH k v). lia.
Qed.

(* an option identical to [o] but without a choices restriction *)
Definition opt_no_choices (o : opt) : opt :=
  {| o_fid := o_fid o; o_field := o_field o; o_short := o_short o; o_long := o_long o; o_desc := o_desc o;
     o_default := o_default o; o_envkey := o_envkey o; o_envdelim := o_envdelim o;
     o_optional := o_optional o; o_optval := o_optval o; o_required := o_required o;
     o_valname := o_valname o; o_mask := o_mask o; o_choices := []; o_hidden := o_hidden o;
     o_ininame := o_ininame o; o_noini := o_noini o; o_unquote := o_unquote o; o_base := o_base o;
     o_ty := o_ty o; o_is_help := o_is_help o |}.
Definition octx_no_choices (oc : octx) : octx :=
  {| oc_opt := opt_no_choices (oc_opt oc); oc_ns := oc_ns oc; oc_envns := oc_envns oc;
     oc_ghidden := oc_ghidden oc; oc_gshort := oc_gshort oc; oc_builtin := oc_builtin oc |}.

(* the value list Option.clearDefault applies: the environment variable (when the
   option has an env key and the variable is set, even to ""), else the default tags *)
Definition default_source (env : list (str * str)) (edelim : str) (oc : octx) : list str :=
  let o := oc_opt oc in
  if nonempty (env_key edelim oc) then
    match assoc_str env (env_key edelim oc) with
    | Some v => if nonempty (o_envdelim o) then split v (o_envdelim o) else [v]
    | None => o_default o
    end
  else o_default o.

Lemma split_fuel_nonempty : forall fuel s sep cur, split_fuel fuel s sep cur <> [].
Proof.
  induction fuel as [|f IH]; intros s sep cur; cbn [split_fuel]; [discriminate|].
  destruct s as [|x s']; [discriminate|].
  destruct (has_prefix (x :: s') sep); [discriminate|apply IH].
Qed.

(* a set environment variable always yields at least one value (possibly "") *)
Lemma default_source_env : forall env edelim oc v,
  nonempty (env_key edelim oc) = true -> assoc_str env (env_key edelim oc) = Some v ->
  default_source env edelim oc <> [].
Proof.
  intros env edelim oc v Hk Hv. unfold default_source. rewrite Hk, Hv.
  destruct (nonempty (o_envdelim (oc_opt oc))); [apply split_fuel_nonempty|discriminate].
Qed.

(* what clearDefault does to the current value when there is nothing to apply *)
Definition clear_value (t : vtype) (cur : value) : value :=
  match t, cur with
  | TMap _ _, VMap true _ => VMap false []
  | TSlice _, VSlice true _ => VSlice true []
  | _, _ => cur
  end.

(* "unchanged except that a nil map becomes an empty non-nil map" *)
Definition unnil_map (t : vtype) (v : value) : value :=
  match t, v with TMap _ _, VMap true _ => VMap false [] | _, _ => v end.

(* well-formed nil slices have no elements *)
Definition nil_wf (v : value) : Prop := forall l, v = VSlice true l -> l = [].

(* ================================================================== State.v: Option.Set (targets 2-7) *)
Section SetSpec.
  Variable orc : oracles.
  Variable delim : str.
  Variable ht : rt -> str.

  (* common part of the success statements: new value, bookkeeping, nothing else *)
  Definition set_result (fid : nat) (r r' : rt) (newv : value) : Prop :=
    rt_vals r' fid = newv /\ rt_fl r' fid = set_flags (rt_fl r fid) /\
    rt_logs r' = rt_logs r /\ frame_at fid r r'.

  Lemma set_flags_proj fl :
    f_isset (set_flags fl) = true /\ f_prevent (set_flags fl) = true /\
    f_clearref (set_flags fl) = false /\ f_isdefault (set_flags fl) = f_isdefault fl /\
    f_iniquote (set_flags fl) = f_iniquote fl /\ f_ininame (set_flags fl) = f_ininame fl /\
    f_deflit (set_flags fl) = f_deflit fl.
  Proof. repeat split. Qed.

  Lemma set_result_intro oc arg r r' e newv :
    is_func (o_ty (oc_opt oc)) = false ->
    opt_set orc delim ht oc arg r = Ok (r', e) ->
    rt_vals r' (o_fid (oc_opt oc)) = newv ->
    rt_fl r' (o_fid (oc_opt oc)) = set_flags (rt_fl r (o_fid (oc_opt oc))) ->
    set_result (o_fid (oc_opt oc)) r r' newv.
  Proof.
    intros Hf H Hv Hfl. repeat split; try assumption.
    - eapply opt_set_nonfunc_logs; eauto.
    - exact (proj1 (opt_set_frame _ _ _ _ _ _ _ _ H)).
    - exact (proj1 (proj2 (opt_set_frame _ _ _ _ _ _ _ _ H))).
    - exact (proj1 (proj2 (proj2 (opt_set_frame _ _ _ _ _ _ _ _ H)))).
    - exact (proj1 (proj2 (proj2 (proj2 (opt_set_frame _ _ _ _ _ _ _ _ H))))).
    - exact (proj1 (proj2 (proj2 (proj2 (proj2 (opt_set_frame _ _ _ _ _ _ _ _ H)))))).
    - exact (proj1 (proj2 (proj2 (proj2 (proj2 (proj2 (opt_set_frame _ _ _ _ _ _ _ _ H))))))).
    - exact (proj2 (proj2 (proj2 (proj2 (proj2 (proj2 (opt_set_frame _ _ _ _ _ _ _ _ H))))))).
  Qed.

  (* ---- target 2: scalars.  Exact equation first *)
  Lemma opt_set_scalar_eq : forall oc k v r,
    o_ty (oc_opt oc) = TScalar k -> o_choices (oc_opt oc) = [] ->
    opt_set orc delim ht oc (Some v) r =
    let fid := o_fid (oc_opt oc) in
    let r1 := set_fl r fid (set_flags (rt_fl r fid)) in
    match convert_kind orc (o_base (oc_opt oc)) v k with
    | Ok (inl x) => Ok (set_val r1 fid x, None)
    | Ok (inr m) => Ok (set_val r1 fid (rt_vals r fid), Some (EForeign m))
    | Err e => Err e
    | Panic w => Panic w
    end.
  Proof.
    intros oc k v r Hty Hch. unfold opt_set. cbv zeta. rewrite Hty, Hch.
    cbn [is_map is_slice orb andb is_func bind convert].
    destruct (convert_kind orc (o_base (oc_opt oc)) v k) as [[x|m]|e|w]; reflexivity.
  Qed.

  Theorem opt_set_scalar : forall oc k v r,
    let o := oc_opt oc in
    let fid := o_fid o in
    o_ty o = TScalar k -> o_choices o = [] ->
    (* success: exactly when the conversion succeeds, and the field then holds its result *)
    (forall x, convert_kind orc (o_base o) v k = Ok (inl x) <->
               exists r', opt_set orc delim ht oc (Some v) r = Ok (r', None) /\ rt_vals r' fid = x) /\
    (* conversion error: reported as a foreign error *)
    (forall m, convert_kind orc (o_base o) v k = Ok (inr m) <->
               exists r', opt_set orc delim ht oc (Some v) r = Ok (r', Some (EForeign m))) /\
    (* in every Ok outcome: error => value unchanged; bookkeeping; nothing else changes *)
    (forall r' e, opt_set orc delim ht oc (Some v) r = Ok (r', e) ->
       (e = None \/ exists m, e = Some (EForeign m) /\ rt_vals r' fid = rt_vals r fid) /\
       rt_fl r' fid = set_flags (rt_fl r fid) /\
       f_isset (rt_fl r' fid) = true /\ f_prevent (rt_fl r' fid) = true /\
       f_clearref (rt_fl r' fid) = false /\
       rt_logs r' = rt_logs r /\ frame_at fid r r').
  Proof.
    intros oc k v r o fid Hty Hch. subst o fid.
    pose proof (opt_set_scalar_eq oc k v r Hty Hch) as EQ. cbv zeta in EQ.
    split; [|split].
    - intros x. split.
      + intros Hc. rewrite Hc in EQ. eexists. split; [exact EQ|].
        cbn [set_val rt_vals]. apply upd_eq.
      + intros [r' [H Hv]]. rewrite H in EQ.
        destruct (convert_kind orc (o_base (oc_opt oc)) v k) as [[x'|m]|e|w]; inversion EQ; subst.
        cbn [set_val rt_vals]. rewrite upd_eq. reflexivity.
    - intros m. split.
      + intros Hc. rewrite Hc in EQ. eexists. exact EQ.
      + intros [r' H]. rewrite H in EQ.
        destruct (convert_kind orc (o_base (oc_opt oc)) v k) as [[x'|m']|e|w]; inversion EQ; subst.
        reflexivity.
    - intros r' e H.
      assert (Hf : is_func (o_ty (oc_opt oc)) = false) by (rewrite Hty; reflexivity).
      assert (Hfl : rt_fl r' (o_fid (oc_opt oc)) = set_flags (rt_fl r (o_fid (oc_opt oc)))).
      { rewrite H in EQ.
        destruct (convert_kind orc (o_base (oc_opt oc)) v k) as [[x'|m']|e'|w]; inversion EQ; subst;
          cbn [set_val set_fl rt_fl]; apply upd_eq. }
      split; [|split; [exact Hfl|]].
      + rewrite H in EQ.
        destruct (convert_kind orc (o_base (oc_opt oc)) v k) as [[x'|m']|e'|w]; inversion EQ; subst.
        * left; reflexivity.
        * right. exists m'. split; [reflexivity|]. cbn [set_val rt_vals]. apply upd_eq.
      + rewrite Hfl. repeat split.
        * eapply opt_set_nonfunc_logs; eauto.
        * exact (proj1 (opt_set_frame _ _ _ _ _ _ _ _ H)).
        * exact (proj1 (proj2 (opt_set_frame _ _ _ _ _ _ _ _ H))).
        * exact (proj1 (proj2 (proj2 (opt_set_frame _ _ _ _ _ _ _ _ H)))).
        * exact (proj1 (proj2 (proj2 (proj2 (opt_set_frame _ _ _ _ _ _ _ _ H))))).
        * exact (proj1 (proj2 (proj2 (proj2 (proj2 (opt_set_frame _ _ _ _ _ _ _ _ H)))))).
        * exact (proj1 (proj2 (proj2 (proj2 (proj2 (proj2 (opt_set_frame _ _ _ _ _ _ _ _ H))))))).
        * exact (proj2 (proj2 (proj2 (proj2 (proj2 (proj2 (opt_set_frame _ _ _ _ _ _ _ _ H))))))).
  Qed.

  (* ---- target 3: slices *)
  Lemma opt_set_slice_eq : forall oc e v x r,
    o_ty (oc_opt oc) = TSlice e -> o_choices (oc_opt oc) = [] ->
    convert orc (o_base (oc_opt oc)) v e (zero_value e) = Ok (x, None) ->
    opt_set orc delim ht oc (Some v) r =
    let fid := o_fid (oc_opt oc) in
    let old := if f_clearref (rt_fl r fid) then [] else slice_elems (rt_vals r fid) in
    let r0 := if f_clearref (rt_fl r fid) then opt_empty (oc_opt oc) r else r in
    Ok (set_val (set_fl r0 fid (set_flags (rt_fl r fid))) fid (VSlice false (old ++ [x])), None).
  Proof.
    intros oc e v x r Hty Hch Hcv. unfold opt_set. cbv zeta. rewrite Hty, Hch.
    cbn [is_map is_slice orb andb is_func bind convert]. rewrite Hcv. cbn [bind].
    cbn [set_fl rt_vals].
    destruct (f_clearref (rt_fl r (o_fid (oc_opt oc)))).
    - unfold opt_empty, opt_empty_value. rewrite Hty. cbn [is_func empty_value zero_value set_val rt_vals].
      rewrite upd_eq. reflexivity.
    - destruct (rt_vals r (o_fid (oc_opt oc))); reflexivity.
  Qed.

  Theorem opt_set_slice : forall oc e v x r,
    let o := oc_opt oc in
    let fid := o_fid o in
    o_ty o = TSlice e -> o_choices o = [] ->
    convert orc (o_base o) v e (zero_value e) = Ok (x, None) ->
    let old := if f_clearref (rt_fl r fid) then [] else slice_elems (rt_vals r fid) in
    exists r', opt_set orc delim ht oc (Some v) r = Ok (r', None) /\
               set_result fid r r' (VSlice false (old ++ [x])) /\
               f_clearref (rt_fl r' fid) = false.
  Proof.
    intros oc e v x r o fid Hty Hch Hcv old. subst o fid old.
    pose proof (opt_set_slice_eq oc e v x r Hty Hch Hcv) as EQ. cbv zeta in EQ.
    eexists. split; [exact EQ|].
    assert (Hfl : forall r0 w, rt_fl (set_val (set_fl r0 (o_fid (oc_opt oc)) (set_flags (rt_fl r (o_fid (oc_opt oc)))))
                         (o_fid (oc_opt oc)) w) (o_fid (oc_opt oc)) = set_flags (rt_fl r (o_fid (oc_opt oc)))).
    { intros r0 w. cbn [set_val set_fl rt_fl]. apply upd_eq. }
    split.
    - eapply set_result_intro; [rewrite Hty; reflexivity|exact EQ| |apply Hfl].
      cbn [set_val rt_vals]. apply upd_eq.
    - rewrite Hfl. reflexivity.
  Qed.

  (* consequently a second occurrence appends to what the first one stored *)
  Corollary opt_set_slice_twice : forall oc e v1 x1 v2 x2 r,
    let o := oc_opt oc in
    let fid := o_fid o in
    o_ty o = TSlice e -> o_choices o = [] ->
    convert orc (o_base o) v1 e (zero_value e) = Ok (x1, None) ->
    convert orc (o_base o) v2 e (zero_value e) = Ok (x2, None) ->
    let old := if f_clearref (rt_fl r fid) then [] else slice_elems (rt_vals r fid) in
    exists r1 r2, opt_set orc delim ht oc (Some v1) r = Ok (r1, None) /\
                  opt_set orc delim ht oc (Some v2) r1 = Ok (r2, None) /\
                  rt_vals r2 fid = VSlice false (old ++ [x1; x2]).
  Proof.
    intros oc e v1 x1 v2 x2 r o fid Hty Hch H1 H2 old.
    destruct (opt_set_slice oc e v1 x1 r Hty Hch H1) as [r1 [E1 [[V1 _] C1]]].
    destruct (opt_set_slice oc e v2 x2 r1 Hty Hch H2) as [r2 [E2 [[V2 _] _]]].
    exists r1, r2. split; [exact E1|]. split; [exact E2|].
    subst o fid old. cbv zeta in *. rewrite V2, C1, V1. cbn [slice_elems]. rewrite <- app_assoc. reflexivity.
  Qed.

  (* ---- target 4: maps *)
  Lemma opt_set_map_eq : forall oc kk kv v kx vx r,
    o_ty (oc_opt oc) = TMap kk kv -> o_choices (oc_opt oc) = [] ->
    convert_kind orc (o_base (oc_opt oc)) (fst (map_split v)) kk = Ok (inl kx) ->
    convert_kind orc (o_base (oc_opt oc)) (snd (map_split v)) kv = Ok (inl vx) ->
    opt_set orc delim ht oc (Some v) r =
    let fid := o_fid (oc_opt oc) in
    let old := if f_clearref (rt_fl r fid) then [] else map_elems (rt_vals r fid) in
    let r0 := if f_clearref (rt_fl r fid) then opt_empty (oc_opt oc) r else r in
    Ok (set_val (set_fl r0 fid (set_flags (rt_fl r fid))) fid (VMap false (map_set old kx vx)), None).
  Proof.
    intros oc kk kv v kx vx r Hty Hch Hk Hv. unfold opt_set. cbv zeta. rewrite Hty, Hch.
    cbn [is_map is_slice orb andb is_func bind convert].
    unfold map_split in Hk, Hv.
    destruct (cut_byte v 58) as [a [b|]]; cbn [fst snd] in Hk, Hv; rewrite Hk; cbn [bind]; rewrite Hv; cbn [bind];
      cbn [set_fl rt_vals];
      (destruct (f_clearref (rt_fl r (o_fid (oc_opt oc))));
       [ unfold opt_empty, opt_empty_value; rewrite Hty; cbn [is_func empty_value set_val rt_vals];
         rewrite upd_eq; reflexivity
       | destruct (rt_vals r (o_fid (oc_opt oc))); reflexivity ]).
  Qed.

  Theorem opt_set_map : forall oc kk kv v kx vx r,
    let o := oc_opt oc in
    let fid := o_fid o in
    o_ty o = TMap kk kv -> o_choices o = [] ->
    convert_kind orc (o_base o) (fst (map_split v)) kk = Ok (inl kx) ->
    convert_kind orc (o_base o) (snd (map_split v)) kv = Ok (inl vx) ->
    let old := if f_clearref (rt_fl r fid) then [] else map_elems (rt_vals r fid) in
    exists r', opt_set orc delim ht oc (Some v) r = Ok (r', None) /\
               set_result fid r r' (VMap false (map_set old kx vx)) /\
               f_clearref (rt_fl r' fid) = false.
  Proof.
    intros oc kk kv v kx vx r o fid Hty Hch Hk Hv old. subst o fid old.
    pose proof (opt_set_map_eq oc kk kv v kx vx r Hty Hch Hk Hv) as EQ. cbv zeta in EQ.
    eexists. split; [exact EQ|].
    assert (Hfl : forall r0 w, rt_fl (set_val (set_fl r0 (o_fid (oc_opt oc)) (set_flags (rt_fl r (o_fid (oc_opt oc)))))
                         (o_fid (oc_opt oc)) w) (o_fid (oc_opt oc)) = set_flags (rt_fl r (o_fid (oc_opt oc)))).
    { intros r0 w. cbn [set_val set_fl rt_fl]. apply upd_eq. }
    split.
    - eapply set_result_intro; [rewrite Hty; reflexivity|exact EQ| |apply Hfl].
      cbn [set_val rt_vals]. apply upd_eq.
    - rewrite Hfl. reflexivity.
  Qed.

  (* ---- target 5: bool flags *)
  Theorem opt_set_flag : forall oc r,
    let o := oc_opt oc in
    let fid := o_fid o in
    o_ty o = TScalar KBool ->
    exists r', opt_set orc delim ht oc None r = Ok (r', None) /\
               r' = set_val (set_fl r fid (set_flags (rt_fl r fid))) fid (VBool true) /\
               set_result fid r r' (VBool true).
  Proof.
    intros oc r o fid Hty. subst o fid.
    assert (EQ : opt_set orc delim ht oc None r =
                 Ok (set_val (set_fl r (o_fid (oc_opt oc)) (set_flags (rt_fl r (o_fid (oc_opt oc)))))
                             (o_fid (oc_opt oc)) (VBool true), None)).
    { unfold opt_set. cbv zeta. rewrite Hty.
      cbn [is_map is_slice orb andb is_func convert convert_kind].
      destruct (o_choices (oc_opt oc)); reflexivity. }
    eexists. split; [exact EQ|]. split; [reflexivity|].
    eapply set_result_intro; [rewrite Hty; reflexivity|exact EQ| |].
    - cbn [set_val rt_vals]. apply upd_eq.
    - cbn [set_val set_fl rt_fl]. apply upd_eq.
  Qed.

  (* ---- target 6: callbacks *)
  Lemma rt_vals_log_call r fid a : rt_vals (log_call r fid a) = rt_vals r.
  Proof. reflexivity. Qed.
  Lemma rt_vals_set_fl r fid f : rt_vals (set_fl r fid f) = rt_vals r.
  Proof. reflexivity. Qed.
  Definition callback_err (o : opt) (b fails : bool) (r' : rt) : option err :=
    if o_is_help o then Some (EFlags ErrHelp (ht r'))
    else if b && fails then Some (EForeign (s2l "callback failed")) else None.

  Lemma opt_set_callback_arg : forall oc k b v x fails r,
    let o := oc_opt oc in
    let fid := o_fid o in
    o_ty o = TFunc (Some k) b -> o_choices o = [] ->
    rt_vals r fid = VFunc false fails ->
    convert_kind orc (o_base o) v k = Ok (inl x) ->
    let r' := log_call (set_fl r fid (set_flags (rt_fl r fid))) fid (Some x) in
    opt_set orc delim ht oc (Some v) r = Ok (r', callback_err o b fails r').
  Proof.
    intros oc k b v x fails r o fid Hty Hch Hval Hcv r'. subst o fid r'.
    unfold opt_set. cbv zeta. rewrite Hty, Hch.
    cbn [is_map is_slice orb andb is_func bind].
    unfold opt_call. cbv zeta. rewrite Hty. cbn [convert]. rewrite Hcv. cbn [bind].
    unfold callback_err.
    destruct (o_is_help (oc_opt oc)); [reflexivity|].
    rewrite rt_vals_log_call, rt_vals_set_fl, Hval. unfold set_flags. destruct b, fails; reflexivity.
  Qed.

  Lemma opt_set_callback_noarg : forall oc b fails r,
    let o := oc_opt oc in
    let fid := o_fid o in
    o_ty o = TFunc None b -> o_is_help o = false ->
    rt_vals r fid = VFunc false fails ->
    let r' := log_call (set_fl r fid (set_flags (rt_fl r fid))) fid None in
    opt_set orc delim ht oc None r = Ok (r', callback_err o b fails r').
  Proof.
    intros oc b fails r o fid Hty Hh Hval r'. subst o fid r'.
    unfold opt_set. cbv zeta. rewrite Hty.
    cbn [is_map is_slice orb andb is_func].
    assert (K : opt_call orc ht oc None (set_fl r (o_fid (oc_opt oc)) (set_flags (rt_fl r (o_fid (oc_opt oc))))) =
                Ok (log_call (set_fl r (o_fid (oc_opt oc)) (set_flags (rt_fl r (o_fid (oc_opt oc))))) (o_fid (oc_opt oc)) None,
                    callback_err (oc_opt oc) b fails
                      (log_call (set_fl r (o_fid (oc_opt oc)) (set_flags (rt_fl r (o_fid (oc_opt oc))))) (o_fid (oc_opt oc)) None))).
    { unfold opt_call. cbv zeta. rewrite Hty, Hh. unfold callback_err. rewrite Hh.
      rewrite rt_vals_log_call, rt_vals_set_fl, Hval. destruct b, fails; reflexivity. }
    destruct (o_choices (oc_opt oc)); cbn [bind]; exact K.
  Qed.

  (* what the state after a callback looks like *)
  Lemma callback_state : forall r fid a,
    let r' := log_call (set_fl r fid (set_flags (rt_fl r fid))) fid a in
    rt_vals r' = rt_vals r /\
    rt_fl r' fid = set_flags (rt_fl r fid) /\ (forall k, k <> fid -> rt_fl r' k = rt_fl r k) /\
    rt_active r' = rt_active r /\
    l_calls (rt_logs r') = l_calls (rt_logs r) ++ [(fid, a)] /\
    l_exec (rt_logs r') = l_exec (rt_logs r) /\ l_unknown (rt_logs r') = l_unknown (rt_logs r) /\
    l_out (rt_logs r') = l_out (rt_logs r).
  Proof.
    intros r fid a r'. subst r'. unfold log_call.
    cbn [set_logs set_fl rt_vals rt_fl rt_active rt_logs l_calls l_exec l_unknown l_out].
    repeat split; [apply upd_eq|]. intros k Hk. apply upd_neq; exact Hk.
  Qed.

  Theorem opt_set_callback :
    (* a func(T) option with a non-nil function and an argument converting to x *)
    (forall oc k b v x fails r,
       let o := oc_opt oc in
       let fid := o_fid o in
       o_ty o = TFunc (Some k) b -> o_choices o = [] ->
       rt_vals r fid = VFunc false fails ->
       convert_kind orc (o_base o) v k = Ok (inl x) ->
       exists r', opt_set orc delim ht oc (Some v) r = Ok (r', callback_err o b fails r') /\
         l_calls (rt_logs r') = l_calls (rt_logs r) ++ [(fid, Some x)] /\
         rt_vals r' = rt_vals r /\
         rt_fl r' fid = set_flags (rt_fl r fid) /\ (forall k, k <> fid -> rt_fl r' k = rt_fl r k) /\
         rt_active r' = rt_active r /\
         l_exec (rt_logs r') = l_exec (rt_logs r) /\ l_unknown (rt_logs r') = l_unknown (rt_logs r) /\
         l_out (rt_logs r') = l_out (rt_logs r)) /\
    (* a func() option (not the help option) with a non-nil function, no argument *)
    (forall oc b fails r,
       let o := oc_opt oc in
       let fid := o_fid o in
       o_ty o = TFunc None b -> o_is_help o = false ->
       rt_vals r fid = VFunc false fails ->
       exists r', opt_set orc delim ht oc None r = Ok (r', callback_err o b fails r') /\
         l_calls (rt_logs r') = l_calls (rt_logs r) ++ [(fid, None)] /\
         rt_vals r' = rt_vals r /\
         rt_fl r' fid = set_flags (rt_fl r fid) /\ (forall k, k <> fid -> rt_fl r' k = rt_fl r k) /\
         rt_active r' = rt_active r /\
         l_exec (rt_logs r') = l_exec (rt_logs r) /\ l_unknown (rt_logs r') = l_unknown (rt_logs r) /\
         l_out (rt_logs r') = l_out (rt_logs r)).
  Proof.
    split.
    - intros oc k b v x fails r o fid Hty Hch Hval Hcv.
      eexists. split; [exact (opt_set_callback_arg oc k b v x fails r Hty Hch Hval Hcv)|].
      destruct (callback_state r fid (Some x)) as [A [B [C [D [E [F [G H]]]]]]].
      repeat split; assumption.
    - intros oc b fails r o fid Hty Hh Hval.
      eexists. split; [exact (opt_set_callback_noarg oc b fails r Hty Hh Hval)|].
      destruct (callback_state r fid None) as [A [B [C [D [E [F [G H]]]]]]].
      repeat split; assumption.
  Qed.

  (* ---- target 7: choices *)
  Lemma opt_call_no_choices : forall oc arg r,
    opt_call orc ht (octx_no_choices oc) arg r = opt_call orc ht oc arg r.
  Proof. reflexivity. Qed.

  Definition invalid_choice_msg (oc : octx) (v : str) : str :=
    s2l "Invalid value `" ++ v ++ s2l "' for option `" ++ octx_string delim oc ++
    s2l "'. Allowed values are: " ++ allowed_text (o_choices (oc_opt oc)).

  Theorem opt_set_choices : forall oc v r,
    let o := oc_opt oc in
    let fid := o_fid o in
    (* not one of the choices: ErrInvalidChoice; the option is nevertheless marked as set,
       and a slice/map whose clear-before-set flag is armed has ALREADY been emptied *)
    (o_choices o <> [] -> ~ In v (o_choices o) ->
       let r0 := if (is_map (o_ty o) || is_slice (o_ty o)) && f_clearref (rt_fl r fid)
                 then opt_empty o r else r in
       opt_set orc delim ht oc (Some v) r =
         Ok (set_fl r0 fid (set_flags (rt_fl r fid)), Some (EFlags ErrInvalidChoice (invalid_choice_msg oc v))) /\
       ((is_map (o_ty o) || is_slice (o_ty o)) && f_clearref (rt_fl r fid) = false ->
          rt_vals (set_fl r0 fid (set_flags (rt_fl r fid))) = rt_vals r)) /\
    (* one of the choices: same outcome as for the option without choices *)
    (In v (o_choices o) ->
       opt_set orc delim ht oc (Some v) r = opt_set orc delim ht (octx_no_choices oc) (Some v) r).
  Proof.
    intros oc v r o fid. subst o fid. split.
    - intros Hne Hni r0. subst r0. split.
      + unfold opt_set. cbv zeta. unfold invalid_choice_msg.
        destruct (o_choices (oc_opt oc)) as [|c cs] eqn:E; [congruence|].
        apply existsb_str_eqb_notin in Hni. rewrite Hni. reflexivity.
      + intros Hc. rewrite Hc. reflexivity.
    - intros Hin. apply existsb_str_eqb_in in Hin.
      unfold opt_set. cbv zeta.
      cbn [octx_no_choices oc_opt opt_no_choices o_choices o_ty o_fid o_base].
      destruct (o_choices (oc_opt oc)) as [|c cs] eqn:E; [discriminate Hin|].
      rewrite Hin. cbn [bind]. reflexivity.
  Qed.

  (* the unconditional reading "the value is unchanged" fails for slices and maps whose
     clear-before-set flag is armed: see ValueExamples.choices_counterexample below *)
End SetSpec.

(* ================================================================== C05: Option.clearDefault (target 8) *)
Section Defaults.
  Variable orc : oracles.
  Variable delim : str.
  Variable ht : rt -> str.

  Definition mark_default (fl : oflags) : oflags :=
    fl_with fl (f_isset fl) true (f_prevent fl) (f_clearref fl).

  (* Option.setDefault: ignored once the option was set explicitly or from INI;
     otherwise Option.Set, after which (on success) the option counts as defaulted
     and further defaults are not prevented *)
  Lemma opt_set_default_spec : forall oc arg r,
    let fid := o_fid (oc_opt oc) in
    (f_prevent (rt_fl r fid) = true -> opt_set_default orc delim ht oc arg r = Ok (r, None)) /\
    (f_prevent (rt_fl r fid) = false ->
       opt_set_default orc delim ht oc arg r =
       match opt_set orc delim ht oc arg r with
       | Ok (r', Some e) => Ok (r', Some e)
       | Ok (r', None) =>
         Ok (set_fl r' fid (fl_with (rt_fl r' fid) (f_isset (rt_fl r' fid)) true false (f_clearref (rt_fl r' fid))), None)
       | Err e => Err e
       | Panic w => Panic w
       end).
  Proof.
    intros oc arg r fid. subst fid. unfold opt_set_default. cbv zeta. split; intros H; rewrite H; [reflexivity|].
    destruct (opt_set orc delim ht oc arg r) as [[r' [e|]]|e|w]; reflexivity.
  Qed.

  Definition nil_ref (t : vtype) (cur : value) : bool :=
    match t, cur with
    | TMap _ _, VMap true _ => true
    | TSlice _, VSlice true _ => true
    | _, _ => false
    end.

  Lemma clear_match : forall t cur (A : Type) (x y : A),
    match t, cur with
    | TMap _ _, VMap true _ => x
    | TSlice _, VSlice true _ => x
    | _, _ => y
    end = if nil_ref t cur then x else y.
  Proof.
    intros t cur A x y. destruct t; try reflexivity; destruct cur; try reflexivity; destruct isnil; reflexivity.
  Qed.

  Lemma nil_ref_true : forall o cur r1, nil_ref (o_ty o) cur = true ->
    opt_empty o r1 = set_val r1 (o_fid o) (clear_value (o_ty o) cur).
  Proof.
    intros o cur r1 H. unfold opt_empty, opt_empty_value.
    destruct (o_ty o); try discriminate H; destruct cur; try discriminate H;
      destruct isnil; try discriminate H; reflexivity.
  Qed.

  Lemma nil_ref_false : forall t cur, nil_ref t cur = false -> clear_value t cur = cur.
  Proof.
    intros t cur H.
    destruct t; try reflexivity; destruct cur; try reflexivity; destruct isnil; try discriminate H; reflexivity.
  Qed.

  Lemma clear_value_wf : forall t cur, nil_wf cur ->
    clear_value t cur = unnil_map t (cur).
  Proof.
    intros t cur Hwf. destruct t; try reflexivity; destruct cur; try reflexivity;
      destruct isnil; try reflexivity.
    cbn [clear_value]. rewrite (Hwf l eq_refl). reflexivity.
  Qed.

  Lemma clear_fin : forall r fid t r1 r',
    frame_at fid r r1 -> rt_fl r1 fid = mark_default (rt_fl r fid) ->
    rt_vals r1 = rt_vals r -> rt_logs r1 = rt_logs r ->
    (r' = r1 /\ clear_value t (rt_vals r fid) = rt_vals r fid \/
     r' = set_val r1 fid (clear_value t (rt_vals r fid))) ->
    rt_vals r' fid = clear_value t (rt_vals r fid) /\
    (nil_wf (rt_vals r fid) ->
       rt_vals r' fid = unnil_map t (rt_vals r fid)) /\
    rt_fl r' fid = mark_default (rt_fl r fid) /\
    f_isdefault (rt_fl r' fid) = true /\
    rt_logs r' = rt_logs r /\ frame_at fid r r'.
  Proof.
    intros r fid t r1 r' F1 L1 V1 G1 Hr'.
    assert (Hv : rt_vals r' fid = clear_value t (rt_vals r fid)).
    { destruct Hr' as [[-> E]| ->]; [rewrite V1; symmetry; exact E|cbn [set_val rt_vals]; apply upd_eq]. }
    assert (Hfl : rt_fl r' fid = mark_default (rt_fl r fid)).
    { destruct Hr' as [[-> _]| ->]; exact L1. }
    split; [exact Hv|]. split; [|split; [exact Hfl|split; [rewrite Hfl; reflexivity|split]]].
    - intros Hwf. rewrite Hv. apply clear_value_wf. exact Hwf.
    - destruct Hr' as [[-> _]| ->]; exact G1.
    - destruct Hr' as [[-> _]| ->]; [exact F1|]. eapply frame_step; [apply frame_set_val|exact F1].
  Qed.

  Theorem opt_clear_default_spec : forall env edelim oc r,
    let o := oc_opt oc in
    let fid := o_fid o in
    let used := default_source env edelim oc in
    let r1 := set_fl r fid (mark_default (rt_fl r fid)) in
    (* an option that occurred explicitly or was set from INI ignores env and default tags *)
    (f_prevent (rt_fl r fid) = true ->
       opt_clear_default orc delim ht env edelim oc r = Ok (r, None)) /\
    (* nothing to apply: only the isdefault mark, and a nil map/slice is replaced by the empty one *)
    (f_prevent (rt_fl r fid) = false -> used = [] ->
       exists r', opt_clear_default orc delim ht env edelim oc r = Ok (r', None) /\
         rt_vals r' fid = clear_value (o_ty o) (rt_vals r fid) /\
         (nil_wf (rt_vals r fid) ->
            rt_vals r' fid = unnil_map (o_ty o) (rt_vals r fid)) /\
         rt_fl r' fid = mark_default (rt_fl r fid) /\
         f_isdefault (rt_fl r' fid) = true /\
         rt_logs r' = rt_logs r /\ frame_at fid r r') /\
    (* something to apply: the current (lower-ranked) value is discarded first *)
    (f_prevent (rt_fl r fid) = false -> used <> [] ->
       opt_clear_default orc delim ht env edelim oc r =
       set_defaults orc delim ht oc used (opt_empty o r1)).
  Proof.
    intros env edelim oc r o fid used r1. subst o fid used r1.
    assert (U : match env_key edelim oc with
                | [] => o_default (oc_opt oc)
                | n :: l => match assoc_str env (n :: l) with
                            | Some v => if nonempty (o_envdelim (oc_opt oc)) then split v (o_envdelim (oc_opt oc)) else [v]
                            | None => o_default (oc_opt oc)
                            end
                end = default_source env edelim oc).
    { unfold default_source. cbv zeta. destruct (env_key edelim oc); reflexivity. }
    split; [|split].
    - intros Hp. unfold opt_clear_default. cbv zeta. rewrite Hp. reflexivity.
    - intros Hp Hu. unfold opt_clear_default. cbv zeta. rewrite Hp, U, Hu.
      cbn [set_fl rt_vals].
      set (r1 := set_fl r (o_fid (oc_opt oc)) _).
      assert (F1 : frame_at (o_fid (oc_opt oc)) r r1) by apply frame_set_fl.
      assert (L1 : rt_fl r1 (o_fid (oc_opt oc)) = mark_default (rt_fl r (o_fid (oc_opt oc))))
        by (unfold r1, mark_default; cbn [set_fl rt_fl]; rewrite upd_eq, Hp; reflexivity).
      assert (V1 : rt_vals r1 = rt_vals r) by reflexivity.
      assert (G1 : rt_logs r1 = rt_logs r) by reflexivity.
      clearbody r1.
      rewrite (clear_match (o_ty (oc_opt oc)) (rt_vals r (o_fid (oc_opt oc))) _
                           (Ok (opt_empty (oc_opt oc) r1, None)) (Ok (r1, None))).
      destruct (nil_ref (o_ty (oc_opt oc)) (rt_vals r (o_fid (oc_opt oc)))) eqn:NR.
      + eexists. split; [reflexivity|].
        rewrite (nil_ref_true (oc_opt oc) _ r1 NR).
        apply (clear_fin r _ _ r1); auto.
      + eexists. split; [reflexivity|].
        apply (clear_fin r _ _ r1); auto. left. split; [reflexivity|]. apply nil_ref_false. exact NR.
    - intros Hp Hu. unfold opt_clear_default. cbv zeta. rewrite Hp, U.
      destruct (default_source env edelim oc) as [|d ds]; [congruence|].
      unfold mark_default. rewrite Hp. reflexivity.
  Qed.
End Defaults.

(* ================================================================== instances: hypotheses are satisfiable;
   counterexamples for the readings that had to be refined *)
Module ValueExamples.
  Definition orc0 : oracles := {| or_float := []; or_dur := []; or_durfmt := [] |}.
  Definition ht0 : rt -> str := fun _ => s2l "usage".
  Definition mk_opt (fid : nat) (long : string) (ty : vtype) (choices defaults : list str) (envkey : string) : opt :=
    {| o_fid := fid; o_field := s2l "Field"; o_short := 0; o_long := s2l long; o_desc := [];
       o_default := defaults; o_envkey := s2l envkey; o_envdelim := [];
       o_optional := false; o_optval := []; o_required := false;
       o_valname := []; o_mask := []; o_choices := choices; o_hidden := false;
       o_ininame := []; o_noini := false; o_unquote := true; o_base := [];
       o_ty := ty; o_is_help := false |}.
  Definition mk_oc (o : opt) : octx :=
    {| oc_opt := o; oc_ns := [[]]; oc_envns := [[]]; oc_ghidden := false;
       oc_gshort := s2l "Application Options"; oc_builtin := false |}.
  (* every field holds [v]; the bookkeeping of every option is [fl] *)
  Definition mk_rt (v : value) (fl : oflags) : rt :=
    {| rt_vals := fun _ => v; rt_fl := fun _ => fl; rt_active := []; rt_logs := logs0 |}.
  Definition armed : oflags := fl_with oflags0 false false false true.   (* clearReferenceBeforeSet *)
  Definition val_after (x : res (rt * option err)) (fid : nat) : option value :=
    match x with Ok (r', _) => Some (rt_vals r' fid) | _ => None end.
  Definition err_after (x : res (rt * option err)) : option (option err) :=
    match x with Ok (_, e) => Some e | _ => None end.

  Definition o_int := mk_opt 3 "num" (TScalar (KInt I0)) [] [] "".
  Example ex_scalar_hyps :
    o_ty (oc_opt (mk_oc o_int)) = TScalar (KInt I0) /\ o_choices (oc_opt (mk_oc o_int)) = [] /\
    convert_kind orc0 (o_base o_int) (s2l "42") (KInt I0) = Ok (inl (VInt 42)) /\
    convert_kind orc0 (o_base o_int) (s2l "4x") (KInt I0) =
      Ok (inr (s2l "strconv.ParseInt: parsing ""4x"": invalid syntax")).
  Proof. vm_compute. repeat split. Qed.
  Example ex_scalar_run :
    val_after (opt_set orc0 [] ht0 (mk_oc o_int) (Some (s2l "42")) (mk_rt (VInt 7) oflags0)) 3 = Some (VInt 42) /\
    val_after (opt_set orc0 [] ht0 (mk_oc o_int) (Some (s2l "4x")) (mk_rt (VInt 7) oflags0)) 3 = Some (VInt 7).
  Proof. vm_compute. split; reflexivity. Qed.

  Definition o_ints := mk_opt 3 "nums" (TSlice (TScalar (KInt I0))) [] [] "".
  Example ex_slice_hyps :
    o_ty (oc_opt (mk_oc o_ints)) = TSlice (TScalar (KInt I0)) /\ o_choices (oc_opt (mk_oc o_ints)) = [] /\
    convert orc0 (o_base o_ints) (s2l "42") (TScalar (KInt I0)) (zero_value (TScalar (KInt I0))) = Ok (VInt 42, None).
  Proof. vm_compute. repeat split. Qed.
  Example ex_slice_run :
    val_after (opt_set orc0 [] ht0 (mk_oc o_ints) (Some (s2l "42")) (mk_rt (VSlice false [VInt 7]) armed)) 3
      = Some (VSlice false [VInt 42]) /\
    val_after (opt_set orc0 [] ht0 (mk_oc o_ints) (Some (s2l "42")) (mk_rt (VSlice false [VInt 7]) oflags0)) 3
      = Some (VSlice false [VInt 7; VInt 42]).
  Proof. vm_compute. split; reflexivity. Qed.

  Definition o_map := mk_opt 3 "kv" (TMap KString (KInt I0)) [] [] "".
  Example ex_map_hyps :
    o_ty (oc_opt (mk_oc o_map)) = TMap KString (KInt I0) /\ o_choices (oc_opt (mk_oc o_map)) = [] /\
    map_split (s2l "a:1:2") = (s2l "a", s2l "1:2") /\ map_split (s2l "a") = (s2l "a", []) /\
    convert_kind orc0 (o_base o_map) (fst (map_split (s2l "a:1"))) KString = Ok (inl (VStr (s2l "a"))) /\
    convert_kind orc0 (o_base o_map) (snd (map_split (s2l "a:1"))) (KInt I0) = Ok (inl (VInt 1)).
  Proof. vm_compute. repeat split. Qed.
  Example ex_map_run :
    val_after (opt_set orc0 [] ht0 (mk_oc o_map) (Some (s2l "a:1"))
                 (mk_rt (VMap false [(VStr (s2l "a"), VInt 0); (VStr (s2l "b"), VInt 5)]) oflags0)) 3
      = Some (VMap false [(VStr (s2l "a"), VInt 1); (VStr (s2l "b"), VInt 5)]).
  Proof. vm_compute. reflexivity. Qed.

  Definition o_flag := mk_opt 3 "verbose" (TScalar KBool) [] [] "".
  Example ex_flag_run :
    o_ty (oc_opt (mk_oc o_flag)) = TScalar KBool /\
    val_after (opt_set orc0 [] ht0 (mk_oc o_flag) None (mk_rt (VBool false) oflags0)) 3 = Some (VBool true).
  Proof. vm_compute. split; reflexivity. Qed.

  Definition o_cb := mk_opt 3 "cb" (TFunc (Some (KInt I0)) true) [] [] "".
  Definition o_cb0 := mk_opt 3 "cb0" (TFunc None false) [] [] "".
  Example ex_callback_hyps :
    o_ty (oc_opt (mk_oc o_cb)) = TFunc (Some (KInt I0)) true /\ o_choices (oc_opt (mk_oc o_cb)) = [] /\
    rt_vals (mk_rt (VFunc false false) oflags0) 3 = VFunc false false /\
    convert_kind orc0 (o_base o_cb) (s2l "42") (KInt I0) = Ok (inl (VInt 42)) /\
    o_ty (oc_opt (mk_oc o_cb0)) = TFunc None false /\ o_is_help (oc_opt (mk_oc o_cb0)) = false.
  Proof. vm_compute. repeat split. Qed.
  Example ex_callback_run :
    match opt_set orc0 [] ht0 (mk_oc o_cb) (Some (s2l "42")) (mk_rt (VFunc false false) oflags0) with
    | Ok (r', e) => Some (l_calls (rt_logs r'), e)
    | _ => None
    end = Some ([(3%nat, Some (VInt 42))], None).
  Proof. vm_compute. reflexivity. Qed.
  (* without the non-nil function hypothesis the call panics *)
  Example ex_callback_nil :
    opt_set orc0 [] ht0 (mk_oc o_cb0) None (mk_rt (VFunc true false) oflags0)
    = Panic (s2l "reflect: call of nil function").
  Proof. vm_compute. reflexivity. Qed.

  Definition o_choice := mk_opt 3 "level" (TScalar KString) [s2l "lo"; s2l "hi"] [] "".
  Example ex_choices_hyps :
    o_choices (oc_opt (mk_oc o_choice)) <> [] /\ ~ In (s2l "mid") (o_choices (oc_opt (mk_oc o_choice))) /\
    In (s2l "hi") (o_choices (oc_opt (mk_oc o_choice))).
  Proof.
    split; [discriminate|]. split.
    - apply existsb_str_eqb_notin. reflexivity.
    - apply existsb_str_eqb_in. reflexivity.
  Qed.
  Example ex_choices_run :
    err_after (opt_set orc0 [] ht0 (mk_oc o_choice) (Some (s2l "mid")) (mk_rt (VStr (s2l "old")) oflags0))
      = Some (Some (EFlags ErrInvalidChoice
                (s2l "Invalid value `mid' for option `--level'. Allowed values are: lo or hi"))) /\
    val_after (opt_set orc0 [] ht0 (mk_oc o_choice) (Some (s2l "mid")) (mk_rt (VStr (s2l "old")) oflags0)) 3
      = Some (VStr (s2l "old")) /\
    val_after (opt_set orc0 [] ht0 (mk_oc o_choice) (Some (s2l "hi")) (mk_rt (VStr (s2l "old")) oflags0)) 3
      = Some (VStr (s2l "hi")).
  Proof. vm_compute. repeat split. Qed.

  (* COUNTEREXAMPLE to "an invalid choice leaves the value unchanged": a slice option whose
     clear-before-set flag is armed (as after Option.clearDefault's empty()/ParseArgs prologue)
     loses its contents although the argument is rejected *)
  Definition o_choice_slice := mk_opt 3 "levels" (TSlice (TScalar KString)) [s2l "lo"; s2l "hi"] [] "".
  Example choices_counterexample :
    err_after (opt_set orc0 [] ht0 (mk_oc o_choice_slice) (Some (s2l "mid")) (mk_rt (VSlice false [VStr (s2l "lo")]) armed))
      = Some (Some (EFlags ErrInvalidChoice
                (s2l "Invalid value `mid' for option `--levels'. Allowed values are: lo or hi"))) /\
    val_after (opt_set orc0 [] ht0 (mk_oc o_choice_slice) (Some (s2l "mid")) (mk_rt (VSlice false [VStr (s2l "lo")]) armed)) 3
      = Some (VSlice true []).
  Proof. vm_compute. split; reflexivity. Qed.

  (* C05 instances *)
  Definition o_def := mk_opt 3 "num" (TScalar (KInt I0)) [] [s2l "5"] "NUM".
  Definition o_nodef := mk_opt 3 "kv" (TMap KString (KInt I0)) [] [] "".
  Definition explicit : oflags := fl_with oflags0 true false true false.
  Example ex_default_source :
    default_source [] [] (mk_oc o_def) = [s2l "5"] /\
    default_source [(s2l "NUM", s2l "9")] [] (mk_oc o_def) = [s2l "9"] /\
    default_source [(s2l "NUM", [])] [] (mk_oc o_def) = [[]] /\
    default_source [(s2l "NUM", s2l "9")] [] (mk_oc o_nodef) = [].
  Proof. vm_compute. repeat split. Qed.
  Example ex_clear_default_run :
    (* explicit value wins over env and default *)
    f_prevent (rt_fl (mk_rt (VInt 7) explicit) 3) = true /\
    val_after (opt_clear_default orc0 [] ht0 [(s2l "NUM", s2l "9")] [] (mk_oc o_def) (mk_rt (VInt 7) explicit)) 3
      = Some (VInt 7) /\
    (* env wins over default; default wins over the initial field value *)
    f_prevent (rt_fl (mk_rt (VInt 7) oflags0) 3) = false /\
    val_after (opt_clear_default orc0 [] ht0 [(s2l "NUM", s2l "9")] [] (mk_oc o_def) (mk_rt (VInt 7) oflags0)) 3
      = Some (VInt 9) /\
    val_after (opt_clear_default orc0 [] ht0 [] [] (mk_oc o_def) (mk_rt (VInt 7) oflags0)) 3
      = Some (VInt 5) /\
    (* nothing to apply: nil map becomes empty map *)
    val_after (opt_clear_default orc0 [] ht0 [] [] (mk_oc o_nodef) (mk_rt (VMap true []) oflags0)) 3
      = Some (VMap false []).
  Proof. vm_compute. repeat split. Qed.

  (* COUNTEREXAMPLE to "used = [] leaves a non-map value unchanged" without [nil_wf]: an
     (ill-formed) nil slice carrying elements is replaced by the proper nil slice *)
  Definition o_nodef_slice := mk_opt 3 "nums" (TSlice (TScalar (KInt I0))) [] [] "".
  Example clear_default_counterexample :
    default_source [] [] (mk_oc o_nodef_slice) = [] /\
    val_after (opt_clear_default orc0 [] ht0 [] [] (mk_oc o_nodef_slice) (mk_rt (VSlice true [VInt 1]) oflags0)) 3
      = Some (VSlice true []).
  Proof. vm_compute. split; reflexivity. Qed.
End ValueExamples.

(* ================================================================== the command tree *)

Lemma fold_max_ge : forall {A} (f : A -> nat) (l : list A) i x,
  nth_error l i = Some x -> (f x <= fold_right (fun s acc => Nat.max (f s) acc) O l)%nat.
Proof.
  induction l as [|y l IH]; intros i x H; destruct i; cbn [nth_error] in H; try discriminate.
  - inversion H; subst. cbn [fold_right]. lia.
  - cbn [fold_right]. specialize (IH i x H). lia.
Qed.

Lemma cmd_depth_eq : forall ci g args subs,
  cmd_depth (Command ci g args subs) = S (fold_right (fun s acc => Nat.max (cmd_depth s) acc) O subs).
Proof. reflexivity. Qed.

Lemma cmd_depth_pos : forall c, (1 <= cmd_depth c)%nat.
Proof. intros [ci g args subs]. rewrite cmd_depth_eq. lia. Qed.

Lemma cmd_depth_sub : forall c i sub,
  nth_error (cmd_subs c) i = Some sub -> (cmd_depth sub < cmd_depth c)%nat.
Proof.
  intros [ci g args subs] i sub H. cbn [cmd_subs] in H. rewrite cmd_depth_eq.
  pose proof (fold_max_ge cmd_depth subs i sub H). lia.
Qed.

Lemma all_cmds_S : forall f c path,
  all_cmds (S f) c path =
  (path, c) :: flat_map (fun ic : nat * command => all_cmds f (snd ic) (path ++ [fst ic]))
                        (combine (seq 0 (length (cmd_subs c))) (cmd_subs c)).
Proof. reflexivity. Qed.

(* every command on a chain below [c] is enumerated by eachCommand *)
Lemma chain_in_all : forall path c fuel p0 c',
  (cmd_depth c <= fuel)%nat -> In c' (cmd_chain c path) -> exists p, In (p, c') (all_cmds fuel c p0).
Proof.
  induction path as [|i p IH]; intros c fuel p0 c' Hd Hin.
  - cbn [cmd_chain] in Hin. destruct Hin as [<-|[]].
    pose proof (cmd_depth_pos c). destruct fuel as [|f]; [lia|].
    exists p0. rewrite all_cmds_S. left; reflexivity.
  - cbn [cmd_chain] in Hin.
    pose proof (cmd_depth_pos c). destruct fuel as [|f]; [lia|].
    destruct Hin as [<-|Hin].
    + exists p0. rewrite all_cmds_S. left; reflexivity.
    + destruct (nth_error (cmd_subs c) i) as [s|] eqn:E; [|destruct Hin].
      pose proof (cmd_depth_sub c i s E).
      destruct (IH s f (p0 ++ [i]) c' ltac:(lia) Hin) as [q Hq].
      exists q. rewrite all_cmds_S. right. apply in_flat_map.
      exists (i, s). split; [apply in_combine_seq0; exact E|exact Hq].
Qed.

Lemma chain_in_tree : forall root path c,
  In c (cmd_chain root path) -> exists p, In (p, c) (tree_cmds root).
Proof. intros root path c H. unfold tree_cmds. eapply chain_in_all; [apply Nat.le_refl|exact H]. Qed.

Lemma cmd_at_in_chain : forall path root c, cmd_at root path = Some c -> In c (cmd_chain root path).
Proof.
  induction path as [|i p IH]; intros root c H; cbn [cmd_at] in H; cbn [cmd_chain].
  - inversion H; subst. left; reflexivity.
  - destruct (nth_error (cmd_subs root) i) as [s|]; [|discriminate]. right. apply IH. exact H.
Qed.

Lemma cmd_at_in_tree : forall root path c,
  cmd_at root path = Some c -> exists p, In (p, c) (tree_cmds root).
Proof. intros root path c H. eapply chain_in_tree, cmd_at_in_chain, H. Qed.

(* options of the command chain are options of the tree *)
Lemma chain_octxs_tree : forall root path oc,
  In oc (chain_octxs root path) -> In oc (tree_octxs root).
Proof.
  intros root path oc H. unfold chain_octxs in H. apply in_flat_map in H.
  destruct H as [c [Hc Hoc]]. destruct (chain_in_tree root path c Hc) as [p Hp].
  unfold tree_octxs. apply in_flat_map. exists (p, c). split; [exact Hp|exact Hoc].
Qed.

(* ================================================================== C01: fields outside the tree (target 9) *)
Section Untouched.
  Variable cfg : pconfig.
  Variable orc : oracles.
  Variable root : command.
  Variable ht : rt -> str.

  Definition opt_ok (oc : octx) : Prop := In oc (tree_octxs root).
  Definition arg_ok (a : arg) : Prop := exists p c, In (p, c) (tree_cmds root) /\ In a (cmd_args c).

  (* field ids the parser may write: option fields and positional-argument fields of the tree *)
  Definition owned (k : nat) : Prop :=
    (exists oc, In oc (tree_octxs root) /\ o_fid (oc_opt oc) = k) \/
    (exists p c a, In (p, c) (tree_cmds root) /\ In a (cmd_args c) /\ a_fid a = k).

  Variable k : nat.
  Hypothesis Hk : ~ owned k.

  Definition keep (r r' : rt) : Prop := rt_vals r' k = rt_vals r k /\ rt_fl r' k = rt_fl r k.

  Lemma keep_refl r : keep r r.
  Proof. split; reflexivity. Qed.
  Lemma keep_trans r1 r2 r3 : keep r1 r2 -> keep r2 r3 -> keep r1 r3.
  Proof. intros [A B] [C D]; split; congruence. Qed.

  Lemma opt_ok_fid oc : opt_ok oc -> k <> o_fid (oc_opt oc).
  Proof. intros H E. apply Hk. left. exists oc. split; [exact H|symmetry; exact E]. Qed.
  Lemma arg_ok_fid a : arg_ok a -> k <> a_fid a.
  Proof.
    intros [p [c [H1 H2]]] E. apply Hk. right. exists p, c, a. repeat split; auto.
  Qed.

  Lemma frame_keep fid r r' : frame_at fid r r' -> k <> fid -> keep r r'.
  Proof. intros [A [B _]] H. split; [apply A|apply B]; exact H. Qed.

  Lemma keep_set_val r fid v : k <> fid -> keep r (set_val r fid v).
  Proof. intros H. split; [cbn [set_val rt_vals]; apply upd_neq; exact H|reflexivity]. Qed.

  (* invariant of the parse state: the lookup tables only hold options of the tree, the
     pending positionals are arguments of commands of the tree *)
  Definition inv (s : pst) : Prop :=
    (forall n oc, In (n, oc) (lk_long (ps_lk s)) -> opt_ok oc) /\
    (forall n oc, In (n, oc) (lk_short (ps_lk s)) -> opt_ok oc) /\
    (forall a, In a (ps_pos s) -> arg_ok a).

  Definition sub_st (s s' : pst) : Prop := ps_lk s' = ps_lk s /\ incl (ps_pos s') (ps_pos s).

  Lemma sub_refl s : sub_st s s.
  Proof. split; [reflexivity|apply incl_refl]. Qed.
  Lemma sub_trans s1 s2 s3 : sub_st s1 s2 -> sub_st s2 s3 -> sub_st s1 s3.
  Proof. intros [A B] [C D]. split; [congruence|]. eapply incl_tran; eauto. Qed.
  Lemma inv_sub s s' : inv s -> sub_st s s' -> inv s'.
  Proof.
    intros [A [B C]] [D E]. unfold inv. rewrite D. split; [exact A|]. split; [exact B|].
    intros a Ha. apply C, E, Ha.
  Qed.
  Lemma sub_with_args s a rest : sub_st s (ps_with_args s a rest).
  Proof. split; [reflexivity|apply incl_refl]. Qed.
  Lemma sub_with_err s e : sub_st s (ps_with_err s e).
  Proof. split; [reflexivity|apply incl_refl]. Qed.

  Lemma inv_fill s path : inv (fill_parse_state cfg root s path).
  Proof.
    unfold inv, fill_parse_state; cbn [ps_lk ps_pos]. split; [|split].
    - intros n oc H. apply in_lk_long in H. destruct H as [H _].
      eapply chain_octxs_tree; exact H.
    - intros n oc H. apply in_lk_short in H. destruct H as [H _].
      eapply chain_octxs_tree; exact H.
    - intros a H. destruct (cmd_at root path) as [c|] eqn:E; [|destruct H].
      destruct (cmd_at_in_tree root path c E) as [p Hp]. exists p, c. split; assumption.
  Qed.

  Definition post3 (s : pst) (r : rt) (x : pst * rt * option err) : Prop :=
    keep r (snd (fst x)) /\ sub_st s (fst (fst x)).

  Lemma add_args_keep args : forall s r,
    (forall a, In a (ps_pos s) -> arg_ok a) -> wpT (add_args orc args s r) (post3 s r).
  Proof.
    induction args as [|a rest IH]; intros s r Hpos; cbn [add_args].
    - split; [apply keep_refl|apply sub_refl].
    - destruct (ps_pos s) as [|p ps'] eqn:E.
      + split; [apply keep_refl|]. split; [reflexivity|]. cbn [fst ps_with_retpos ps_pos]. intros x [].
      + apply wpT_bind. eapply wpT_conseq; [apply wpT_any|]. intros [v [m|]] _.
        * split; cbn [fst snd].
          -- apply keep_set_val. apply arg_ok_fid. apply Hpos. left; reflexivity.
          -- apply sub_with_err.
        * assert (S1 : sub_st s (if is_slice (a_ty p) then s else ps_with_retpos s (ps_ret s) ps')).
          { destruct (is_slice (a_ty p)); [apply sub_refl|].
            split; [reflexivity|]. cbn [ps_with_retpos ps_pos]. rewrite E. apply incl_tl, incl_refl. }
          eapply wpT_conseq; [apply IH|].
          -- intros a0 Ha0. apply Hpos. rewrite <- E. apply (proj2 S1). exact Ha0.
          -- intros x [A B]. split.
             ++ eapply keep_trans; [|exact A]. apply keep_set_val. apply arg_ok_fid. apply Hpos. left; reflexivity.
             ++ eapply sub_trans; [exact S1|exact B].
  Qed.

  Lemma opt_set_keep oc arg r : opt_ok oc ->
    wpT (opt_set orc (pc_nsdelim cfg) ht oc arg r) (fun re => keep r (fst re)).
  Proof.
    intros H. eapply wpT_conseq; [apply opt_set_fr|]. intros x Hx.
    eapply frame_keep; [exact Hx|apply opt_ok_fid; exact H].
  Qed.

  Lemma parse_option_keep oc canarg argument s r : opt_ok oc ->
    wpT (parse_option cfg orc ht oc canarg argument s r) (post3 s r).
  Proof.
    intros Hoc. unfold parse_option. cbv zeta.
    assert (FIN : forall s0 a r0, keep r r0 -> sub_st s s0 ->
      wpT (bind (opt_set orc (pc_nsdelim cfg) ht oc a r0)
                (fun rr => Ok (s0, fst rr, option_map (wrap_marshal cfg oc) (snd rr))))
          (post3 s r)).
    { intros s0 a r0 H0 L. wpT_bind_with (opt_set_keep oc a r0 Hoc). intros [r' e] H. split; cbn [fst snd] in *.
      - eapply keep_trans; eauto.
      - exact L. }
    assert (WA : forall s0 a, sub_st s s0 ->
      wpT
        (match (if o_unquote (oc_opt oc) then match a with 34 :: _ => unquote a | _ => Some a end else Some a) with
         | None => Ok (s0, r, Some (marshal_error cfg oc err_syntax))
         | Some a' => bind (opt_set orc (pc_nsdelim cfg) ht oc (Some a') r)
                           (fun rr => Ok (s0, fst rr, option_map (wrap_marshal cfg oc) (snd rr)))
         end) (post3 s r)).
    { intros s0 a L.
      destruct (if o_unquote (oc_opt oc) then _ else _).
      - apply FIN; [apply keep_refl|exact L].
      - split; [apply keep_refl|exact L]. }
    destruct (negb (can_argument (oc_opt oc))).
    - destruct argument.
      + split; [apply keep_refl|apply sub_refl].
      + apply FIN; [apply keep_refl|apply sub_refl].
    - destruct argument as [a|].
      + apply WA. apply sub_refl.
      + destruct (if canarg then ps_args s else []) as [|a rest] eqn:E.
        * destruct (o_optional (oc_opt oc)).
          -- assert (H0 : keep r (opt_empty (oc_opt oc) r)).
             { eapply frame_keep; [apply frame_opt_empty|apply opt_ok_fid; exact Hoc]. }
             revert H0. generalize (opt_empty (oc_opt oc) r).
             induction (o_optval (oc_opt oc)) as [|v vs IH]; intros r0 H0.
             ++ split; [exact H0|apply sub_refl].
             ++ wpT_bind_with (opt_set_keep oc (Some v) r0 Hoc). intros [r' [e|]] H; cbn [fst snd] in *.
                ** split; cbn [fst snd]; [eapply keep_trans; eauto|apply sub_refl].
                ** apply IH. eapply keep_trans; eauto.
          -- split; [apply keep_refl|apply sub_refl].
        * pose proof (sub_with_args s a rest) as L.
          destruct (negb (is_valid_value _ _)).
          -- destruct (has_percent _); [exact I|].
             split; [apply keep_refl|exact L].
          -- destruct (_ && _).
             ++ split; [apply keep_refl|exact L].
             ++ apply WA. exact L.
  Qed.

  Lemma find_last_inv_long s n oc : inv s -> find_last (lk_long (ps_lk s)) n = Some oc -> opt_ok oc.
  Proof. intros [A _] H. apply find_last_in in H. eapply A; exact H. Qed.
  Lemma find_last_inv_short s n oc : inv s -> find_last (lk_short (ps_lk s)) n = Some oc -> opt_ok oc.
  Proof. intros [_ [A _]] H. apply find_last_in in H. eapply A; exact H. Qed.

  Lemma parse_long_keep name argument s r : inv s ->
    wpT (parse_long cfg orc ht name argument s r) (post3 s r).
  Proof.
    intros Hi. unfold parse_long. destruct (find_last _ _) as [oc|] eqn:E.
    - apply parse_option_keep. eapply find_last_inv_long; eauto.
    - split; [apply keep_refl|apply sub_refl].
  Qed.

  Lemma short_loop_keep total rs : forall argument s r, inv s ->
    wpT (short_loop cfg orc ht total rs argument s r) (post3 s r).
  Proof.
    induction rs as [|[[i c] n] rs IH]; intros argument s r Hi; cbn [short_loop].
    - split; [apply keep_refl|apply sub_refl].
    - destruct (find_last _ _) as [oc|] eqn:E.
      + wpT_bind_with parse_option_keep; [eapply find_last_inv_short; eauto|].
        intros [[s' r'] [e|]] [A B]; cbn [fst snd] in *.
        * split; [exact A|exact B].
        * eapply wpT_conseq; [apply IH; eapply inv_sub; eauto|]. intros x [C D]. split.
          -- eapply keep_trans; eauto.
          -- eapply sub_trans; eauto.
      + split; [apply keep_refl|apply sub_refl].
  Qed.

  Lemma parse_short_keep optname argument s r : inv s ->
    wpT (parse_short cfg orc ht optname argument s r) (post3 s r).
  Proof.
    intros Hi. unfold parse_short.
    destruct (match argument with None => _ | Some _ => _ end) as [o a].
    apply short_loop_keep. exact Hi.
  Qed.

  Definition post3i (r : rt) (x : pst * rt * option err) : Prop :=
    keep r (snd (fst x)) /\ inv (fst (fst x)).

  Lemma add_args_keep_inv args s r : inv s -> wpT (add_args orc args s r) (post3i r).
  Proof.
    intros Hi. eapply wpT_conseq; [apply add_args_keep; exact (proj2 (proj2 Hi))|].
    intros x [A B]. split; [exact A|eapply inv_sub; eauto].
  Qed.

  Lemma parse_non_option_keep s r : inv s ->
    wpT (parse_non_option cfg orc root s r) (post3i r).
  Proof.
    intros Hi. unfold parse_non_option.
    destruct (ps_pos s); [|apply add_args_keep_inv; exact Hi].
    cbv zeta.
    destruct (_ && _); [|apply add_args_keep_inv; exact Hi].
    destruct (find_last _ _).
    - split; cbn [fst snd]; [split; reflexivity|apply inv_fill].
    - destruct (negb _); [|apply add_args_keep_inv; exact Hi].
      wpT_bind_with add_args_keep_inv; [exact Hi|]. intros [[s' r'] e] H. exact H.
  Qed.

  Definition step_keep_post (r : rt) (sr : step_res) : Prop :=
    match sr with
    | Continue s' r' => keep r r' /\ inv s'
    | Break s' r' => keep r r' /\ inv s'
    end.

  Lemma step_keep s r : inv s -> wpT (step cfg orc root ht s r) (step_keep_post r).
  Proof.
    intros Hi. unfold step.
    destruct (ps_args s) as [|a rest] eqn:E; [split; [apply keep_refl|exact Hi]|].
    cbv zeta.
    assert (Hi0 : inv (ps_with_args s a rest)) by (eapply inv_sub; [exact Hi|apply sub_with_args]).
    set (s0 := ps_with_args s a rest) in *. clearbody s0.
    destruct (_ && str_eqb a _).
    { wpT_bind_with add_args_keep_inv; [exact Hi0|]. intros [[s' r'] e] [A B]; cbn [fst snd] in *.
      split; [exact A|]. eapply inv_sub; [exact B|apply sub_with_args]. }
    destruct (negb (argument_is_option a)).
    { destruct (_ && _).
      - wpT_bind_with add_args_keep_inv; [exact Hi0|]. intros [[s1 r1] [e1|]] [A B]; cbn [fst snd] in *.
        + split; assumption.
        + wpT_bind_with add_args_keep_inv; [exact B|]. intros [[s2 r2] e2] [C D]; cbn [fst snd] in *.
          split; [eapply keep_trans; eauto|exact D].
      - wpT_bind_with parse_non_option_keep; [exact Hi0|]. intros [[s' r'] [e|]] [A B]; cbn [fst snd] in *.
        + split; assumption.
        + split; assumption. }
    destruct (split_option a) as [[islong optname] argument].
    apply wpT_bind.
    eapply wpT_conseq with (Q := post3 s0 r).
    { destruct islong; [apply parse_long_keep|apply parse_short_keep]; exact Hi0. }
    intros [[s' r'] [er|]] [A B]; cbn [fst snd] in *.
    2:{ split; [exact A|eapply inv_sub; eauto]. }
    assert (Hi' : inv s') by (eapply inv_sub; eauto).
    destruct (_ || _).
    { split; [exact A|]. eapply inv_sub; [exact Hi'|apply sub_with_err]. }
    destruct (po_ignore _).
    { wpT_bind_with add_args_keep_inv; [exact Hi'|]. intros [[s2 r2] e2] [C D]; cbn [fst snd] in *.
      split; [eapply keep_trans; eauto|exact D]. }
    assert (KL : keep r (log_unknown r' optname argument (ps_args s'))).
    { eapply keep_trans; [exact A|]. split; reflexivity. }
    destruct (run_handler cfg optname argument (ps_args s')); cbn [wpT wp step_keep_post].
    - split; [exact KL|]. eapply inv_sub; [exact Hi'|apply sub_with_args].
    - split; [exact KL|]. eapply inv_sub; [exact Hi'|apply sub_with_err].
  Qed.

  Lemma run_loop_keep fuel : forall s r, inv s ->
    wpT (run_loop cfg orc root ht fuel s r) (fun x => keep r (snd x) /\ inv (fst x)).
  Proof.
    induction fuel as [|f IH]; intros s r Hi; [exact I|].
    cbn [run_loop].
    destruct (ps_args s) as [|a rest] eqn:E; [split; [apply keep_refl|exact Hi]|].
    wpT_bind_with step_keep; [exact Hi|]. intros [s' r'|s' r'] [A B].
    - eapply wpT_conseq; [apply IH; exact B|].
      intros x [C D]. split; [eapply keep_trans; eauto|exact D].
    - split; assumption.
  Qed.

  Lemma clear_defaults_keep ocs : forall s r, (forall oc, In oc ocs -> opt_ok oc) ->
    wpT (clear_defaults cfg orc ht ocs s r) (fun x => keep r (snd x)).
  Proof.
    induction ocs as [|oc ocs IH]; intros s r Hin; cbn [clear_defaults]; [apply keep_refl|].
    wpT_bind_with opt_clear_default_fr. intros [r' e] H; cbn [fst] in H.
    eapply wpT_conseq; [apply IH; intros oc' Hoc'; apply Hin; right; exact Hoc'|].
    intros x Hx. eapply keep_trans; [|exact Hx].
    eapply frame_keep; [exact H|]. apply opt_ok_fid. apply Hin. left; reflexivity.
  Qed.

  Lemma parse_core_keep args r :
    wpT (parse_core cfg orc root ht args r) (fun x => keep r (snd x)).
  Proof.
    unfold parse_core.
    apply wpT_bind. eapply wpT_conseq.
    { apply run_loop_keep. unfold initial_pst. apply inv_fill. }
    intros [s r1] [H _]; cbn [snd] in H.
    destruct (ps_err s); [exact H|].
    wpT_bind_with clear_defaults_keep; [intros oc Hoc; exact Hoc|]. intros [s1 r2] H2; cbn [snd] in *.
    eapply keep_trans; eauto.
  Qed.

  Lemma parse_finish_keep s r : keep r (fst (parse_finish cfg root s r)).
  Proof.
    unfold parse_finish. cbv zeta.
    assert (PE : forall r0 e, keep r r0 -> keep r (print_error cfg r0 e)).
    { intros r0 e H. unfold print_error. destruct (po_print _); exact H. }
    destruct (ps_err s) as [e|].
    - cbn [fst]. apply PE. apply keep_refl.
    - destruct (_ && _).
      + cbn [fst]. apply PE. apply keep_refl.
      + destruct (c_exec _).
        * destruct (pc_cmdhandler cfg); cbn [fst]; split; reflexivity.
        * cbn [fst]. split; reflexivity.
        * cbn [fst]. apply PE. split; reflexivity.
  Qed.

  Lemma parse_body_keep args r r' res :
    parse_body cfg orc root ht args r = Ok (r', res) -> keep r r'.
  Proof.
    intros H. unfold parse_body in H.
    pose proof (parse_core_keep args r) as W.
    destruct (parse_core cfg orc root ht args r) as [[s r1]|e|w]; cbn [bind] in H; try discriminate.
    cbn [wpT wp snd] in W. inversion H as [H1].
    eapply keep_trans; [exact W|]. pose proof (parse_finish_keep s r1) as F. rewrite H1 in F. exact F.
  Qed.
End Untouched.

(* ---- target 9 *)
Theorem C01_untouched_main : forall cfg orc root ht args r r' res,
  parse_body cfg orc root ht args r = Ok (r', res) ->
  forall k,
    (forall oc, In oc (tree_octxs root) -> o_fid (oc_opt oc) <> k) ->
    (forall p c a, In (p, c) (tree_cmds root) -> In a (cmd_args c) -> a_fid a <> k) ->
    rt_vals r' k = rt_vals r k /\ rt_fl r' k = rt_fl r k.
Proof.
  intros cfg orc root ht args r r' res H k Ho Ha.
  apply (parse_body_keep cfg orc root ht k) with (args := args) (res := res); [|exact H].
  intros [[oc [H1 H2]]|[p [c [a [H1 [H2 H3]]]]]].
  - exact (Ho oc H1 H2).
  - exact (Ha p c a H1 H2 H3).
Qed.

(* the same for the loop-and-defaults phase alone *)
Theorem C01_untouched_core : forall cfg orc root ht args r s r',
  parse_core cfg orc root ht args r = Ok (s, r') ->
  forall k,
    (forall oc, In oc (tree_octxs root) -> o_fid (oc_opt oc) <> k) ->
    (forall p c a, In (p, c) (tree_cmds root) -> In a (cmd_args c) -> a_fid a <> k) ->
    rt_vals r' k = rt_vals r k /\ rt_fl r' k = rt_fl r k.
Proof.
  intros cfg orc root ht args r s r' H k Ho Ha.
  assert (Hk : ~ owned root k).
  { intros [[oc [H1 H2]]|[p [c [a [H1 [H2 H3]]]]]].
    - exact (Ho oc H1 H2).
    - exact (Ha p c a H1 H2 H3). }
  exact (wpT_ok _ _ _ (parse_core_keep cfg orc root ht k Hk args r) H).
Qed.

(* ---- a realistic instance of target 9: `app --num N add [--force] File` *)
Module UntouchedExample.
  Import ValueExamples.
  Definition cfg0 : pconfig :=
    {| pc_name := s2l "app";
       pc_opts := {| po_help := false; po_passdd := true; po_ignore := false; po_print := false; po_passafter := false |};
       pc_nsdelim := s2l "."; pc_envdelim := s2l "_"; pc_handler := HNone; pc_cmdhandler := false;
       pc_usage := []; pc_env := []; pc_cols := 80; pc_shortdesc := []; pc_longdesc := [] |}.
  Definition gi0 : ginfo :=
    {| g_short := s2l "Application Options"; g_long := []; g_ns := []; g_envns := [];
       g_hidden := false; g_builtin_help := false |}.
  Definition ci0 (name : string) : cinfo :=
    {| c_name := s2l name; c_aliases := []; c_sub_optional := false; c_args_required := false;
       c_hidden := false; c_exec := ExNone; c_usage := None; c_has_help := false |}.
  Definition a_file : arg :=
    {| a_fid := 1; a_name := s2l "File"; a_desc := []; a_req := (-1)%Z; a_max := (-1)%Z;
       a_ty := TScalar KString; a_base := [] |}.
  Definition sub_add : command :=
    Command (ci0 "add") (Group gi0 [mk_opt 4 "force" (TScalar KBool) [] [] ""] []) [a_file] [].
  Definition root0 : command :=
    Command (ci0 "app") (Group gi0 [mk_opt 0 "num" (TScalar (KInt I0)) [] [] ""] []) [] [sub_add].
  Definition rt0 : rt :=
    {| rt_vals := fun i => match i with
                           | 0%nat => VInt 0 | 1%nat => VStr [] | 4%nat => VBool false
                           | _ => VStr (s2l "not a parser field") end;
       rt_fl := fun _ => oflags0; rt_active := []; rt_logs := logs0 |}.
  Definition args0 : list str := [s2l "--num"; s2l "5"; s2l "add"; s2l "--force"; s2l "x"].

  Example untouched_hyps :
    (forall oc, In oc (tree_octxs root0) -> o_fid (oc_opt oc) <> 2%nat) /\
    (forall p c a, In (p, c) (tree_cmds root0) -> In a (cmd_args c) -> a_fid a <> 2%nat).
  Proof.
    split.
    - intros oc H. vm_compute in H. destruct H as [<-|[<-|[]]]; discriminate.
    - intros p c a H Ha. vm_compute in H. destruct H as [H|[H|[]]]; inversion H; subst; clear H.
      + destruct Ha.
      + destruct Ha as [<-|[]]. discriminate.
  Qed.
  Example untouched_run :
    match parse_body cfg0 orc0 root0 ht0 args0 rt0 with
    | Ok (r', res) => Some (rt_vals r' 0%nat, rt_vals r' 1%nat, rt_vals r' 4%nat, rt_vals r' 2%nat, pr_err res)
    | _ => None
    end = Some (VInt 5, VStr (s2l "x"), VBool true, VStr (s2l "not a parser field"), None).
  Proof. vm_compute. reflexivity. Qed.
End UntouchedExample.

Print Assumptions opt_set_frame.
Print Assumptions opt_call_frame.
Print Assumptions opt_set_default_frame.
Print Assumptions set_defaults_frame.
Print Assumptions opt_clear_default_frame.
Print Assumptions opt_set_scalar.
Print Assumptions opt_set_slice.
Print Assumptions opt_set_slice_twice.
Print Assumptions opt_set_map.
Print Assumptions map_set_hit.
Print Assumptions map_set_miss.
Print Assumptions map_split_spec.
Print Assumptions opt_set_flag.
Print Assumptions opt_set_callback.
Print Assumptions opt_set_choices.
Print Assumptions opt_set_default_spec.
Print Assumptions default_source_env.
Print Assumptions opt_clear_default_spec.
Print Assumptions C01_untouched_core.
Print Assumptions C01_untouched_main.
