(* C08 ("command selection and option scoping"): an option of an ancestor command stays
   accepted after a sub-command has been named, so `app -v add` and `app add -v` are
   interchangeable; a missing / unknown command where one is required is diagnosed after
   the loop.  Model/Lookup.v, Model/State.v, Model/Parse.v. *)
From GoFlags Require Import Base.Str Base.Utf8 Golib.Strings Golib.Strconv
     Model.Types Model.Tag Model.Scan Model.Lookup Model.Convert Model.State Model.Closest Model.Parse.
From GoFlags Require Import Proofs.FrameBase Proofs.FrameParse Proofs.LookupSpec Proofs.ArgsSpec
     Proofs.ValueSpec Proofs.SpellSpec.
From Coq Require Import Lia ZifyN ZifyNat ZifyBool.
Open Scope N_scope.

(* ====================================================================== *)
(* 1. the lookup tables after entering a sub-command                         *)
(* ====================================================================== *)
Section EnterLookup.
  Variable delim : str.
  Variable root : command.

  (* the complete description: the child's own declaration wins, otherwise the
     answer of the parent's lookup is kept (found or not found) *)
  Lemma lookup_enter_find_long : forall path i cur sub n,
    cmd_at root path = Some cur -> nth_error (cmd_subs cur) i = Some sub ->
    find_last (lk_long (make_lookup delim root (path ++ [i]))) n =
    match find_last (snd (fill_opts delim sub)) n with
    | Some oc' => Some oc'
    | None => find_last (lk_long (make_lookup delim root path)) n
    end.
  Proof.
    intros path i cur sub n Hat Hn.
    rewrite (lookup_enter_long delim root path i cur sub Hat Hn). apply find_last_app.
  Qed.

  Lemma lookup_enter_find_short : forall path i cur sub n,
    cmd_at root path = Some cur -> nth_error (cmd_subs cur) i = Some sub ->
    find_last (lk_short (make_lookup delim root (path ++ [i]))) n =
    match find_last (fst (fill_opts delim sub)) n with
    | Some oc' => Some oc'
    | None => find_last (lk_short (make_lookup delim root path)) n
    end.
  Proof.
    intros path i cur sub n Hat Hn.
    rewrite (lookup_enter_short delim root path i cur sub Hat Hn). apply find_last_app.
  Qed.

  (* command words are resolved among the children of the NEW current command only *)
  Lemma lookup_enter_cmds : forall path i cur sub,
    cmd_at root path = Some cur -> nth_error (cmd_subs cur) i = Some sub ->
    lk_cmds (make_lookup delim root (path ++ [i])) = fill_cmds sub.
  Proof.
    intros path i cur sub Hat Hn. unfold make_lookup; cbn [lk_cmds].
    rewrite (cmd_at_snoc path root i cur sub Hat Hn). reflexivity.
  Qed.

  Theorem C08_ancestor_option_in_child_lookup : forall path i cur sub n oc,
    cmd_at root path = Some cur -> nth_error (cmd_subs cur) i = Some sub ->
    (find_last (lk_long (make_lookup delim root path)) n = Some oc ->
     find_last (snd (fill_opts delim sub)) n = None ->
     find_last (lk_long (make_lookup delim root (path ++ [i]))) n = Some oc) /\
    (find_last (lk_short (make_lookup delim root path)) n = Some oc ->
     find_last (fst (fill_opts delim sub)) n = None ->
     find_last (lk_short (make_lookup delim root (path ++ [i]))) n = Some oc).
  Proof.
    intros path i cur sub n oc Hat Hn. split; intros Hf Hc.
    - rewrite (lookup_enter_find_long path i cur sub n Hat Hn), Hc. exact Hf.
    - rewrite (lookup_enter_find_short path i cur sub n Hat Hn), Hc. exact Hf.
  Qed.

  Theorem C08_child_shadows : forall path i cur sub n oc',
    cmd_at root path = Some cur -> nth_error (cmd_subs cur) i = Some sub ->
    (find_last (snd (fill_opts delim sub)) n = Some oc' ->
     find_last (lk_long (make_lookup delim root (path ++ [i]))) n = Some oc') /\
    (find_last (fst (fill_opts delim sub)) n = Some oc' ->
     find_last (lk_short (make_lookup delim root (path ++ [i]))) n = Some oc').
  Proof.
    intros path i cur sub n oc' Hat Hn. split; intros Hc.
    - rewrite (lookup_enter_find_long path i cur sub n Hat Hn), Hc. reflexivity.
    - rewrite (lookup_enter_find_short path i cur sub n Hat Hn), Hc. reflexivity.
  Qed.
End EnterLookup.

(* ====================================================================== *)
(* 2. Option.Set and Command.Active commute                                  *)
(* ====================================================================== *)

(* apply [set_active _ p i] to the state component of an outcome; errors and panics
   are passed through *)
Definition lift_active (p : list nat) (i : nat) (x : res (rt * option err)) : res (rt * option err) :=
  bind x (fun re => Ok (set_active (fst re) p i, snd re)).

Lemma opt_empty_active o r p i : opt_empty o (set_active r p i) = set_active (opt_empty o r) p i.
Proof. unfold opt_empty. destruct (is_func (o_ty o)); reflexivity. Qed.

Section Commute.
  Variable orc : oracles.
  Variable delim : str.
  Variable ht : rt -> str.

  (* [ht] is consulted for the help option only; for it we need that the rendered help
     does not depend on the Active binding that is being added *)
  Definition help_insensitive (oc : octx) (p : list nat) (i : nat) : Prop :=
    o_is_help (oc_opt oc) = true -> forall r0, ht (set_active r0 p i) = ht r0.

  Lemma opt_call_active oc arg r p i : help_insensitive oc p i ->
    opt_call orc ht oc arg (set_active r p i) = lift_active p i (opt_call orc ht oc arg r).
  Proof.
    intros Hh.
    assert (F : forall r0,
      (if o_is_help (oc_opt oc) then Ok (set_active r0 p i, Some (EFlags ErrHelp (ht (set_active r0 p i))))
       else match rt_vals (set_active r0 p i) (o_fid (oc_opt oc)), o_ty (oc_opt oc) with
            | VFunc true _, _ => Panic (s2l "reflect: call of nil function")
            | VFunc false fails, TFunc _ true =>
              Ok (set_active r0 p i, if fails then Some (foreign (s2l "callback failed")) else None)
            | _, _ => Ok (set_active r0 p i, None)
            end) =
      lift_active p i
      (if o_is_help (oc_opt oc) then Ok (r0, Some (EFlags ErrHelp (ht r0)))
       else match rt_vals r0 (o_fid (oc_opt oc)), o_ty (oc_opt oc) with
            | VFunc true _, _ => Panic (s2l "reflect: call of nil function")
            | VFunc false fails, TFunc _ true =>
              Ok (r0, if fails then Some (foreign (s2l "callback failed")) else None)
            | _, _ => Ok (r0, None)
            end)).
    { intros r0. destruct (o_is_help (oc_opt oc)) eqn:E.
      { rewrite (Hh E r0). reflexivity. }
      change (rt_vals (set_active r0 p i)) with (rt_vals r0).
      destruct (rt_vals r0 (o_fid (oc_opt oc))); try reflexivity.
      destruct isnil; [reflexivity|].
      destruct (o_ty (oc_opt oc)); try reflexivity. destruct ret_err; reflexivity. }
    unfold opt_call. cbv zeta.
    destruct arg as [v|]; destruct (o_ty (oc_opt oc)) as [k|k|e|k1 k2|[k|] b] eqn:E; try reflexivity.
    - destruct (convert orc (o_base (oc_opt oc)) v (TScalar k) (zero_kind k)) as [[x [e|]]| |];
        cbn [bind]; try reflexivity.
      exact (F (log_call r (o_fid (oc_opt oc)) (Some x))).
    - destruct (o_is_help (oc_opt oc)); [exact (F r)|].
      exact (F (log_call r (o_fid (oc_opt oc)) None)).
    - destruct (o_is_help (oc_opt oc)); [exact (F r)|].
      exact (F (log_call r (o_fid (oc_opt oc)) None)).
  Qed.

  (* the general form: an equation between outcomes (errors and panics included) *)
  Lemma opt_set_active oc arg r p i : help_insensitive oc p i ->
    opt_set orc delim ht oc arg (set_active r p i) = lift_active p i (opt_set orc delim ht oc arg r).
  Proof.
    intros Hh. unfold opt_set. cbv zeta.
    change (rt_fl (set_active r p i)) with (rt_fl r).
    set (fid := o_fid (oc_opt oc)).
    set (c := (is_map (o_ty (oc_opt oc)) || is_slice (o_ty (oc_opt oc))) && f_clearref (rt_fl r fid)).
    set (f := fl_with (rt_fl r fid) true (f_isdefault (rt_fl r fid)) true false).
    assert (E : set_fl (if c then opt_empty (oc_opt oc) (set_active r p i) else set_active r p i) fid f =
                set_active (set_fl (if c then opt_empty (oc_opt oc) r else r) fid f) p i).
    { destruct c; [rewrite opt_empty_active|]; reflexivity. }
    rewrite E. generalize (set_fl (if c then opt_empty (oc_opt oc) r else r) fid f). intros r1.
    clear E c f.
    assert (K : (if is_func (o_ty (oc_opt oc)) then opt_call orc ht oc arg (set_active r1 p i)
         else bind (convert orc (o_base (oc_opt oc)) match arg with Some v => v | None => [] end
                       (o_ty (oc_opt oc)) (rt_vals (set_active r1 p i) fid))
                (fun cv => let '(v, e) := cv in Ok (set_val (set_active r1 p i) fid v, option_map foreign e))) =
         lift_active p i
         (if is_func (o_ty (oc_opt oc)) then opt_call orc ht oc arg r1
         else bind (convert orc (o_base (oc_opt oc)) match arg with Some v => v | None => [] end
                       (o_ty (oc_opt oc)) (rt_vals r1 fid))
                (fun cv => let '(v, e) := cv in Ok (set_val r1 fid v, option_map foreign e)))).
    { destruct (is_func _); [apply opt_call_active; exact Hh|].
      change (rt_vals (set_active r1 p i)) with (rt_vals r1).
      destruct (convert _ _ _ _ _) as [[v e]| |]; reflexivity. }
    destruct (o_choices (oc_opt oc)) as [|c cs]; [exact K|].
    destruct arg as [v|]; [|exact K].
    destruct (existsb _ _); [exact K|]. reflexivity.
  Qed.

  Theorem C08_set_active_commutes : forall oc arg r r1 e p i,
    o_is_help (oc_opt oc) = false ->
    opt_set orc delim ht oc arg r = Ok (r1, e) ->
    opt_set orc delim ht oc arg (set_active r p i) = Ok (set_active r1 p i, e).
  Proof.
    intros oc arg r r1 e p i Hh H.
    rewrite opt_set_active by (intros Hc; congruence).
    rewrite H. reflexivity.
  Qed.

  (* ... and the outcome is an error / a panic on one side iff it is the same one on
     the other side *)
  Theorem C08_set_active_commutes_fail : forall oc arg r p i,
    o_is_help (oc_opt oc) = false ->
    (forall e, opt_set orc delim ht oc arg r = Err e ->
               opt_set orc delim ht oc arg (set_active r p i) = Err e) /\
    (forall t, opt_set orc delim ht oc arg r = Panic t ->
               opt_set orc delim ht oc arg (set_active r p i) = Panic t).
  Proof.
    intros oc arg r p i Hh.
    split; intros x H; (rewrite opt_set_active by (intros Hc; congruence)); rewrite H; reflexivity.
  Qed.

  (* Set never touches Active (from ValueSpec.opt_set_frame): after either order the
     binding just added is the first one *)
  Corollary opt_set_active_binding : forall oc arg r r1 e p i,
    o_is_help (oc_opt oc) = false ->
    opt_set orc delim ht oc arg r = Ok (r1, e) ->
    exists r2, opt_set orc delim ht oc arg (set_active r p i) = Ok (r2, e) /\
               rt_active r2 = (p, i) :: rt_active r /\ rt_active r1 = rt_active r.
  Proof.
    intros oc arg r r1 e p i Hh H. exists (set_active r1 p i).
    split; [exact (C08_set_active_commutes oc arg r r1 e p i Hh H)|].
    destruct (opt_set_frame orc delim ht oc arg r r1 e H) as (_ & _ & A & _).
    split; [cbn [set_active rt_active]; rewrite A; reflexivity|exact A].
  Qed.
End Commute.

(* ====================================================================== *)
(* 3. `-v add` versus `add -v`: two loop iterations in either order          *)
(* ====================================================================== *)

Lemma nonempty_map0 {A} (l : list A) : nonempty (map (fun _ => 0) l) = true <-> l <> [].
Proof. destruct l; cbn [map nonempty]; split; intros H; congruence. Qed.

Lemma nth_error_subs_ne {A} (l : list A) i x : nth_error l i = Some x -> l <> [].
Proof. intros H ->. destruct i; discriminate H. Qed.

Section Scope.
  Variable cfg : pconfig.
  Variable orc : oracles.
  Variable root : command.
  Variable help_text : rt -> str.

  Notation delim := (pc_nsdelim cfg).
  Notation stp := (step cfg orc root help_text).
  Notation two := (two_steps cfg orc root help_text).
  Notation fset := (flag_set cfg orc help_text).

  (* the relation between the two orders.  When the flag's Set FAILS the loop stops in
     both orders with the same recorded error, but order 1 (flag first) stops before the
     command word has been consumed: order 2's final state is what order 1's would become
     by entering sub-command [i] (fillParseState and Active), and [w] is still pending in
     order 1 *)
  Definition scope_rel (w : str) (i : nat) (x y : res step_res) : Prop :=
    match x, y with
    | Ok (Continue a r1), Ok (Continue b r2) => ps_eqv a b /\ r1 = r2
    | Ok (Break a r1), Ok (Break b r2) =>
      ps_sim b (fill_parse_state cfg root a (ps_cmd a ++ [i])) /\
      ps_args a = w :: ps_args b /\
      r2 = set_active r1 (ps_cmd a) i
    | Err e1, Err e2 => e1 = e2
    | Panic t1, Panic t2 => t1 = t2
    | _, _ => False
    end.

  Lemma flag_set_active oc r p i : o_is_help (oc_opt oc) = false ->
    fset oc (set_active r p i) = lift_active p i (fset oc r).
  Proof.
    intros Hh. unfold flag_set. rewrite opt_set_active by (intros Hc; congruence).
    destruct (opt_set _ _ _ _ _ _) as [[r1 e]| |]; reflexivity.
  Qed.

  (* one iteration on a command word in command position *)
  Lemma command_step_nf s r w rest i cur :
    ps_args s = w :: rest -> ps_pos s = [] -> ps_ret s = [] ->
    cmd_at root (ps_cmd s) = Some cur -> cmd_subs cur <> [] ->
    find_last (lk_cmds (ps_lk s)) w = Some i ->
    argument_is_option w = false ->
    ~ (po_passdd (pc_opts cfg) = true /\ w = s2l "--") ->
    stp s r = Ok (Continue (fill_parse_state cfg root (ps_with_args s w rest) (ps_cmd s ++ [i]))
                           (set_active r (ps_cmd s) i)).
  Proof.
    intros Hargs Hpos Hret Hat Hsubs Hfind Hopt Hdd.
    unfold step. rewrite Hargs. cbv zeta.
    rewrite (dd_cond _ _ Hdd), Hopt. cbn [negb].
    cbn [ps_lk ps_with_args]. rewrite Hfind, andb_false_r.
    rewrite (C08_enter cfg orc root (ps_with_args s w rest) r i); [reflexivity|exact Hpos| |exact Hret|exact Hfind].
    unfold cur_cmd. cbn [ps_cmd ps_with_args]. rewrite Hat. apply nonempty_map0. exact Hsubs.
  Qed.

  (* one iteration on a long flag token --n *)
  Lemma long_flag_nf s r n rest oc :
    n <> [] -> hd 0 n <> 45 -> ~ In 61 n ->
    find_last (lk_long (ps_lk s)) n = Some oc -> can_argument (oc_opt oc) = false ->
    ps_args s = (s2l "--" ++ n) :: rest ->
    stp s r = outcome (ps_with_args s (s2l "--" ++ n) rest) (fset oc r).
  Proof.
    intros Hne Hhd H61 Hf Hc Hargs.
    assert (A : argument_is_option (s2l "--" ++ n) = true).
    { destruct n as [|b n']; [congruence|]. cbn [hd] in Hhd.
      change (s2l "--" ++ (b :: n')) with (45 :: 45 :: b :: n').
      apply aio_long; exact Hhd. }
    rewrite (step_on_option cfg orc root help_text s r _ rest true n None Hargs A (split_long_plain n H61)).
    unfold parse_long. cbn [ps_lk ps_with_args]. rewrite Hf.
    rewrite parse_option_flag by exact Hc.
    apply tail_lift, flag_set_cls.
  Qed.

  (* ---- generic in the spelling of the flag token *)
  Section Token.
    Variable tok : str.
    Variable sel : lookup -> option octx.
    Hypothesis Htok : forall s r rest oc,
      ps_args s = tok :: rest -> sel (ps_lk s) = Some oc -> can_argument (oc_opt oc) = false ->
      stp s r = outcome (ps_with_args s tok rest) (fset oc r).

    Variables (s1 s2 : pst) (r : rt) (w : str) (rest : list str) (oc : octx) (i : nat) (cur : command).
    Hypothesis Hsim : ps_sim s1 s2.
    Hypothesis Hpos : ps_pos s1 = [].
    Hypothesis Hret : ps_ret s1 = [].
    Hypothesis Hat : cmd_at root (ps_cmd s1) = Some cur.
    Hypothesis Hsubs : cmd_subs cur <> [].
    Hypothesis Hw : find_last (lk_cmds (ps_lk s1)) w = Some i.
    Hypothesis Hwopt : argument_is_option w = false.
    Hypothesis Hdd : ~ (po_passdd (pc_opts cfg) = true /\ w = s2l "--").
    Hypothesis Hsel : sel (ps_lk s1) = Some oc.
    Hypothesis Hsel' : sel (make_lookup delim root (ps_cmd s1 ++ [i])) = Some oc.
    Hypothesis Hcan : can_argument (oc_opt oc) = false.
    Hypothesis Hhelp : o_is_help (oc_opt oc) = false.
    Hypothesis Hargs1 : ps_args s1 = tok :: w :: rest.
    Hypothesis Hargs2 : ps_args s2 = w :: tok :: rest.

    (* order 1: after the flag / after the flag and the command word *)
    Let sA := ps_with_args s1 tok (w :: rest).
    Let sA' := fill_parse_state cfg root (ps_with_args sA w rest) (ps_cmd s1 ++ [i]).
    (* order 2: after the command word / after the command word and the flag *)
    Let sB := fill_parse_state cfg root (ps_with_args s2 w (tok :: rest)) (ps_cmd s1 ++ [i]).
    Let sB' := ps_with_args sB tok rest.

    Lemma flag_then_command_nf :
      two s1 r =
      bind (fset oc r) (fun re =>
        Ok (match snd re with
            | None => Continue sA' (set_active (fst re) (ps_cmd s1) i)
            | Some er => Break (ps_with_err sA (Some er)) (fst re)
            end)).
    Proof.
      unfold two_steps. rewrite (Htok s1 r (w :: rest) oc Hargs1 Hsel Hcan). fold sA.
      destruct (fset oc r) as [[r1 [e|]]| |]; unfold outcome; cbn [bind fst snd]; try reflexivity.
      exact (command_step_nf sA r1 w rest i cur eq_refl Hpos Hret Hat Hsubs Hw Hwopt Hdd).
    Qed.

    Lemma command_then_flag_nf :
      two s2 r =
      bind (fset oc r) (fun re =>
        Ok (match snd re with
            | None => Continue sB' (set_active (fst re) (ps_cmd s1) i)
            | Some er => Break (ps_with_err sB' (Some er)) (set_active (fst re) (ps_cmd s1) i)
            end)).
    Proof.
      destruct Hsim as (Hr & Hp & He & Hc & Hl).
      unfold two_steps.
      rewrite (command_step_nf s2 r w (tok :: rest) i cur Hargs2);
        try assumption; try congruence.
      cbn [bind]. rewrite <- Hc. fold sB.
      rewrite (Htok sB (set_active r (ps_cmd s1) i) rest oc eq_refl Hsel' Hcan). fold sB'.
      rewrite (flag_set_active oc r _ _ Hhelp).
      destruct (fset oc r) as [[r1 [e|]]| |]; reflexivity.
    Qed.

    Lemma finals_eqv : ps_eqv sA' sB'.
    Proof.
      destruct Hsim as (Hr & Hp & He & Hc & Hl).
      split; [reflexivity|]. repeat split; assumption.
    Qed.

    Lemma commute_generic :
      scope_rel w i (two s1 r) (two s2 r) /\
      (forall r1, opt_set orc delim help_text oc None r = Ok (r1, None) ->
         res_eqv (two s1 r) (two s2 r) /\
         two s1 r = Ok (Continue sA' (set_active r1 (ps_cmd s1) i))) /\
      (forall r1 e, opt_set orc delim help_text oc None r = Ok (r1, Some e) ->
         two s1 r = Ok (Break (ps_with_err sA (Some (wrap_marshal cfg oc e))) r1) /\
         two s2 r = Ok (Break (ps_with_err sB' (Some (wrap_marshal cfg oc e)))
                              (set_active r1 (ps_cmd s1) i))).
    Proof.
      rewrite flag_then_command_nf, command_then_flag_nf. split; [|split].
      - destruct (fset oc r) as [[r1 [e|]]| |]; cbn [bind fst snd scope_rel]; try reflexivity.
        + destruct Hsim as (Hr & Hp & He & Hc & Hl).
          split; [|split; reflexivity].
          repeat split. cbn. symmetry; exact Hr.
        + split; [exact finals_eqv|reflexivity].
      - intros r1 H1. unfold flag_set. rewrite H1. cbn [bind fst snd option_map res_eqv].
        split; [|reflexivity]. split; [exact finals_eqv|reflexivity].
      - intros r1 e H1. unfold flag_set. rewrite H1. cbn [bind fst snd option_map].
        split; reflexivity.
    Qed.
  End Token.

  (* ---- target 3, long spelling: --n w  versus  w --n *)
  Theorem C08_commute_flag_and_command :
    forall (s1 s2 : pst) (r : rt) (n w : str) (rest : list str) (oc : octx) (i : nat) (cur sub : command),
    ps_sim s1 s2 ->
    ps_pos s1 = [] -> ps_ret s1 = [] ->
    ps_lk s1 = make_lookup delim root (ps_cmd s1) ->
    cmd_at root (ps_cmd s1) = Some cur ->
    nth_error (cmd_subs cur) i = Some sub ->
    find_last (lk_cmds (ps_lk s1)) w = Some i ->
    argument_is_option w = false ->
    ~ (po_passdd (pc_opts cfg) = true /\ w = s2l "--") ->
    n <> [] -> hd 0 n <> 45 -> ~ In 61 n ->
    find_last (lk_long (ps_lk s1)) n = Some oc ->
    find_last (snd (fill_opts delim sub)) n = None ->
    can_argument (oc_opt oc) = false ->
    o_is_help (oc_opt oc) = false ->
    ps_args s1 = (s2l "--" ++ n) :: w :: rest ->
    ps_args s2 = w :: (s2l "--" ++ n) :: rest ->
    let tok := s2l "--" ++ n in
    let path' := ps_cmd s1 ++ [i] in
    scope_rel w i (two s1 r) (two s2 r) /\
    (forall r1, opt_set orc delim help_text oc None r = Ok (r1, None) ->
       res_eqv (two s1 r) (two s2 r) /\
       two s1 r = Ok (Continue (fill_parse_state cfg root (ps_with_args s1 w rest) path')
                               (set_active r1 (ps_cmd s1) i))) /\
    (forall r1 e, opt_set orc delim help_text oc None r = Ok (r1, Some e) ->
       two s1 r = Ok (Break (ps_with_err (ps_with_args s1 tok (w :: rest)) (Some (wrap_marshal cfg oc e))) r1) /\
       two s2 r = Ok (Break (ps_with_err (fill_parse_state cfg root (ps_with_args s2 tok rest) path')
                                         (Some (wrap_marshal cfg oc e)))
                            (set_active r1 (ps_cmd s1) i))).
  Proof.
    intros s1 s2 r n w rest oc i cur sub Hsim Hpos Hret Hlk Hat Hn Hw Hwopt Hdd Hne Hhd H61 Hf Hc Hcan Hhelp H1 H2.
    cbv zeta.
    refine (commute_generic (s2l "--" ++ n) (fun lk => find_last (lk_long lk) n) _
              s1 s2 r w rest oc i cur Hsim Hpos Hret Hat (nth_error_subs_ne _ _ _ Hn) Hw Hwopt Hdd Hf _
              Hcan Hhelp H1 H2).
    - intros s r0 rest0 oc0 Ha Hs Hc0. apply long_flag_nf; assumption.
    - rewrite Hlk in Hf.
      exact (proj1 (C08_ancestor_option_in_child_lookup delim root (ps_cmd s1) i cur sub n oc Hat Hn) Hf Hc).
  Qed.

  (* ---- target 3, short spelling with an ASCII flag letter: -c w  versus  w -c *)
  Theorem C08_commute_short_flag_and_command :
    forall (s1 s2 : pst) (r : rt) (c : N) (w : str) (rest : list str) (oc : octx) (i : nat) (cur sub : command),
    ps_sim s1 s2 ->
    ps_pos s1 = [] -> ps_ret s1 = [] ->
    ps_lk s1 = make_lookup delim root (ps_cmd s1) ->
    cmd_at root (ps_cmd s1) = Some cur ->
    nth_error (cmd_subs cur) i = Some sub ->
    find_last (lk_cmds (ps_lk s1)) w = Some i ->
    argument_is_option w = false ->
    ~ (po_passdd (pc_opts cfg) = true /\ w = s2l "--") ->
    c < 128 -> c <> 45 ->
    find_last (lk_short (ps_lk s1)) [c] = Some oc ->
    find_last (fst (fill_opts delim sub)) [c] = None ->
    can_argument (oc_opt oc) = false ->
    o_is_help (oc_opt oc) = false ->
    ps_args s1 = [45; c] :: w :: rest ->
    ps_args s2 = w :: [45; c] :: rest ->
    let tok := [45; c] in
    let path' := ps_cmd s1 ++ [i] in
    scope_rel w i (two s1 r) (two s2 r) /\
    (forall r1, opt_set orc delim help_text oc None r = Ok (r1, None) ->
       res_eqv (two s1 r) (two s2 r) /\
       two s1 r = Ok (Continue (fill_parse_state cfg root (ps_with_args s1 w rest) path')
                               (set_active r1 (ps_cmd s1) i))) /\
    (forall r1 e, opt_set orc delim help_text oc None r = Ok (r1, Some e) ->
       two s1 r = Ok (Break (ps_with_err (ps_with_args s1 tok (w :: rest)) (Some (wrap_marshal cfg oc e))) r1) /\
       two s2 r = Ok (Break (ps_with_err (fill_parse_state cfg root (ps_with_args s2 tok rest) path')
                                         (Some (wrap_marshal cfg oc e)))
                            (set_active r1 (ps_cmd s1) i))).
  Proof.
    intros s1 s2 r c w rest oc i cur sub Hsim Hpos Hret Hlk Hat Hn Hw Hwopt Hdd Hc128 Hc45 Hf Hc Hcan Hhelp H1 H2.
    cbv zeta.
    refine (commute_generic [45; c] (fun lk => find_last (lk_short lk) [c]) _
              s1 s2 r w rest oc i cur Hsim Hpos Hret Hat (nth_error_subs_ne _ _ _ Hn) Hw Hwopt Hdd Hf _
              Hcan Hhelp H1 H2).
    - intros s r0 rest0 oc0 Ha Hs Hc0. apply single_flag_nf; assumption.
    - rewrite Hlk in Hf.
      exact (proj2 (C08_ancestor_option_in_child_lookup delim root (ps_cmd s1) i cur sub [c] oc Hat Hn) Hf Hc).
  Qed.

  (* ====================================================================== *)
  (* 4. after the loop: a command is required but none / an unknown one given  *)
  (* ====================================================================== *)
  Lemma estimate_command_shape s :
    match ps_ret s with
    | [] => exists m, estimate_command root s = EFlags ErrCommandRequired m
    | w :: _ => exists m, estimate_command root s = EFlags ErrUnknownCommand m
    end.
  Proof.
    unfold estimate_command. destruct (ps_ret s) as [|w ret]; [eexists; reflexivity|].
    cbv zeta. destruct (closest_choice w _) as [c l]. eexists; reflexivity.
  Qed.

  Theorem C08_required_command_errors : forall (s : pst) (r : rt),
    ps_err s = None ->
    let c := cur_cmd root s in
    let out := parse_finish cfg root s r in
    (cmd_subs c <> [] -> c_sub_optional (cmd_info c) = false ->
       let e := estimate_command root s in
       (* the returned error and the returned arguments *)
       pr_err (snd out) = Some e /\
       pr_ret (snd out) = Some (ps_arg s :: ps_args s) /\
       match ps_ret s with
       | [] => exists m, e = EFlags ErrCommandRequired m
       | w :: _ => exists m, e = EFlags ErrUnknownCommand m
       end /\
       (* nothing is executed; the only effect is the optional printing of the error on
          stderr *)
       fst out = print_error cfg r e /\
       rt_vals (fst out) = rt_vals r /\ rt_fl (fst out) = rt_fl r /\ rt_active (fst out) = rt_active r /\
       l_exec (rt_logs (fst out)) = l_exec (rt_logs r) /\
       l_calls (rt_logs (fst out)) = l_calls (rt_logs r) /\
       l_unknown (rt_logs (fst out)) = l_unknown (rt_logs r) /\
       l_out (rt_logs (fst out)) =
         l_out (rt_logs r) ++ (if po_print (pc_opts cfg) then [(false, err_text e ++ [10])] else [])) /\
    (cmd_subs c = [] \/ c_sub_optional (cmd_info c) = true ->
       (* no go-flags error: only the command's own Execute may fail *)
       pr_err (snd out) = match c_exec (cmd_info c) with ExErr m => Some (EForeign m) | _ => None end /\
       (forall t m, pr_err (snd out) <> Some (EFlags t m))).
  Proof.
    intros s r Herr. cbv zeta. split.
    - intros Hsubs Hopt.
      unfold parse_finish. rewrite Herr. cbv zeta.
      rewrite (proj2 (nonempty_map0 _) Hsubs), Hopt. cbn [negb andb].
      pose proof (estimate_command_shape s) as Sh.
      assert (T : exists t m, estimate_command root s = EFlags t m /\ t <> ErrHelp).
      { destruct (ps_ret s); destruct Sh as [m Hm]; rewrite Hm; eexists; eexists; (split; [reflexivity|discriminate]). }
      destruct T as (t & m & Hm & Ht).
      split; [|split; [|split; [exact Sh|]]].
      + rewrite Hm. destruct t; try congruence; reflexivity.
      + rewrite Hm. destruct t; try congruence; reflexivity.
      + assert (F : fst (let '(r0, reterr) := (r, Some (estimate_command root s)) in
                         match reterr with
                         | Some e => (print_error cfg r0 e,
                                      {| pr_ret := Some match e with EFlags ErrHelp _ => ps_args s | _ => ps_arg s :: ps_args s end;
                                         pr_err := Some e |})
                         | None => (r0, {| pr_ret := Some (ps_ret s); pr_err := None |})
                         end) = print_error cfg r (estimate_command root s)) by reflexivity.
        rewrite F. split; [reflexivity|].
        unfold print_error. rewrite Hm.
        destruct (po_print (pc_opts cfg)).
        * destruct t; try congruence; cbn; rewrite ?app_nil_r; repeat split; reflexivity.
        * rewrite app_nil_r. repeat split; reflexivity.
    - intros Hc. unfold parse_finish. rewrite Herr. cbv zeta.
      assert (E : nonempty (map (fun _ => 0) (cmd_subs (cur_cmd root s))) &&
                  negb (c_sub_optional (cmd_info (cur_cmd root s))) = false).
      { destruct Hc as [Hc|Hc]; [rewrite Hc; reflexivity|rewrite Hc; apply andb_false_r]. }
      rewrite E.
      destruct (c_exec (cmd_info (cur_cmd root s))); [destruct (pc_cmdhandler cfg)| |];
        (split; [reflexivity|intros t m0 H; discriminate H]).
  Qed.
End Scope.

(* ====================================================================== *)
(* A concrete parser: the hypotheses are satisfiable, and the counterexamples *)
(* that shaped the statements                                                *)
(* ====================================================================== *)
Module ScopeDemo.
  Import SpellSpec.Demo.

  (* app [-v|--verbose] [-q|--quiet] [--fail] [-h|--help] <add|rm>;
     add [-f|--force] [-q|--quiet]   (redeclares quiet);   rm *)
  Definition o_verbose := demo_opt 0 118 (s2l "verbose") (TScalar KBool) false.
  Definition o_quiet := demo_opt 1 113 (s2l "quiet") (TScalar KBool) false.
  Definition o_fail := demo_opt 2 0 (s2l "fail") (TFunc None true) false.
  Definition o_hlp := demo_opt 3 104 (s2l "help") (TFunc None false) true.
  Definition o_force := demo_opt 4 102 (s2l "force") (TScalar KBool) false.
  Definition o_quiet_add := demo_opt 5 113 (s2l "quiet") (TScalar KBool) false.
  Definition c_add : command :=
    Command (demo_cinfo (s2l "add") false) (Group demo_ginfo [o_force; o_quiet_add] []) [] [].
  Definition c_rm : command := demo_sub (s2l "rm") false.
  Definition app : command :=
    Command (demo_cinfo (s2l "app") false) (Group demo_ginfo [o_verbose; o_quiet; o_fail; o_hlp] []) []
            [c_add; c_rm].
  Definition app_rt : rt :=
    {| rt_vals := fun k => match k with
                           | 2%nat => VFunc false true       (* --fail: the callback returns an error *)
                           | 3%nat => VFunc false false
                           | _ => VBool false
                           end;
       rt_fl := fun _ => oflags0; rt_active := []; rt_logs := logs0 |}.
  Definition app_pst (args : list str) : pst := initial_pst demo_cfg app args.
  Definition app_two := two_steps demo_cfg demo_orc app demo_help.
  (* a help text that mentions the active command, as WriteHelp does *)
  Definition active_help (r : rt) : str :=
    match rt_active r with [] => s2l "usage: app" | _ => s2l "usage: app add" end.
  Definition app_two_h := two_steps demo_cfg demo_orc app active_help.
  (* observable part of an outcome: continue?, pending arguments, recorded error, current
     command, the values of verbose, quiet, add.force, add.quiet, and Active *)
  Definition obs2 (x : res step_res)
    : option (bool * list str * option err * list nat * list value * list (list nat * nat)) :=
    match x with
    | Ok (Continue s r) => Some (true, ps_args s, ps_err s, ps_cmd s, map (rt_vals r) [0; 1; 4; 5]%nat, rt_active r)
    | Ok (Break s r) => Some (false, ps_args s, ps_err s, ps_cmd s, map (rt_vals r) [0; 1; 4; 5]%nat, rt_active r)
    | _ => None
    end.

  (* target 1: --verbose / -v of app stay visible inside add; --quiet / -q are shadowed *)
  Example C08_lookup_example :
    cmd_at app [] = Some app /\ nth_error (cmd_subs app) 0 = Some c_add /\
    find_last (lk_long (make_lookup (s2l ".") app [])) (s2l "verbose") = Some (demo_oc o_verbose) /\
    find_last (snd (fill_opts (s2l ".") c_add)) (s2l "verbose") = None /\
    find_last (lk_long (make_lookup (s2l ".") app ([] ++ [0%nat]))) (s2l "verbose") = Some (demo_oc o_verbose) /\
    find_last (lk_short (make_lookup (s2l ".") app [])) (s2l "v") = Some (demo_oc o_verbose) /\
    find_last (fst (fill_opts (s2l ".") c_add)) (s2l "v") = None /\
    find_last (lk_long (make_lookup (s2l ".") app [])) (s2l "quiet") = Some (demo_oc o_quiet) /\
    find_last (snd (fill_opts (s2l ".") c_add)) (s2l "quiet") = Some (demo_oc o_quiet_add) /\
    find_last (lk_long (make_lookup (s2l ".") app ([] ++ [0%nat]))) (s2l "quiet") = Some (demo_oc o_quiet_add) /\
    find_last (fst (fill_opts (s2l ".") c_add)) (s2l "q") = Some (demo_oc o_quiet_add).
  Proof. split_all; vm_compute; reflexivity. Qed.

  (* target 2: the hypotheses of C08_set_active_commutes *)
  Example C08_set_active_example :
    o_is_help (oc_opt (demo_oc o_verbose)) = false /\
    exists r1, opt_set demo_orc (s2l ".") demo_help (demo_oc o_verbose) None app_rt = Ok (r1, None) /\
               rt_vals r1 0%nat = VBool true.
  Proof. split; [reflexivity|]. eexists. split; vm_compute; reflexivity. Qed.

  (* target 3: --verbose add x  versus  add --verbose x *)
  Example C08_commute_example :
    let s1 := app_pst [s2l "--verbose"; s2l "add"; s2l "x"] in
    let s2 := app_pst [s2l "add"; s2l "--verbose"; s2l "x"] in
    let n := s2l "verbose" in
    let w := s2l "add" in
    let oc := demo_oc o_verbose in
    ps_sim s1 s2 /\ ps_pos s1 = [] /\ ps_ret s1 = [] /\
    ps_lk s1 = make_lookup (pc_nsdelim demo_cfg) app (ps_cmd s1) /\
    cmd_at app (ps_cmd s1) = Some app /\ nth_error (cmd_subs app) 0 = Some c_add /\
    find_last (lk_cmds (ps_lk s1)) w = Some 0%nat /\
    argument_is_option w = false /\
    ~ (po_passdd (pc_opts demo_cfg) = true /\ w = s2l "--") /\
    n <> [] /\ hd 0 n <> 45 /\ ~ In 61 n /\
    find_last (lk_long (ps_lk s1)) n = Some oc /\
    find_last (snd (fill_opts (pc_nsdelim demo_cfg) c_add)) n = None /\
    can_argument (oc_opt oc) = false /\ o_is_help (oc_opt oc) = false /\
    ps_args s1 = (s2l "--" ++ n) :: w :: [s2l "x"] /\
    ps_args s2 = w :: (s2l "--" ++ n) :: [s2l "x"] /\
    (exists r1, opt_set demo_orc (pc_nsdelim demo_cfg) demo_help oc None app_rt = Ok (r1, None)) /\
    obs2 (app_two s1 app_rt) =
      Some (true, [s2l "x"], None, [0%nat], [VBool true; VBool false; VBool false; VBool false], [([], 0%nat)]) /\
    obs2 (app_two s2 app_rt) = obs2 (app_two s1 app_rt).
  Proof.
    cbv zeta. split_all; try solve_hyp.
    eexists. vm_compute. reflexivity.
  Qed.

  (* ... and the short spelling: -v add x  versus  add -v x *)
  Example C08_commute_short_example :
    let s1 := app_pst [s2l "-v"; s2l "add"; s2l "x"] in
    let s2 := app_pst [s2l "add"; s2l "-v"; s2l "x"] in
    let c := 118 in
    let oc := demo_oc o_verbose in
    ps_sim s1 s2 /\ c < 128 /\ c <> 45 /\
    find_last (lk_short (ps_lk s1)) [c] = Some oc /\
    find_last (fst (fill_opts (pc_nsdelim demo_cfg) c_add)) [c] = None /\
    ps_args s1 = [45; c] :: s2l "add" :: [s2l "x"] /\
    ps_args s2 = s2l "add" :: [45; c] :: [s2l "x"] /\
    obs2 (app_two s1 app_rt) =
      Some (true, [s2l "x"], None, [0%nat], [VBool true; VBool false; VBool false; VBool false], [([], 0%nat)]) /\
    obs2 (app_two s2 app_rt) = obs2 (app_two s1 app_rt).
  Proof. cbv zeta. split_all; solve_hyp. Qed.

  (* COUNTEREXAMPLE 1 (why the child must not redeclare the name): --quiet add sets
     app's quiet, add --quiet sets add's own quiet *)
  Example C08_shadowed_flag_differs :
    let s1 := app_pst [s2l "--quiet"; s2l "add"; s2l "x"] in
    let s2 := app_pst [s2l "add"; s2l "--quiet"; s2l "x"] in
    obs2 (app_two s1 app_rt) =
      Some (true, [s2l "x"], None, [0%nat], [VBool false; VBool true; VBool false; VBool false], [([], 0%nat)]) /\
    obs2 (app_two s2 app_rt) =
      Some (true, [s2l "x"], None, [0%nat], [VBool false; VBool false; VBool false; VBool true], [([], 0%nat)]).
  Proof. cbv zeta. split; vm_compute; reflexivity. Qed.

  (* COUNTEREXAMPLE 2 (why full equivalence needs a successful Set): --fail add stops
     before the command word, add --fail after it; the results are related by scope_rel
     only *)
  Example C08_failing_flag_differs :
    let s1 := app_pst [s2l "--fail"; s2l "add"; s2l "x"] in
    let s2 := app_pst [s2l "add"; s2l "--fail"; s2l "x"] in
    let e := EFlags ErrMarshal (s2l "invalid argument for flag `--fail': callback failed") in
    obs2 (app_two s1 app_rt) =
      Some (false, [s2l "add"; s2l "x"], Some e, [], [VBool false; VBool false; VBool false; VBool false], []) /\
    obs2 (app_two s2 app_rt) =
      Some (false, [s2l "x"], Some e, [0%nat], [VBool false; VBool false; VBool false; VBool false], [([], 0%nat)]) /\
    ~ res_eqv (app_two s1 app_rt) (app_two s2 app_rt).
  Proof. cbv zeta. split_all; solve_hyp. Qed.

  (* COUNTEREXAMPLE 3 (why the help option is excluded): its "error" carries the help
     text, which depends on the active command: -h add and add -h report different
     texts, so not even the recorded errors agree *)
  Example C08_help_flag_differs :
    let s1 := app_pst [s2l "-h"; s2l "add"; s2l "x"] in
    let s2 := app_pst [s2l "add"; s2l "-h"; s2l "x"] in
    obs2 (app_two_h s1 app_rt) =
      Some (false, [s2l "add"; s2l "x"], Some (EFlags ErrHelp (s2l "usage: app")), [],
            [VBool false; VBool false; VBool false; VBool false], []) /\
    obs2 (app_two_h s2 app_rt) =
      Some (false, [s2l "x"], Some (EFlags ErrHelp (s2l "usage: app add")), [0%nat],
            [VBool false; VBool false; VBool false; VBool false], [([], 0%nat)]) /\
    opt_set demo_orc (s2l ".") active_help (demo_oc o_hlp) None (set_active app_rt [] 0) <>
    lift_active [] 0 (opt_set demo_orc (s2l ".") active_help (demo_oc o_hlp) None app_rt).
  Proof. cbv zeta. split_all; solve_hyp. Qed.

  (* target 4: `app` alone, and `app ad` (the loop leaves the unknown word in ps_ret) *)
  Example C08_required_example :
    let s0 := app_pst [] in
    let s1 := ps_with_retpos (app_pst []) [s2l "ad"] [] in
    ps_err s0 = None /\ cmd_subs (cur_cmd app s0) <> [] /\
    c_sub_optional (cmd_info (cur_cmd app s0)) = false /\
    pr_err (snd (parse_finish demo_cfg app s0 app_rt)) =
      Some (EFlags ErrCommandRequired (s2l "Please specify one command of: add or rm")) /\
    pr_err (snd (parse_finish demo_cfg app s1 app_rt)) =
      Some (EFlags ErrUnknownCommand (s2l "Unknown command `ad', did you mean `add'?")) /\
    l_exec (rt_logs (fst (parse_finish demo_cfg app s1 app_rt))) = [].
  Proof. cbv zeta. split_all; solve_hyp. Qed.
End ScopeDemo.

Print Assumptions C08_ancestor_option_in_child_lookup.
Print Assumptions C08_child_shadows.
Print Assumptions C08_set_active_commutes.
Print Assumptions C08_set_active_commutes_fail.
Print Assumptions C08_commute_flag_and_command.
Print Assumptions C08_commute_short_flag_and_command.
Print Assumptions C08_required_command_errors.
