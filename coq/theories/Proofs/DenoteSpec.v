(* C01 ("option fields hold exactly what the command line denotes"), END-TO-END:
   the effect of the whole argument loop (Parse.run_loop) on the runtime state is
   exactly the left-to-right fold of Option.Set (State.opt_set) over the option
   occurrences spelled by the tokens; and the consequences of that fold for the
   field of one option (scalar: last occurrence; slice: all occurrences in order;
   map: fold of map_set; flag: true iff it occurred; callback: one logged call per
   occurrence; bookkeeping flags). *)
From GoFlags Require Import Base.Str Base.Utf8 Golib.Strings Golib.Strconv
     Model.Types Model.Tag Model.Scan Model.Lookup Model.Convert Model.State Model.Help Model.Parse
     Proofs.LookupSpec Proofs.FrameBase Proofs.ValueSpec Proofs.SpellSpec Proofs.ContextSpec.
From Coq Require Import Lia ZifyN ZifyNat ZifyBool.
Open Scope N_scope.

(* ================================================================== *)
(* 1. Definitions                                                      *)
(* ================================================================== *)

(* an occurrence: the option and its (already unquoted) argument; None for a flag *)
Definition occ : Type := (octx * option str)%type.

Section Denote.
  Variable orc : oracles.
  Variable delim : str.
  Variable ht : rt -> str.

  (* Option.Set applied to every occurrence in order, stopping at the first error *)
  Fixpoint denote (occs : list occ) (r : rt) : res (rt * option err) :=
    match occs with
    | [] => Ok (r, None)
    | (oc, a) :: rest =>
      bind (opt_set orc delim ht oc a r) (fun re =>
        match snd re with
        | Some e => Ok (fst re, Some e)
        | None => denote rest (fst re)
        end)
    end.

  Lemma denote_nil r : denote [] r = Ok (r, None).
  Proof. reflexivity. Qed.

  Lemma denote_cons oc a rest r :
    denote ((oc, a) :: rest) r =
    bind (opt_set orc delim ht oc a r) (fun re =>
      match snd re with
      | Some e => Ok (fst re, Some e)
      | None => denote rest (fst re)
      end).
  Proof. reflexivity. Qed.

  (* a successful fold splits at every point *)
  Lemma denote_app_ok : forall pre post r r',
    denote (pre ++ post) r = Ok (r', None) <->
    exists rm, denote pre r = Ok (rm, None) /\ denote post rm = Ok (r', None).
  Proof.
    induction pre as [|[oc a] pre IH]; intros post r r'.
    - cbn [app]. split.
      + intros H. exists r. split; [reflexivity|exact H].
      + intros (rm & H1 & H2). rewrite denote_nil in H1. injection H1 as <-. exact H2.
    - change (((oc, a) :: pre) ++ post) with ((oc, a) :: (pre ++ post)).
      rewrite !denote_cons.
      destruct (opt_set orc delim ht oc a r) as [[r1 [e|]]|e|w]; cbn [bind fst snd].
      + split; [discriminate|intros (rm & H1 & _); discriminate].
      + apply IH.
      + split; [discriminate|intros (rm & H1 & _); discriminate].
      + split; [discriminate|intros (rm & H1 & _); discriminate].
  Qed.

  (* a fold that fails: the failing occurrence, the state before it *)
  Lemma denote_err_split : forall occs r r' e,
    denote occs r = Ok (r', Some e) ->
    exists pre oc a post r1,
      occs = pre ++ (oc, a) :: post /\ denote pre r = Ok (r1, None) /\
      opt_set orc delim ht oc a r1 = Ok (r', Some e).
  Proof.
    induction occs as [|[oc a] occs IH]; intros r r' e H.
    - rewrite denote_nil in H. discriminate H.
    - rewrite denote_cons in H.
      destruct (opt_set orc delim ht oc a r) as [[r1 [e1|]]|e1|w] eqn:E; cbn [bind fst snd] in H;
        try discriminate H.
      + injection H as <- <-. exists [], oc, a, occs, r. repeat split. exact E.
      + destruct (IH r1 r' e H) as (pre & oc' & a' & post & rm & -> & H1 & H2).
        exists ((oc, a) :: pre), oc', a', post, rm. split; [reflexivity|]. split; [|exact H2].
        rewrite denote_cons, E. cbn [bind fst snd]. exact H1.
  Qed.
End Denote.

(* ---- spellings ---- *)

(* [spell1 lk ts o]: the token(s) [ts] spell the occurrence [o] in the lookup [lk].
   Single tokens:  --n   --n=V   -c   -c=V   -cV ;
   additionally the two-token forms  --n V  and  -c V  (option that requires its
   argument, V acceptable as a separate value). *)
Inductive spell1 (lk : lookup) : list str -> occ -> Prop :=
| sp_long_flag : forall n oc,
    argument_is_option (s2l "--" ++ n) = true -> ~ In 61 n ->
    find_last (lk_long lk) n = Some oc -> can_argument (oc_opt oc) = false ->
    spell1 lk [s2l "--" ++ n] (oc, None)
| sp_long_eq : forall n V oc v',
    argument_is_option (s2l "--" ++ n ++ [61] ++ V) = true -> ~ In 61 n ->
    find_last (lk_long lk) n = Some oc -> can_argument (oc_opt oc) = true ->
    arg_text (oc_opt oc) V = Some v' ->
    spell1 lk [s2l "--" ++ n ++ [61] ++ V] (oc, Some v')
| sp_long_sep : forall n V oc v',
    argument_is_option (s2l "--" ++ n) = true -> ~ In 61 n ->
    find_last (lk_long lk) n = Some oc -> can_argument (oc_opt oc) = true ->
    o_optional (oc_opt oc) = false ->
    is_valid_value (oc_opt oc) V = true -> V <> s2l "--" ->
    arg_text (oc_opt oc) V = Some v' ->
    spell1 lk [s2l "--" ++ n; V] (oc, Some v')
| sp_short_flag : forall c oc,
    valid_rune c = true -> c <> 45 ->
    find_last (lk_short lk) (encode_rune c) = Some oc -> can_argument (oc_opt oc) = false ->
    spell1 lk [45 :: encode_rune c] (oc, None)
| sp_short_eq : forall c V oc v',
    valid_rune c = true -> c <> 45 -> c <> 61 ->
    find_last (lk_short lk) (encode_rune c) = Some oc -> can_argument (oc_opt oc) = true ->
    arg_text (oc_opt oc) V = Some v' ->
    spell1 lk [45 :: encode_rune c ++ 61 :: V] (oc, Some v')
| sp_short_concat : forall c V oc v',
    valid_rune c = true -> c <> 45 -> c <> 61 -> V <> [] -> hd 0 V <> 61 ->
    find_last (lk_short lk) (encode_rune c) = Some oc -> can_argument (oc_opt oc) = true ->
    arg_text (oc_opt oc) V = Some v' ->
    spell1 lk [45 :: encode_rune c ++ V] (oc, Some v')
| sp_short_sep : forall c V oc v',
    valid_rune c = true -> c <> 45 ->
    find_last (lk_short lk) (encode_rune c) = Some oc -> can_argument (oc_opt oc) = true ->
    o_optional (oc_opt oc) = false ->
    is_valid_value (oc_opt oc) V = true -> V <> s2l "--" ->
    arg_text (oc_opt oc) V = Some v' ->
    spell1 lk [45 :: encode_rune c; V] (oc, Some v').

(* a token list spells an occurrence list *)
Inductive spells (lk : lookup) : list str -> list occ -> Prop :=
| spells_nil : spells lk [] []
| spells_cons : forall ts o toks occs,
    spell1 lk ts o -> spells lk toks occs -> spells lk (ts ++ toks) (o :: occs).

Lemma spell1_nonempty lk ts o : spell1 lk ts o -> exists t ts', ts = t :: ts'.
Proof. intros H; destruct H; eexists; eexists; reflexivity. Qed.

(* a flag spelling iff the option cannot take an argument *)
Lemma spell1_arg_shape lk ts oc a : spell1 lk ts (oc, a) ->
  (can_argument (oc_opt oc) = false /\ a = None) \/
  (can_argument (oc_opt oc) = true /\ exists v, a = Some v).
Proof.
  intros H. inversion H; subst; first [left; split; [assumption|reflexivity]
                                     | right; split; [assumption|eexists; reflexivity]].
Qed.

Lemma spells_arg_shape lk toks occs : spells lk toks occs ->
  forall oc a, In (oc, a) occs ->
  (can_argument (oc_opt oc) = false /\ a = None) \/
  (can_argument (oc_opt oc) = true /\ exists v, a = Some v).
Proof.
  induction 1 as [|ts o toks occs H1 _ IH]; intros oc a Hin; [destruct Hin|].
  destruct Hin as [->|Hin]; [exact (spell1_arg_shape lk ts oc a H1)|exact (IH oc a Hin)].
Qed.

(* every spelled option comes from the lookup tables *)
Lemma spell1_in_lookup lk ts oc a : spell1 lk ts (oc, a) ->
  (exists n, find_last (lk_long lk) n = Some oc) \/ (exists n, find_last (lk_short lk) n = Some oc).
Proof.
  intros H. inversion H; subst; first [left; eexists; eassumption | right; eexists; eassumption].
Qed.

(* ================================================================== *)
(* 2. The loop is the fold                                             *)
(* ================================================================== *)

Lemma last_app_nonempty : forall {A} (l1 l2 : list A) (d d' : A),
  l1 <> [] -> last (l1 ++ l2) d = last l2 (last l1 d').
Proof.
  induction l1 as [|x l1 IH]; intros l2 d d' H; [congruence|].
  destruct l1 as [|y l1].
  - cbn [app]. destruct l2 as [|z l2]; [reflexivity|]. apply last_cons_default.
  - change (((x :: y :: l1) ++ l2)) with (x :: ((y :: l1) ++ l2)).
    change (last (x :: (y :: l1) ++ l2) d) with (last ((y :: l1) ++ l2) d).
    change (last (x :: y :: l1) d') with (last (y :: l1) d').
    apply IH. discriminate.
Qed.

Section Loop.
  Variable cfg : pconfig.
  Variable orc : oracles.
  Variable root : command.
  Variable ht : rt -> str.

  Let delim := pc_nsdelim cfg.

  Local Notation pstep := (step cfg orc root ht).
  Local Notation ploop := (run_loop cfg orc root ht).
  Local Notation oset := (opt_set orc (pc_nsdelim cfg) ht).
  Local Notation fold := (denote orc (pc_nsdelim cfg) ht).

  (* what one loop iteration does once Option.Set returned: continue in state [s1],
     or record the error wrapped as parseOption does and break *)
  Definition after_set (oc : octx) (s1 : pst) (x : res (rt * option err)) : res step_res :=
    bind x (fun rr => Ok (match snd rr with
                          | None => Continue s1 (fst rr)
                          | Some e => Break (ps_with_err s1 (Some (wrap_marshal cfg oc e))) (fst rr)
                          end)).

  Lemma outcome_flag_set oc s1 r :
    outcome s1 (flag_set cfg orc ht oc r) = after_set oc s1 (oset oc None r).
  Proof.
    unfold outcome, flag_set, after_set.
    destruct (oset oc None r) as [[r1 [e|]]|e|w]; reflexivity.
  Qed.

  Lemma outcome_set_with oc s1 r V v' : arg_text (oc_opt oc) V = Some v' ->
    outcome s1 (set_with cfg orc ht oc V r) = after_set oc s1 (oset oc (Some v') r).
  Proof.
    intros H. unfold outcome, set_with, after_set. unfold arg_text in H. rewrite H.
    destruct (oset oc (Some v') r) as [[r1 [e|]]|e|w]; reflexivity.
  Qed.

  (* ---- normal forms of one iteration for every spelling ---- *)
  Lemma nf_long_flag s r n rest oc :
    ps_args s = (s2l "--" ++ n) :: rest ->
    argument_is_option (s2l "--" ++ n) = true -> ~ In 61 n ->
    find_last (lk_long (ps_lk s)) n = Some oc -> can_argument (oc_opt oc) = false ->
    pstep s r = after_set oc (ps_with_args s (s2l "--" ++ n) rest) (oset oc None r).
  Proof.
    intros Hargs Hopt H61 Hfind Hcan.
    rewrite (step_on_option cfg orc root ht s r _ rest true n None Hargs Hopt (split_long_plain n H61)).
    unfold parse_long. cbn [ps_lk ps_with_args]. rewrite Hfind.
    rewrite parse_option_flag by exact Hcan.
    rewrite tail_lift by apply flag_set_cls.
    apply outcome_flag_set.
  Qed.

  Lemma nf_long_eq s r n V rest oc v' :
    ps_args s = (s2l "--" ++ n ++ [61] ++ V) :: rest ->
    argument_is_option (s2l "--" ++ n ++ [61] ++ V) = true -> ~ In 61 n ->
    find_last (lk_long (ps_lk s)) n = Some oc -> can_argument (oc_opt oc) = true ->
    arg_text (oc_opt oc) V = Some v' ->
    pstep s r = after_set oc (ps_with_args s (s2l "--" ++ n ++ [61] ++ V) rest) (oset oc (Some v') r).
  Proof.
    intros Hargs Hopt H61 Hfind Hcan Htxt.
    rewrite (step_on_option cfg orc root ht s r _ rest true n (Some V) Hargs Hopt (split_long_eq n V H61)).
    unfold parse_long. cbn [ps_lk ps_with_args]. rewrite Hfind.
    rewrite parse_option_inline by exact Hcan.
    rewrite tail_lift by apply set_with_cls.
    apply outcome_set_with. exact Htxt.
  Qed.

  Lemma nf_long_sep s r n V rest oc v' :
    ps_args s = (s2l "--" ++ n) :: V :: rest ->
    argument_is_option (s2l "--" ++ n) = true -> ~ In 61 n ->
    find_last (lk_long (ps_lk s)) n = Some oc -> can_argument (oc_opt oc) = true ->
    o_optional (oc_opt oc) = false ->
    is_valid_value (oc_opt oc) V = true -> V <> s2l "--" ->
    arg_text (oc_opt oc) V = Some v' ->
    pstep s r = after_set oc (ps_with_args (ps_with_args s (s2l "--" ++ n) (V :: rest)) V rest)
                          (oset oc (Some v') r).
  Proof.
    intros Hargs Hopt H61 Hfind Hcan Hoptl Hval Hdd Htxt.
    rewrite (step_on_option cfg orc root ht s r _ (V :: rest) true n None Hargs Hopt (split_long_plain n H61)).
    unfold parse_long. cbn [ps_lk ps_with_args]. rewrite Hfind, Hoptl. cbn [negb].
    rewrite (parse_option_separate cfg orc ht oc V rest)
      by (try assumption; try reflexivity; apply dd_cond; intros [_ E]; exact (Hdd E)).
    rewrite tail_lift by apply set_with_cls.
    apply outcome_set_with. exact Htxt.
  Qed.

  Section Short.
    Variables (s : pst) (r : rt) (c : N) (rest : list str) (oc : octx).
    Hypothesis Hvalid : valid_rune c = true.
    Hypothesis Hc45 : c <> 45.
    Hypothesis Hfind : find_last (lk_short (ps_lk s)) (encode_rune c) = Some oc.

    Let x := encode_rune c.
    Let R : rune_enc c x := valid_rune_enc c Hvalid.

    Lemma nf_short_flag :
      ps_args s = (45 :: x) :: rest -> can_argument (oc_opt oc) = false ->
      pstep s r = after_set oc (ps_with_args s (45 :: x) rest) (oset oc None r).
    Proof.
      intros Hargs Hcan.
      destruct (rune_enc_hd c x R Hc45) as (b & t & Ex & Hb).
      assert (A : argument_is_option (45 :: x) = true) by (rewrite Ex; apply aio_short; exact Hb).
      assert (S : split_option (45 :: x) = (false, x, None)).
      { transitivity (short_split x); [|exact (short_split_single x c R)].
        rewrite Ex. apply split_option_short; exact Hb. }
      rewrite (step_on_option cfg orc root ht s r _ rest false x None Hargs A S).
      rewrite (parse_short_alone cfg orc ht c x _ r oc R) by exact Hfind.
      rewrite parse_option_flag by exact Hcan.
      rewrite tail_lift by apply flag_set_cls.
      apply outcome_flag_set.
    Qed.

    Lemma nf_short_eq V v' :
      ps_args s = (45 :: x ++ 61 :: V) :: rest -> c <> 61 -> can_argument (oc_opt oc) = true ->
      arg_text (oc_opt oc) V = Some v' ->
      pstep s r = after_set oc (ps_with_args s (45 :: x ++ 61 :: V) rest) (oset oc (Some v') r).
    Proof.
      intros Hargs Hc61 Hcan Htxt.
      destruct (rune_enc_hd c x R Hc45) as (b & t & Ex & Hb).
      assert (A : argument_is_option (45 :: x ++ 61 :: V) = true) by (rewrite Ex; apply aio_short; exact Hb).
      assert (S : split_option (45 :: x ++ 61 :: V) = (false, x, Some V)).
      { transitivity (short_split (x ++ 61 :: V)); [|exact (short_split_eq x c V R Hc61)].
        rewrite Ex. apply split_option_short; exact Hb. }
      rewrite (step_on_option cfg orc root ht s r _ rest false x (Some V) Hargs A S).
      rewrite (parse_short_given cfg orc ht c x V _ r oc R) by exact Hfind.
      rewrite parse_option_inline by exact Hcan.
      rewrite tail_lift by apply set_with_cls.
      apply outcome_set_with. exact Htxt.
    Qed.

    Lemma nf_short_concat V v' :
      ps_args s = (45 :: x ++ V) :: rest -> c <> 61 -> V <> [] -> hd 0 V <> 61 ->
      can_argument (oc_opt oc) = true -> arg_text (oc_opt oc) V = Some v' ->
      pstep s r = after_set oc (ps_with_args s (45 :: x ++ V) rest) (oset oc (Some v') r).
    Proof.
      intros Hargs Hc61 HVne HVhd Hcan Htxt.
      destruct (rune_enc_hd c x R Hc45) as (b & t & Ex & Hb).
      assert (A : argument_is_option (45 :: x ++ V) = true) by (rewrite Ex; apply aio_short; exact Hb).
      assert (S : split_option (45 :: x ++ V) = (false, x ++ V, None)).
      { transitivity (short_split (x ++ V)); [|exact (short_split_concat x c V R Hc61 HVne HVhd)].
        rewrite Ex. apply split_option_short; exact Hb. }
      rewrite (step_on_option cfg orc root ht s r _ rest false (x ++ V) None Hargs A S).
      rewrite (parse_short_concat cfg orc ht c x V _ r oc R HVne) by (try exact Hcan; exact Hfind).
      rewrite parse_option_inline by exact Hcan.
      rewrite tail_lift by apply set_with_cls.
      apply outcome_set_with. exact Htxt.
    Qed.

    Lemma nf_short_sep V v' :
      ps_args s = (45 :: x) :: V :: rest -> can_argument (oc_opt oc) = true ->
      o_optional (oc_opt oc) = false ->
      is_valid_value (oc_opt oc) V = true -> V <> s2l "--" ->
      arg_text (oc_opt oc) V = Some v' ->
      pstep s r = after_set oc (ps_with_args (ps_with_args s (45 :: x) (V :: rest)) V rest)
                            (oset oc (Some v') r).
    Proof.
      intros Hargs Hcan Hoptl Hval Hdd Htxt.
      destruct (rune_enc_hd c x R Hc45) as (b & t & Ex & Hb).
      assert (A : argument_is_option (45 :: x) = true) by (rewrite Ex; apply aio_short; exact Hb).
      assert (S : split_option (45 :: x) = (false, x, None)).
      { transitivity (short_split x); [|exact (short_split_single x c R)].
        rewrite Ex. apply split_option_short; exact Hb. }
      rewrite (step_on_option cfg orc root ht s r _ (V :: rest) false x None Hargs A S).
      rewrite (parse_short_alone cfg orc ht c x _ r oc R) by exact Hfind.
      rewrite Hoptl. cbn [negb].
      rewrite (parse_option_separate cfg orc ht oc V rest)
        by (try assumption; try reflexivity; apply dd_cond; intros [_ E]; exact (Hdd E)).
      rewrite tail_lift by apply set_with_cls.
      apply outcome_set_with. exact Htxt.
    Qed.
  End Short.

  (* [s1] is [s] after popping the tokens [ts]: only ps_arg / ps_args differ *)
  Definition popped (s : pst) (ts rest : list str) (s1 : pst) : Prop :=
    ps_args s1 = rest /\ ps_arg s1 = last ts (ps_arg s) /\
    ps_ret s1 = ps_ret s /\ ps_pos s1 = ps_pos s /\ ps_err s1 = ps_err s /\
    ps_cmd s1 = ps_cmd s /\ ps_lk s1 = ps_lk s.

  (* one iteration on any spelling: Option.Set on the spelled occurrence, then
     continue / break *)
  Lemma step_spell1 : forall lk ts oc a, spell1 lk ts (oc, a) ->
    forall s r rest, ps_lk s = lk -> ps_args s = ts ++ rest ->
    exists s1, popped s ts rest s1 /\ pstep s r = after_set oc s1 (oset oc a r).
  Proof.
    intros lk ts oc a H s r rest Hlk Hargs. subst lk.
    inversion H; subst.
    - eexists. split; [|eapply nf_long_flag; first [exact Hargs|eassumption]]. repeat split.
    - eexists. split; [|eapply nf_long_eq; first [exact Hargs|eassumption]]. repeat split.
    - eexists. split; [|eapply nf_long_sep; first [exact Hargs|eassumption]]. repeat split.
    - eexists. split; [|eapply nf_short_flag; first [exact Hargs|eassumption]]. repeat split.
    - eexists. split; [|eapply nf_short_eq; first [exact Hargs|eassumption]]. repeat split.
    - eexists. split; [|eapply nf_short_concat; first [exact Hargs|eassumption]]. repeat split.
    - eexists. split; [|eapply nf_short_sep; first [exact Hargs|eassumption]]. repeat split.
  Qed.

  (* the loop's result [l], related to the fold's result [d] *)
  Definition loop_rel (lk : lookup) (s : pst) (toks : list str) (occs : list occ) (r : rt)
             (d : res (rt * option err)) (l : res (pst * rt)) : Prop :=
    match d with
    | Ok (r', None) =>
      (* every occurrence was set: the loop ends normally with the same runtime state,
         all tokens consumed, nothing else in the parser state changed *)
      exists s', l = Ok (s', r') /\ popped s toks [] s'
    | Ok (r', Some e) =>
      (* Option.Set failed on the occurrence [(oc, a)] spelled by [ts]: the loop breaks with the
         same runtime state, the error wrapped by parseOption recorded, the tokens after
         [ts] still pending *)
      exists s' toks1 ts toks2 pre oc a post r1,
        l = Ok (s', r') /\
        toks = toks1 ++ ts ++ toks2 /\ occs = pre ++ (oc, a) :: post /\
        spells lk toks1 pre /\ spell1 lk ts (oc, a) /\ spells lk toks2 post /\
        fold pre r = Ok (r1, None) /\ oset oc a r1 = Ok (r', Some e) /\
        ps_err s' = Some (wrap_marshal cfg oc e) /\
        ps_args s' = toks2 /\ ps_arg s' = last ts (ps_arg s) /\
        ps_ret s' = ps_ret s /\ ps_pos s' = ps_pos s /\ ps_cmd s' = ps_cmd s /\ ps_lk s' = ps_lk s
    | Err e => l = Err e
    | Panic w => l = Panic w
    end.

  Theorem C01_loop_is_fold : forall (lk : lookup) (toks : list str) (occs : list occ),
    spells lk toks occs ->
    forall (fuel : nat) (s : pst) (r : rt),
    ps_lk s = lk -> ps_args s = toks -> (length toks < fuel)%nat ->
    loop_rel lk s toks occs r (fold occs r) (ploop fuel s r).
  Proof.
    induction 1 as [|ts [oc a] toks occs H1 Hs IH]; intros fuel s r Hlk Hargs Hf;
      (destruct fuel as [|f]; [cbn [length] in Hf; lia|]).
    - rewrite denote_nil. cbn [loop_rel].
      exists s. rewrite (run_loop_done cfg orc root ht f s r Hargs). split; [reflexivity|].
      repeat split. exact Hargs.
    - destruct (spell1_nonempty lk ts _ H1) as (t & ts' & Ets).
      assert (Hne : ts <> []) by (rewrite Ets; discriminate).
      destruct (step_spell1 lk ts oc a H1 s r toks Hlk Hargs) as (s1 & Hp & Hstep).
      destruct Hp as (Pargs & Parg & Pret & Ppos & Perr & Pcmd & Plk).
      assert (Hargs' : ps_args s = t :: (ts' ++ toks)) by (rewrite Hargs, Ets; reflexivity).
      rewrite (run_loop_cons cfg orc root ht f s r t (ts' ++ toks) Hargs'), Hstep.
      rewrite denote_cons. unfold after_set.
      destruct (oset oc a r) as [[r1 [e|]]|e|w] eqn:Eset; cbn [bind fst snd].
      + (* Option.Set reports an error: break *)
        cbn [loop_rel].
        exists (ps_with_err s1 (Some (wrap_marshal cfg oc e))), [], ts, toks, [], oc, a, occs, r.
        split; [reflexivity|]. split; [reflexivity|]. split; [reflexivity|].
        split; [constructor|]. split; [exact H1|]. split; [exact Hs|].
        split; [reflexivity|]. split; [exact Eset|].
        cbn [ps_with_err ps_err ps_args ps_arg ps_ret ps_pos ps_cmd ps_lk].
        repeat split; assumption.
      + (* success: continue with the remaining tokens *)
        assert (Hf' : (length toks < f)%nat).
        { rewrite app_length, Ets in Hf. cbn [length] in Hf. lia. }
        specialize (IH f s1 r1 (eq_trans Plk Hlk) Pargs Hf').
        destruct (fold occs r1) as [[r' [e|]]|e|w]; cbn [loop_rel] in IH |- *.
        * destruct IH as (s' & toks1 & ts2 & toks2 & pre & oc' & a' & post & rm & Hl & Et & Eo & Sp & S1 &
                          Spost & Hd & Hset & Herr & Ha & Hag & Hret & Hpos & Hcmd & Hlk').
          exists s', (ts ++ toks1), ts2, toks2, ((oc, a) :: pre), oc', a', post, rm.
          split; [exact Hl|]. split; [rewrite Et, <- app_assoc; reflexivity|].
          split; [rewrite Eo; reflexivity|].
          split; [constructor; assumption|]. split; [exact S1|]. split; [exact Spost|].
          split; [rewrite denote_cons, Eset; cbn [bind fst snd]; exact Hd|].
          split; [exact Hset|]. split; [exact Herr|]. split; [exact Ha|].
          split.
          { rewrite Hag, Parg. destruct (spell1_nonempty lk ts2 _ S1) as (t2 & ts2' & ->).
            rewrite !last_cons_default. reflexivity. }
          repeat split; congruence.
        * destruct IH as (s' & Hl & Qargs & Qarg & Qret & Qpos & Qerr & Qcmd & Qlk).
          exists s'. split; [exact Hl|].
          split; [exact Qargs|].
          split; [rewrite Qarg, Parg; symmetry; apply last_app_nonempty; exact Hne|].
          repeat split; congruence.
        * exact IH.
        * exact IH.
      + reflexivity.
      + reflexivity.
  Qed.

  (* the shape of the recorded error: errors of Option.Set are ErrInvalidChoice, the
     ErrHelp of the help option (both recorded unchanged) or a foreign conversion /
     callback error (recorded as ErrMarshal with the parseOption message) *)
  Lemma set_error_wrapped : forall oc a r r' e,
    oset oc a r = Ok (r', Some e) ->
    (exists m, e = EFlags ErrInvalidChoice m /\ wrap_marshal cfg oc e = e) \/
    (exists m, e = EFlags ErrHelp m /\ wrap_marshal cfg oc e = e) \/
    (exists m, e = EForeign m /\ wrap_marshal cfg oc e = marshal_error cfg oc m).
  Proof.
    intros oc a r r' e H.
    pose proof (opt_set_cls cfg orc ht oc a r) as W. rewrite H in W.
    cbn [wp snd err_opt] in W. destruct W as [[m ->]|[[m ->]|[m ->]]].
    - left. exists m. split; reflexivity.
    - right; left. exists m. split; reflexivity.
    - right; right. exists m. split; reflexivity.
  Qed.
  (* go-flags errors (in particular the ErrHelp of the help option) are recorded unchanged *)
  Lemma wrap_marshal_flags : forall oc t m, wrap_marshal cfg oc (EFlags t m) = EFlags t m.
  Proof. reflexivity. Qed.
End Loop.

(* ================================================================== *)
(* 3. Consequences of the fold for the field of one option             *)
(* ================================================================== *)

(* the callback-log entries of field [fid] *)
Definition calls_of (fid : nat) (r : rt) : list (nat * option value) :=
  filter (fun c => Nat.eqb (fst c) fid) (l_calls (rt_logs r)).

(* occurrences of the option whose field is [fid] *)
Definition has_fid (fid : nat) (o : occ) : bool := Nat.eqb (o_fid (oc_opt (fst o))) fid.
Definition occs_of (fid : nat) (occs : list occ) : list occ := filter (has_fid fid) occs.

Lemma set_flags_idem fl : set_flags (set_flags fl) = set_flags fl.
Proof. reflexivity. Qed.

Lemma rt_fl_opt_empty o r : rt_fl (opt_empty o r) = rt_fl r.
Proof. unfold opt_empty. destruct (is_func (o_ty o)); reflexivity. Qed.
Lemma rt_logs_opt_empty o r : rt_logs (opt_empty o r) = rt_logs r.
Proof. unfold opt_empty. destruct (is_func (o_ty o)); reflexivity. Qed.

Section Fold.
  Variable orc : oracles.
  Variable delim : str.
  Variable ht : rt -> str.

  Local Notation oset := (opt_set orc delim ht).
  Local Notation fold := (denote orc delim ht).

  (* the state Option.Set converts into: clear-before-set done, bookkeeping updated *)
  Definition pre_set (o : opt) (r : rt) : rt :=
    set_fl (if (is_map (o_ty o) || is_slice (o_ty o)) && f_clearref (rt_fl r (o_fid o))
            then opt_empty o r else r)
           (o_fid o) (set_flags (rt_fl r (o_fid o))).

  Lemma pre_set_fl o r : rt_fl (pre_set o r) (o_fid o) = set_flags (rt_fl r (o_fid o)).
  Proof. unfold pre_set. cbn [set_fl rt_fl]. apply upd_eq. Qed.
  Lemma pre_set_logs o r : rt_logs (pre_set o r) = rt_logs r.
  Proof.
    unfold pre_set. cbn [set_fl rt_logs]. destruct (_ && _); [apply rt_logs_opt_empty|reflexivity].
  Qed.

  (* inversion of Option.Set *)
  Lemma opt_set_inv oc a r r' e : oset oc a r = Ok (r', e) ->
    (r' = pre_set (oc_opt oc) r /\ exists m, e = Some (EFlags ErrInvalidChoice m)) \/
    (is_func (o_ty (oc_opt oc)) = true /\ opt_call orc ht oc a (pre_set (oc_opt oc) r) = Ok (r', e)) \/
    (is_func (o_ty (oc_opt oc)) = false /\ exists v em,
       convert orc (o_base (oc_opt oc)) (match a with Some v => v | None => [] end) (o_ty (oc_opt oc))
               (rt_vals (pre_set (oc_opt oc) r) (o_fid (oc_opt oc))) = Ok (v, em) /\
       r' = set_val (pre_set (oc_opt oc) r) (o_fid (oc_opt oc)) v /\ e = option_map foreign em).
  Proof.
    unfold opt_set, pre_set. cbv zeta.
    set (r1 := set_fl _ _ _). clearbody r1.
    assert (K : (if is_func (o_ty (oc_opt oc)) then opt_call orc ht oc a r1
         else bind (convert orc (o_base (oc_opt oc)) match a with Some v => v | None => [] end
                       (o_ty (oc_opt oc)) (rt_vals r1 (o_fid (oc_opt oc))))
                (fun cv => let '(v, e) := cv in Ok (set_val r1 (o_fid (oc_opt oc)) v, option_map foreign e)))
          = Ok (r', e) ->
         (r' = r1 /\ exists m, e = Some (EFlags ErrInvalidChoice m)) \/
         (is_func (o_ty (oc_opt oc)) = true /\ opt_call orc ht oc a r1 = Ok (r', e)) \/
         (is_func (o_ty (oc_opt oc)) = false /\ exists v em,
            convert orc (o_base (oc_opt oc)) (match a with Some v => v | None => [] end) (o_ty (oc_opt oc))
                    (rt_vals r1 (o_fid (oc_opt oc))) = Ok (v, em) /\
            r' = set_val r1 (o_fid (oc_opt oc)) v /\ e = option_map foreign em)).
    { destruct (is_func (o_ty (oc_opt oc))).
      - intros H. right; left. split; [reflexivity|exact H].
      - intros H. right; right. split; [reflexivity|].
        destruct (convert _ _ _ _ _) as [[v em]|e0|w]; cbn [bind] in H; try discriminate H.
        injection H as <- <-. exists v, em. repeat split. }
    destruct (o_choices (oc_opt oc)) as [|c cs]; [exact K|].
    destruct a as [v|]; [|exact K].
    destruct (existsb _ _); [exact K|].
    cbn [bind]. intros H. injection H as <- <-. left. split; [reflexivity|eexists; reflexivity].
  Qed.

  (* the converted argument of one callback invocation *)
  Definition call_entry (o : opt) (a : option str) (x : option value) : Prop :=
    match o_ty o with
    | TFunc None _ => x = None
    | TFunc (Some k) _ => exists v y, a = Some v /\ x = Some y /\
                                      convert_kind orc (o_base o) v k = Ok (inl y)
    | _ => False
    end.

  Lemma finish_inv (o : opt) (ty : vtype) (r0 r' : rt) (e : option err) :
    (if o_is_help o then Ok (r0, Some (EFlags ErrHelp (ht r0)))
     else match rt_vals r0 (o_fid o), ty with
          | VFunc true _, _ => Panic (s2l "reflect: call of nil function")
          | VFunc false fails, TFunc _ true =>
            Ok (r0, if fails then Some (foreign (s2l "callback failed")) else None)
          | _, _ => Ok (r0, None)
          end) = Ok (r', e) ->
    r' = r0 /\ (e = None -> o_is_help o = false).
  Proof.
    destruct (o_is_help o).
    - intros H. injection H as <- <-. split; [reflexivity|discriminate].
    - intros H. split; [|reflexivity].
      destruct (rt_vals r0 (o_fid o)); try (injection H as <- _; reflexivity).
      destruct isnil; [discriminate H|].
      destruct ty; try (injection H as <- _; reflexivity).
      destruct ret_err; injection H as <- _; reflexivity.
  Qed.

  (* inversion of Option.call: the state is unchanged or one call is logged *)
  Lemma opt_call_inv oc a r1 r' e : opt_call orc ht oc a r1 = Ok (r', e) ->
    (r' = r1 /\ e <> None) \/
    (exists x, r' = log_call r1 (o_fid (oc_opt oc)) x /\
               (e = None -> o_is_help (oc_opt oc) = false /\ call_entry (oc_opt oc) a x)).
  Proof.
    unfold opt_call, call_entry. cbv zeta.
    destruct a as [v|]; destruct (o_ty (oc_opt oc)) as [k|k|t|k1 k2|[k|] b] eqn:E; try discriminate.
    - cbn [convert].
      destruct (convert_kind orc (o_base (oc_opt oc)) v k) as [[y|m]|e0|w] eqn:Ec; cbn [bind];
        try discriminate.
      + intros H. apply (finish_inv (oc_opt oc) (TFunc (Some k) b)) in H. destruct H as [-> Hh].
        right. exists (Some y). split; [reflexivity|]. intros He. split; [exact (Hh He)|].
        exists v, y. repeat split. exact Ec.
      + intros H. injection H as <- <-. left. split; [reflexivity|discriminate].
    - intros H. apply (finish_inv (oc_opt oc) (TFunc None b)) in H. destruct H as [-> Hh].
      destruct (o_is_help (oc_opt oc)) eqn:Eh.
      + left. split; [reflexivity|]. intros He. specialize (Hh He). discriminate Hh.
      + right. exists None. split; [reflexivity|]. intros _. split; reflexivity.
    - intros H. apply (finish_inv (oc_opt oc) (TFunc None b)) in H. destruct H as [-> Hh].
      destruct (o_is_help (oc_opt oc)) eqn:Eh.
      + left. split; [reflexivity|]. intros He. specialize (Hh He). discriminate Hh.
      + right. exists None. split; [reflexivity|]. intros _. split; reflexivity.
  Qed.

  Lemma opt_call_keeps oc a r1 r' e : opt_call orc ht oc a r1 = Ok (r', e) ->
    rt_vals r' = rt_vals r1 /\ rt_fl r' = rt_fl r1.
  Proof.
    intros H. apply opt_call_inv in H. destruct H as [[-> _]|(x & -> & _)]; split; reflexivity.
  Qed.

  (* every Option.Set (successful or not) marks the option: isSet, preventDefault,
     clear-before-set disarmed; the other bookkeeping is kept *)
  Lemma opt_set_fl oc a r r' e : oset oc a r = Ok (r', e) ->
    rt_fl r' (o_fid (oc_opt oc)) = set_flags (rt_fl r (o_fid (oc_opt oc))).
  Proof.
    intros H. apply opt_set_inv in H.
    destruct H as [[-> _]|[[_ H]|(_ & v & em & _ & -> & _)]].
    - apply pre_set_fl.
    - apply opt_call_keeps in H. destruct H as [_ ->]. apply pre_set_fl.
    - cbn [set_val rt_fl]. apply pre_set_fl.
  Qed.

  (* an Option.Set on another field leaves the value, the bookkeeping and the logged
     calls of [fid] alone *)
  Lemma filter_other_calls fid fid' (ext : list (nat * option value)) :
    fid' <> fid -> Forall (fun c => fst c = fid') ext ->
    filter (fun c => Nat.eqb (fst c) fid) ext = [].
  Proof.
    intros Hne H. induction H as [|c ext Hc _ IH]; [reflexivity|].
    cbn [filter]. rewrite Hc. destruct (Nat.eqb_spec fid' fid); [contradiction|exact IH].
  Qed.

  Lemma opt_set_other fid oc a r r' e : oset oc a r = Ok (r', e) -> o_fid (oc_opt oc) <> fid ->
    rt_vals r' fid = rt_vals r fid /\ rt_fl r' fid = rt_fl r fid /\ calls_of fid r' = calls_of fid r.
  Proof.
    intros H Hne. destruct (opt_set_frame orc delim ht oc a r r' e H) as (A & B & _ & _ & _ & _ & ext & C & D).
    split; [apply A; congruence|]. split; [apply B; congruence|].
    unfold calls_of. rewrite C, filter_app, (filter_other_calls fid _ ext Hne D), app_nil_r. reflexivity.
  Qed.

  (* what no Option.Set ever touches *)
  Lemma opt_set_global oc a r r' e : oset oc a r = Ok (r', e) ->
    rt_active r' = rt_active r /\ l_exec (rt_logs r') = l_exec (rt_logs r) /\
    l_unknown (rt_logs r') = l_unknown (rt_logs r) /\ l_out (rt_logs r') = l_out (rt_logs r).
  Proof.
    intros H. destruct (opt_set_frame orc delim ht oc a r r' e H) as (_ & _ & A & B & C & D & _).
    repeat split; assumption.
  Qed.

  Lemma denote_cons_ok oc a occs r r' : fold ((oc, a) :: occs) r = Ok (r', None) ->
    exists r1, oset oc a r = Ok (r1, None) /\ fold occs r1 = Ok (r', None).
  Proof.
    rewrite denote_cons. destruct (oset oc a r) as [[r1 [e|]]|e|w]; cbn [bind fst snd]; try discriminate.
    intros H. exists r1. split; [reflexivity|exact H].
  Qed.

  Lemma denote_global : forall occs r r' e, fold occs r = Ok (r', e) ->
    rt_active r' = rt_active r /\ l_exec (rt_logs r') = l_exec (rt_logs r) /\
    l_unknown (rt_logs r') = l_unknown (rt_logs r) /\ l_out (rt_logs r') = l_out (rt_logs r).
  Proof.
    induction occs as [|[oc a] occs IH]; intros r r' e H.
    - rewrite denote_nil in H. injection H as <- _. repeat split.
    - rewrite denote_cons in H.
      destruct (oset oc a r) as [[r1 [e1|]]|e1|w] eqn:E; cbn [bind fst snd] in H; try discriminate H.
      + injection H as <- _. exact (opt_set_global oc a r r1 _ E).
      + destruct (opt_set_global oc a r r1 _ E) as (A & B & C & D).
        destruct (IH r1 r' e H) as (A' & B' & C' & D'). repeat split; congruence.
  Qed.

  (* ---------------------------------------------------------------- *)
  (* a. untouched                                                      *)
  (* ---------------------------------------------------------------- *)
  Theorem C01_denote_untouched : forall (fid : nat) (occs : list occ) (r r' : rt) (e : option err),
    fold occs r = Ok (r', e) ->
    (forall oc a, In (oc, a) occs -> o_fid (oc_opt oc) <> fid) ->
    rt_vals r' fid = rt_vals r fid /\ rt_fl r' fid = rt_fl r fid /\ calls_of fid r' = calls_of fid r.
  Proof.
    intros fid. induction occs as [|[oc a] occs IH]; intros r r' e H Hno.
    - rewrite denote_nil in H. injection H as <- _. repeat split.
    - rewrite denote_cons in H.
      assert (Hoc : o_fid (oc_opt oc) <> fid) by (apply (Hno oc a); left; reflexivity).
      destruct (oset oc a r) as [[r1 [e1|]]|e1|w] eqn:E; cbn [bind fst snd] in H; try discriminate H.
      + injection H as <- _. exact (opt_set_other fid oc a r r1 _ E Hoc).
      + destruct (opt_set_other fid oc a r r1 _ E Hoc) as (A & B & C).
        destruct (IH r1 r' e H) as (A' & B' & C'); [intros oc' a' Hin; apply (Hno oc' a'); right; exact Hin|].
        repeat split; congruence.
  Qed.

  (* ---------------------------------------------------------------- *)
  (* f. bookkeeping                                                    *)
  (* ---------------------------------------------------------------- *)
  Lemma has_fid_true fid oc a : has_fid fid (oc, a) = true <-> o_fid (oc_opt oc) = fid.
  Proof. unfold has_fid. cbn [fst]. apply Nat.eqb_eq. Qed.
  Lemma has_fid_false fid oc a : has_fid fid (oc, a) = false <-> o_fid (oc_opt oc) <> fid.
  Proof. unfold has_fid. cbn [fst]. apply Nat.eqb_neq. Qed.

  Lemma denote_fl : forall (fid : nat) (occs : list occ) (r r' : rt),
    fold occs r = Ok (r', None) ->
    rt_fl r' fid = if existsb (has_fid fid) occs then set_flags (rt_fl r fid) else rt_fl r fid.
  Proof.
    intros fid. induction occs as [|[oc a] occs IH]; intros r r' H.
    - rewrite denote_nil in H. injection H as <-. reflexivity.
    - destruct (denote_cons_ok oc a occs r r' H) as (r1 & E & H').
      rewrite (IH r1 r' H'). cbn [existsb].
      destruct (has_fid fid (oc, a)) eqn:Ef; cbn [orb].
      + apply has_fid_true in Ef. subst fid. rewrite (opt_set_fl oc a r r1 _ E).
        destruct (existsb _ occs); reflexivity.
      + apply has_fid_false in Ef.
        destruct (opt_set_other fid oc a r r1 _ E Ef) as (_ & -> & _). reflexivity.
  Qed.

  Theorem C01_denote_isset : forall (fid : nat) (occs : list occ) (r r' : rt),
    fold occs r = Ok (r', None) ->
    let occurred := existsb (has_fid fid) occs in
    rt_fl r' fid = (if occurred then set_flags (rt_fl r fid) else rt_fl r fid) /\
    f_isset (rt_fl r' fid) = occurred || f_isset (rt_fl r fid) /\
    f_prevent (rt_fl r' fid) = occurred || f_prevent (rt_fl r fid) /\
    f_clearref (rt_fl r' fid) = negb occurred && f_clearref (rt_fl r fid) /\
    f_isdefault (rt_fl r' fid) = f_isdefault (rt_fl r fid) /\
    f_iniquote (rt_fl r' fid) = f_iniquote (rt_fl r fid) /\
    f_ininame (rt_fl r' fid) = f_ininame (rt_fl r fid) /\
    f_deflit (rt_fl r' fid) = f_deflit (rt_fl r fid).
  Proof.
    intros fid occs r r' H occurred. pose proof (denote_fl fid occs r r' H) as E. fold occurred in E.
    split; [exact E|]. rewrite E. destruct occurred; repeat split.
  Qed.

  (* ---------------------------------------------------------------- *)
  (* the occurrences of ONE option                                     *)
  (* ---------------------------------------------------------------- *)
  (* field ids identify options among the occurrences: whatever has the field id of
     [o0] is [o0] *)
  Definition fid_identifies (o0 : opt) (occs : list occ) : Prop :=
    forall oc a, In (oc, a) occs -> o_fid (oc_opt oc) = o_fid o0 -> oc_opt oc = o0.

  Lemma fid_identifies_tail o0 x occs : fid_identifies o0 (x :: occs) -> fid_identifies o0 occs.
  Proof. intros H oc a Hin Hf. apply (H oc a); [right; exact Hin|exact Hf]. Qed.
  Lemma fid_identifies_app_r o0 pre post : fid_identifies o0 (pre ++ post) -> fid_identifies o0 post.
  Proof. intros H oc a Hin Hf. apply (H oc a); [apply in_or_app; right; exact Hin|exact Hf]. Qed.

  (* a successful Option.Set passed the choices check *)
  Lemma opt_set_ok_choice oc v r r' : oset oc (Some v) r = Ok (r', None) ->
    o_choices (oc_opt oc) = [] \/ In v (o_choices (oc_opt oc)).
  Proof.
    unfold opt_set. cbv zeta.
    destruct (o_choices (oc_opt oc)) as [|c cs]; [left; reflexivity|].
    destruct (existsb (str_eqb v) (c :: cs)) eqn:E.
    - intros _. right. apply existsb_str_eqb_in. exact E.
    - cbn [bind]. discriminate.
  Qed.

  Lemma rt_vals_pre_set_plain o r :
    is_map (o_ty o) || is_slice (o_ty o) = false -> rt_vals (pre_set o r) = rt_vals r.
  Proof. intros H. unfold pre_set. rewrite H. reflexivity. Qed.

  (* ---------------------------------------------------------------- *)
  (* b. scalars: the last occurrence                                   *)
  (* ---------------------------------------------------------------- *)
  Lemma opt_set_scalar_ok oc k a r r1 :
    o_ty (oc_opt oc) = TScalar k -> oset oc a r = Ok (r1, None) ->
    exists x, convert_kind orc (o_base (oc_opt oc)) (match a with Some v => v | None => [] end) k = Ok (inl x) /\
              rt_vals r1 (o_fid (oc_opt oc)) = x.
  Proof.
    intros Hty H. apply opt_set_inv in H. rewrite Hty in H.
    destruct H as [[_ [m Hm]]|[[Hf _]|(_ & x & em & Hc & -> & He)]]; [discriminate Hm|discriminate Hf|].
    cbn [convert] in Hc.
    destruct (convert_kind _ _ _ k) as [[y|m]|e0|w]; cbn [bind] in Hc; try discriminate Hc.
    - injection Hc as <- <-. exists y. split; [reflexivity|]. cbn [set_val rt_vals]. apply upd_eq.
    - injection Hc as _ <-. discriminate He.
  Qed.

  Theorem C01_denote_scalar_last :
    forall (o0 : opt) (k : kind) (occs pre post : list occ) (oc : octx) (v : str) (r r' : rt),
    fid_identifies o0 occs -> o_ty o0 = TScalar k ->
    (* (oc, Some v) is the last occurrence of the field of o0 *)
    occs = pre ++ (oc, Some v) :: post -> o_fid (oc_opt oc) = o_fid o0 ->
    (forall oc' a', In (oc', a') post -> o_fid (oc_opt oc') <> o_fid o0) ->
    fold occs r = Ok (r', None) ->
    exists x,
      convert_kind orc (o_base o0) v k = Ok (inl x) /\
      (* the conversion does not look at the old value *)
      (forall cur, convert orc (o_base o0) v (TScalar k) cur = Ok (x, None)) /\
      rt_vals r' (o_fid o0) = x /\
      (o_choices o0 = [] \/ In v (o_choices o0)).
  Proof.
    intros o0 k occs pre post oc v r r' Hid Hty -> Hfid Hpost H.
    assert (Hoc : oc_opt oc = o0).
    { apply (Hid oc (Some v)); [apply in_or_app; right; left; reflexivity|exact Hfid]. }
    apply denote_app_ok in H. destruct H as (rm & _ & H).
    destruct (denote_cons_ok oc (Some v) post rm r' H) as (r1 & E & H').
    destruct (C01_denote_untouched (o_fid o0) post r1 r' None H' Hpost) as (Hv & _ & _).
    pose proof (opt_set_ok_choice oc v rm r1 E) as Hch.
    destruct (opt_set_scalar_ok oc k (Some v) rm r1) as (x & Hc & Hx); [rewrite Hoc; exact Hty|exact E|].
    rewrite Hoc in Hc, Hx, Hch.
    exists x. split; [exact Hc|]. split; [|split; [congruence|exact Hch]].
    intros cur. cbn [convert]. rewrite Hc. reflexivity.
  Qed.

  (* ---------------------------------------------------------------- *)
  (* c. slices: one element per occurrence, in order                   *)
  (* ---------------------------------------------------------------- *)
  Lemma opt_set_slice_ok oc e v r r1 :
    o_ty (oc_opt oc) = TSlice e -> oset oc (Some v) r = Ok (r1, None) ->
    let fid := o_fid (oc_opt oc) in
    let old := if f_clearref (rt_fl r fid) then [] else slice_elems (rt_vals r fid) in
    exists x, convert orc (o_base (oc_opt oc)) v e (zero_value e) = Ok (x, None) /\
              rt_vals r1 fid = VSlice false (old ++ [x]).
  Proof.
    intros Hty H. cbv zeta. apply opt_set_inv in H. rewrite Hty in H.
    destruct H as [[_ [m Hm]]|[[Hf _]|(_ & x & em & Hc & -> & He)]]; [discriminate Hm|discriminate Hf|].
    cbn [convert] in Hc.
    destruct (convert orc (o_base (oc_opt oc)) v e (zero_value e)) as [[y [m|]]|e0|w]; cbn [bind] in Hc;
      try discriminate Hc.
    - injection Hc as _ <-. discriminate He.
    - injection Hc as <- _. exists y. split; [reflexivity|].
      cbn [set_val rt_vals]. rewrite upd_eq.
      unfold pre_set. rewrite Hty. cbn [is_map is_slice orb andb set_fl rt_vals].
      destruct (f_clearref (rt_fl r (o_fid (oc_opt oc)))).
      + unfold opt_empty, opt_empty_value. rewrite Hty. cbn [is_func empty_value zero_value set_val rt_vals].
        rewrite upd_eq. reflexivity.
      + destruct (rt_vals r (o_fid (oc_opt oc))); reflexivity.
  Qed.

  Lemma denote_slice_gen : forall (o0 : opt) (e : vtype) (occs : list occ) (vs : list str) (r r' : rt),
    fid_identifies o0 occs -> o_ty o0 = TSlice e ->
    map snd (occs_of (o_fid o0) occs) = map Some vs ->
    fold occs r = Ok (r', None) ->
    let fid := o_fid o0 in
    let old := if f_clearref (rt_fl r fid) then [] else slice_elems (rt_vals r fid) in
    exists xs, Forall2 (fun v x => convert orc (o_base o0) v e (zero_value e) = Ok (x, None)) vs xs /\
               rt_vals r' fid = match vs with [] => rt_vals r fid | _ => VSlice false (old ++ xs) end.
  Proof.
    intros o0 e. induction occs as [|[oc a] occs IH]; intros vs r r' Hid Hty Hvs H; cbv zeta.
    - rewrite denote_nil in H. injection H as <-. destruct vs; [|discriminate Hvs].
      exists []. split; [constructor|reflexivity].
    - destruct (denote_cons_ok oc a occs r r' H) as (r1 & E & H').
      pose proof (fid_identifies_tail o0 _ occs Hid) as Hid'.
      unfold occs_of in Hvs. cbn [filter] in Hvs.
      destruct (has_fid (o_fid o0) (oc, a)) eqn:Ef.
      + apply has_fid_true in Ef.
        assert (Hoc : oc_opt oc = o0) by (apply (Hid oc a); [left; reflexivity|exact Ef]).
        cbn [map snd] in Hvs. destruct vs as [|v vs]; [discriminate Hvs|].
        cbn [map] in Hvs. injection Hvs as -> Hvs.
        destruct (opt_set_slice_ok oc e v r r1) as (x & Hx & Hv1); [rewrite Hoc; exact Hty|exact E|].
        rewrite Hoc in Hx, Hv1.
        pose proof (opt_set_fl oc (Some v) r r1 _ E) as Hfl1. rewrite Hoc in Hfl1.
        destruct (IH vs r1 r' Hid' Hty Hvs H') as (xs & Hxs & Hv'). cbv zeta in Hv'.
        exists (x :: xs). split; [constructor; assumption|].
        rewrite Hv'. destruct vs as [|v2 vs].
        * inversion Hxs; subst. exact Hv1.
        * rewrite Hfl1, Hv1. cbn [set_flags fl_with f_clearref slice_elems].
          rewrite <- app_assoc. reflexivity.
      + apply has_fid_false in Ef.
        destruct (opt_set_other (o_fid o0) oc a r r1 _ E Ef) as (Hv1 & Hfl1 & _).
        destruct (IH vs r1 r' Hid' Hty Hvs H') as (xs & Hxs & Hv'). cbv zeta in Hv'.
        exists xs. split; [exact Hxs|]. rewrite Hv', Hv1, Hfl1. reflexivity.
  Qed.

  Theorem C01_denote_slice_all :
    forall (o0 : opt) (e : vtype) (occs : list occ) (vs : list str) (r r' : rt),
    fid_identifies o0 occs -> o_ty o0 = TSlice e ->
    (* the occurrences of the field of o0 carry exactly the arguments vs, in this order *)
    map snd (occs_of (o_fid o0) occs) = map Some vs -> vs <> [] ->
    fold occs r = Ok (r', None) ->
    let fid := o_fid o0 in
    (* clear-before-set armed (by ini_apply): the old elements are dropped first *)
    let old := if f_clearref (rt_fl r fid) then [] else slice_elems (rt_vals r fid) in
    exists xs,
      Forall2 (fun v x => convert orc (o_base o0) v e (zero_value e) = Ok (x, None)) vs xs /\
      rt_vals r' fid = VSlice false (old ++ xs) /\
      f_clearref (rt_fl r' fid) = false.
  Proof.
    intros o0 e occs vs r r' Hid Hty Hvs Hne H fid old.
    destruct (denote_slice_gen o0 e occs vs r r' Hid Hty Hvs H) as (xs & Hxs & Hv). cbv zeta in Hv.
    exists xs. split; [exact Hxs|]. split.
    - destruct vs; [congruence|exact Hv].
    - subst fid. rewrite (denote_fl (o_fid o0) occs r r' H).
      assert (Ex : existsb (has_fid (o_fid o0)) occs = true).
      { destruct (existsb (has_fid (o_fid o0)) occs) eqn:Ex; [reflexivity|].
        exfalso. apply Hne. unfold occs_of in Hvs.
        assert (F : filter (has_fid (o_fid o0)) occs = []).
        { clear - Ex. induction occs as [|x occs IH]; [reflexivity|]. cbn [existsb] in Ex.
          apply orb_false_iff in Ex. destruct Ex as [E1 E2]. cbn [filter]. rewrite E1. exact (IH E2). }
        rewrite F in Hvs. destruct vs; [reflexivity|discriminate Hvs]. }
      rewrite Ex. reflexivity.
  Qed.

  (* ---------------------------------------------------------------- *)
  (* maps: the fold of map_set over the converted key:value arguments  *)
  (* ---------------------------------------------------------------- *)
  Lemma opt_set_map_ok oc kk kv v r r1 :
    o_ty (oc_opt oc) = TMap kk kv -> oset oc (Some v) r = Ok (r1, None) ->
    let fid := o_fid (oc_opt oc) in
    let old := if f_clearref (rt_fl r fid) then [] else map_elems (rt_vals r fid) in
    exists kx vx, convert_kind orc (o_base (oc_opt oc)) (fst (map_split v)) kk = Ok (inl kx) /\
                  convert_kind orc (o_base (oc_opt oc)) (snd (map_split v)) kv = Ok (inl vx) /\
                  rt_vals r1 fid = VMap false (map_set old kx vx).
  Proof.
    intros Hty H. cbv zeta. apply opt_set_inv in H. rewrite Hty in H.
    destruct H as [[_ [m Hm]]|[[Hf _]|(_ & x & em & Hc & -> & He)]]; [discriminate Hm|discriminate Hf|].
    cbn [convert] in Hc. fold (map_split v) in Hc.
    destruct (map_split v) as [ks vs]. cbn [fst snd].
    destruct (convert_kind orc (o_base (oc_opt oc)) ks kk) as [[kx|m]|e0|w]; cbn [bind] in Hc;
      try discriminate Hc.
    2:{ injection Hc as _ <-. discriminate He. }
    destruct (convert_kind orc (o_base (oc_opt oc)) vs kv) as [[vx|m]|e0|w]; cbn [bind] in Hc;
      try discriminate Hc.
    2:{ injection Hc as _ <-. discriminate He. }
    injection Hc as <- _. exists kx, vx. split; [reflexivity|]. split; [reflexivity|].
    cbn [set_val rt_vals]. rewrite upd_eq.
    unfold pre_set. rewrite Hty. cbn [is_map is_slice orb andb set_fl rt_vals].
    destruct (f_clearref (rt_fl r (o_fid (oc_opt oc)))).
    - unfold opt_empty, opt_empty_value. rewrite Hty. cbn [is_func empty_value set_val rt_vals].
      rewrite upd_eq. reflexivity.
    - destruct (rt_vals r (o_fid (oc_opt oc))); reflexivity.
  Qed.

  Definition map_put (l : list (value * value)) (p : value * value) := map_set l (fst p) (snd p).

  Lemma denote_map_gen : forall (o0 : opt) (kk kv : kind) (occs : list occ) (vs : list str) (r r' : rt),
    fid_identifies o0 occs -> o_ty o0 = TMap kk kv ->
    map snd (occs_of (o_fid o0) occs) = map Some vs ->
    fold occs r = Ok (r', None) ->
    let fid := o_fid o0 in
    let old := if f_clearref (rt_fl r fid) then [] else map_elems (rt_vals r fid) in
    exists ps, Forall2 (fun v p => convert_kind orc (o_base o0) (fst (map_split v)) kk = Ok (inl (fst p)) /\
                                   convert_kind orc (o_base o0) (snd (map_split v)) kv = Ok (inl (snd p))) vs ps /\
               rt_vals r' fid = match vs with [] => rt_vals r fid | _ => VMap false (fold_left map_put ps old) end.
  Proof.
    intros o0 kk kv. induction occs as [|[oc a] occs IH]; intros vs r r' Hid Hty Hvs H; cbv zeta.
    - rewrite denote_nil in H. injection H as <-. destruct vs; [|discriminate Hvs].
      exists []. split; [constructor|reflexivity].
    - destruct (denote_cons_ok oc a occs r r' H) as (r1 & E & H').
      pose proof (fid_identifies_tail o0 _ occs Hid) as Hid'.
      unfold occs_of in Hvs. cbn [filter] in Hvs.
      destruct (has_fid (o_fid o0) (oc, a)) eqn:Ef.
      + apply has_fid_true in Ef.
        assert (Hoc : oc_opt oc = o0) by (apply (Hid oc a); [left; reflexivity|exact Ef]).
        cbn [map snd] in Hvs. destruct vs as [|v vs]; [discriminate Hvs|].
        cbn [map] in Hvs. injection Hvs as -> Hvs.
        destruct (opt_set_map_ok oc kk kv v r r1) as (kx & vx & Hk & Hx & Hv1); [rewrite Hoc; exact Hty|exact E|].
        rewrite Hoc in Hk, Hx, Hv1.
        pose proof (opt_set_fl oc (Some v) r r1 _ E) as Hfl1. rewrite Hoc in Hfl1.
        destruct (IH vs r1 r' Hid' Hty Hvs H') as (ps & Hps & Hv'). cbv zeta in Hv'.
        exists ((kx, vx) :: ps). split; [constructor; [split; assumption|assumption]|].
        rewrite Hv'. destruct vs as [|v2 vs].
        * inversion Hps; subst. exact Hv1.
        * rewrite Hfl1, Hv1. cbn [set_flags fl_with f_clearref map_elems fold_left]. reflexivity.
      + apply has_fid_false in Ef.
        destruct (opt_set_other (o_fid o0) oc a r r1 _ E Ef) as (Hv1 & Hfl1 & _).
        destruct (IH vs r1 r' Hid' Hty Hvs H') as (ps & Hps & Hv'). cbv zeta in Hv'.
        exists ps. split; [exact Hps|]. rewrite Hv', Hv1, Hfl1. reflexivity.
  Qed.

  Theorem C01_denote_map_fold :
    forall (o0 : opt) (kk kv : kind) (occs : list occ) (vs : list str) (r r' : rt),
    fid_identifies o0 occs -> o_ty o0 = TMap kk kv ->
    map snd (occs_of (o_fid o0) occs) = map Some vs -> vs <> [] ->
    fold occs r = Ok (r', None) ->
    let fid := o_fid o0 in
    let old := if f_clearref (rt_fl r fid) then [] else map_elems (rt_vals r fid) in
    exists ps,
      Forall2 (fun v p => convert_kind orc (o_base o0) (fst (map_split v)) kk = Ok (inl (fst p)) /\
                          convert_kind orc (o_base o0) (snd (map_split v)) kv = Ok (inl (snd p))) vs ps /\
      rt_vals r' fid = VMap false (fold_left map_put ps old).
  Proof.
    intros o0 kk kv occs vs r r' Hid Hty Hvs Hne H fid old.
    destruct (denote_map_gen o0 kk kv occs vs r r' Hid Hty Hvs H) as (ps & Hps & Hv). cbv zeta in Hv.
    exists ps. split; [exact Hps|]. destruct vs; [congruence|exact Hv].
  Qed.

  (* ---------------------------------------------------------------- *)
  (* d. flags                                                          *)
  (* ---------------------------------------------------------------- *)
  Theorem C01_denote_flag_iff : forall (o0 : opt) (occs : list occ) (r r' : rt),
    fid_identifies o0 occs -> o_ty o0 = TScalar KBool ->
    (* a bool option only occurs as a flag (guaranteed by [spells]: can_argument = false) *)
    (forall oc a, In (oc, a) occs -> o_fid (oc_opt oc) = o_fid o0 -> a = None) ->
    fold occs r = Ok (r', None) ->
    rt_vals r' (o_fid o0) =
      if existsb (has_fid (o_fid o0)) occs then VBool true else rt_vals r (o_fid o0).
  Proof.
    intros o0. induction occs as [|[oc a] occs IH]; intros r r' Hid Hty Hnone H.
    - rewrite denote_nil in H. injection H as <-. reflexivity.
    - destruct (denote_cons_ok oc a occs r r' H) as (r1 & E & H').
      pose proof (fid_identifies_tail o0 _ occs Hid) as Hid'.
      assert (Hnone' : forall oc a, In (oc, a) occs -> o_fid (oc_opt oc) = o_fid o0 -> a = None)
        by (intros oc' a' Hin; apply Hnone; right; exact Hin).
      rewrite (IH r1 r' Hid' Hty Hnone' H'). cbn [existsb].
      destruct (has_fid (o_fid o0) (oc, a)) eqn:Ef; cbn [orb].
      + apply has_fid_true in Ef.
        assert (Hoc : oc_opt oc = o0) by (apply (Hid oc a); [left; reflexivity|exact Ef]).
        assert (Ha : a = None) by (apply (Hnone oc a); [left; reflexivity|exact Ef]). subst a.
        destruct (opt_set_scalar_ok oc KBool None r r1) as (x & Hc & Hx); [rewrite Hoc; exact Hty|exact E|].
        cbn [convert_kind] in Hc. injection Hc as <-. rewrite Hoc in Hx. rewrite Hx.
        destruct (existsb _ occs); reflexivity.
      + apply has_fid_false in Ef.
        destruct (opt_set_other (o_fid o0) oc a r r1 _ E Ef) as (-> & _ & _). reflexivity.
  Qed.

  (* ---------------------------------------------------------------- *)
  (* e. callbacks                                                      *)
  (* ---------------------------------------------------------------- *)
  Lemma calls_of_log_call fid r x : calls_of fid (log_call r fid x) = calls_of fid r ++ [(fid, x)].
  Proof.
    unfold calls_of, log_call. cbn [set_logs rt_logs l_calls]. rewrite filter_app.
    cbn [filter fst]. rewrite Nat.eqb_refl. reflexivity.
  Qed.

  Lemma opt_set_callback_ok oc ak b a r r1 :
    o_ty (oc_opt oc) = TFunc ak b -> oset oc a r = Ok (r1, None) ->
    let fid := o_fid (oc_opt oc) in
    o_is_help (oc_opt oc) = false /\
    exists x, call_entry (oc_opt oc) a x /\
              calls_of fid r1 = calls_of fid r ++ [(fid, x)] /\
              rt_vals r1 = rt_vals r.
  Proof.
    intros Hty H. cbv zeta. apply opt_set_inv in H.
    destruct H as [[_ [m Hm]]|[[_ H]|(Hf & _)]]; [discriminate Hm| |rewrite Hty in Hf; discriminate Hf].
    apply opt_call_inv in H. destruct H as [[_ Hn]|(x & -> & Hx)]; [congruence|].
    destruct (Hx eq_refl) as [Hh Hce]. split; [exact Hh|]. exists x. split; [exact Hce|].
    split.
    - rewrite calls_of_log_call. unfold calls_of. rewrite pre_set_logs. reflexivity.
    - change (rt_vals (log_call (pre_set (oc_opt oc) r) (o_fid (oc_opt oc)) x))
        with (rt_vals (pre_set (oc_opt oc) r)).
      apply rt_vals_pre_set_plain. rewrite Hty. reflexivity.
  Qed.

  Theorem C01_denote_callback_log :
    forall (o0 : opt) (ak : option kind) (b : bool) (occs : list occ) (r r' : rt),
    fid_identifies o0 occs -> o_ty o0 = TFunc ak b ->
    fold occs r = Ok (r', None) ->
    let fid := o_fid o0 in
    exists xs,
      (* one entry per occurrence, in order, each with the converted argument *)
      Forall2 (fun (o : occ) x => call_entry o0 (snd o) x) (occs_of fid occs) xs /\
      calls_of fid r' = calls_of fid r ++ map (fun x => (fid, x)) xs /\
      (* the function value itself is not modified *)
      rt_vals r' fid = rt_vals r fid /\
      (* and the help option never completes a fold successfully *)
      (occs_of fid occs <> [] -> o_is_help o0 = false).
  Proof.
    intros o0 ak b. induction occs as [|[oc a] occs IH]; intros r r' Hid Hty H; cbv zeta.
    - rewrite denote_nil in H. injection H as <-. exists []. cbn [occs_of filter map].
      rewrite app_nil_r. split; [constructor|]. split; [reflexivity|]. split; [reflexivity|congruence].
    - destruct (denote_cons_ok oc a occs r r' H) as (r1 & E & H').
      pose proof (fid_identifies_tail o0 _ occs Hid) as Hid'.
      destruct (IH r1 r' Hid' Hty H') as (xs & Hxs & Hc & Hv & Hh). cbv zeta in *.
      unfold occs_of. cbn [filter]. fold (occs_of (o_fid o0) occs).
      destruct (has_fid (o_fid o0) (oc, a)) eqn:Ef.
      + apply has_fid_true in Ef.
        assert (Hoc : oc_opt oc = o0) by (apply (Hid oc a); [left; reflexivity|exact Ef]).
        destruct (opt_set_callback_ok oc ak b a r r1) as (Hhelp & x & Hce & Hc1 & Hv1);
          [rewrite Hoc; exact Hty|exact E|].
        rewrite Hoc in Hhelp, Hce, Hc1.
        exists (x :: xs). split; [constructor; assumption|].
        split; [rewrite Hc, Hc1, <- app_assoc; reflexivity|].
        split; [rewrite Hv, Hv1; reflexivity|intros _; exact Hhelp].
      + apply has_fid_false in Ef.
        destruct (opt_set_other (o_fid o0) oc a r r1 _ E Ef) as (Hv1 & _ & Hc1).
        exists xs. split; [exact Hxs|]. split; [rewrite Hc, Hc1; reflexivity|].
        split; [congruence|exact Hh].
  Qed.
End Fold.

(* ================================================================== *)
(* 4. End to end: the values after the argument loop                   *)
(* ================================================================== *)

(* a bool option cannot take an argument *)
Lemma can_argument_bool o : o_ty o = TScalar KBool -> can_argument o = false.
Proof. intros H. unfold can_argument, opt_is_bool. rewrite H. reflexivity. Qed.

(* the conclusions of section 3 for the field of the option [o0], gathered *)
Definition field_denotes (orc : oracles) (occs : list occ) (r r' : rt) (o0 : opt) : Prop :=
  let fid := o_fid o0 in
  let occurred := existsb (has_fid fid) occs in
  (* a. no occurrence: value, bookkeeping and logged calls untouched *)
  ((forall oc a, In (oc, a) occs -> o_fid (oc_opt oc) <> fid) ->
     rt_vals r' fid = rt_vals r fid /\ rt_fl r' fid = rt_fl r fid /\ calls_of fid r' = calls_of fid r) /\
  (* f. bookkeeping *)
  rt_fl r' fid = (if occurred then set_flags (rt_fl r fid) else rt_fl r fid) /\
  f_isset (rt_fl r' fid) = occurred || f_isset (rt_fl r fid) /\
  f_prevent (rt_fl r' fid) = occurred || f_prevent (rt_fl r fid) /\
  (* b. scalar: the conversion of the last occurrence's argument *)
  (forall k pre post oc v,
     o_ty o0 = TScalar k -> occs = pre ++ (oc, Some v) :: post -> o_fid (oc_opt oc) = fid ->
     (forall oc' a', In (oc', a') post -> o_fid (oc_opt oc') <> fid) ->
     exists x, convert_kind orc (o_base o0) v k = Ok (inl x) /\
               (forall cur, convert orc (o_base o0) v (TScalar k) cur = Ok (x, None)) /\
               rt_vals r' fid = x) /\
  (* c. slice: one element per occurrence, in command-line order *)
  (forall e vs,
     o_ty o0 = TSlice e -> map snd (occs_of fid occs) = map Some vs -> vs <> [] ->
     exists xs, Forall2 (fun v x => convert orc (o_base o0) v e (zero_value e) = Ok (x, None)) vs xs /\
                rt_vals r' fid =
                VSlice false ((if f_clearref (rt_fl r fid) then [] else slice_elems (rt_vals r fid)) ++ xs)) /\
  (* map: every key:value argument stored with map_set, in command-line order *)
  (forall kk kv vs,
     o_ty o0 = TMap kk kv -> map snd (occs_of fid occs) = map Some vs -> vs <> [] ->
     exists ps, Forall2 (fun v p => convert_kind orc (o_base o0) (fst (map_split v)) kk = Ok (inl (fst p)) /\
                                    convert_kind orc (o_base o0) (snd (map_split v)) kv = Ok (inl (snd p))) vs ps /\
                rt_vals r' fid =
                VMap false (fold_left map_put ps
                              (if f_clearref (rt_fl r fid) then [] else map_elems (rt_vals r fid)))) /\
  (* d. flag: true iff it occurred *)
  (o_ty o0 = TScalar KBool -> rt_vals r' fid = if occurred then VBool true else rt_vals r fid) /\
  (* e. callback: one logged call per occurrence, in order, with the converted argument *)
  (forall ak b, o_ty o0 = TFunc ak b ->
     exists xs, Forall2 (fun (o : occ) x => call_entry orc o0 (snd o) x) (occs_of fid occs) xs /\
                calls_of fid r' = calls_of fid r ++ map (fun x => (fid, x)) xs /\
                rt_vals r' fid = rt_vals r fid).

Lemma denote_field_denotes : forall orc delim ht lk toks (occs : list occ) (r r' : rt) (o0 : opt),
  spells lk toks occs ->
  denote orc delim ht occs r = Ok (r', None) ->
  fid_identifies o0 occs ->
  field_denotes orc occs r r' o0.
Proof.
  intros orc delim ht lk toks occs r r' o0 Hsp H Hid. unfold field_denotes. cbv zeta.
  split; [intros Hno; exact (C01_denote_untouched orc delim ht (o_fid o0) occs r r' None H Hno)|].
  destruct (C01_denote_isset orc delim ht (o_fid o0) occs r r' H) as (F1 & F2 & F3 & _).
  split; [exact F1|]. split; [exact F2|]. split; [exact F3|].
  split.
  { intros k pre post oc v Hty Eo Hf Hpost.
    destruct (C01_denote_scalar_last orc delim ht o0 k occs pre post oc v r r' Hid Hty Eo Hf Hpost H)
      as (x & A & B & C & _).
    exists x. repeat split; assumption. }
  split.
  { intros e vs Hty Hvs Hne.
    destruct (C01_denote_slice_all orc delim ht o0 e occs vs r r' Hid Hty Hvs Hne H) as (xs & A & B & _).
    exists xs. split; assumption. }
  split.
  { intros kk kv vs Hty Hvs Hne.
    exact (C01_denote_map_fold orc delim ht o0 kk kv occs vs r r' Hid Hty Hvs Hne H). }
  split.
  { intros Hty. apply (C01_denote_flag_iff orc delim ht o0 occs r r' Hid Hty); [|exact H].
    intros oc a Hin Hf.
    destruct (spells_arg_shape lk toks occs Hsp oc a Hin) as [[_ Ha]|[Hc _]]; [exact Ha|].
    rewrite (Hid oc a Hin Hf), (can_argument_bool o0 Hty) in Hc. discriminate Hc. }
  intros ak b Hty.
  destruct (C01_denote_callback_log orc delim ht o0 ak b occs r r' Hid Hty H) as (xs & A & B & C & _).
  exists xs. repeat split; assumption.
Qed.

Theorem C01_end_to_end :
  forall (cfg : pconfig) (orc : oracles) (root : command) (ht : rt -> str)
         (toks : list str) (occs : list occ) (fuel : nat) (s s' : pst) (r r' : rt),
  spells (ps_lk s) toks occs -> ps_args s = toks -> (length toks < fuel)%nat ->
  run_loop cfg orc root ht fuel s r = Ok (s', r') ->
  ps_err s' = None ->
  (* the loop computed the fold ... *)
  denote orc (pc_nsdelim cfg) ht occs r = Ok (r', None) /\
  (* ... consumed every token and changed nothing else in the parser state ... *)
  ps_args s' = [] /\ ps_arg s' = last toks (ps_arg s) /\ ps_ret s' = ps_ret s /\ ps_pos s' = ps_pos s /\
  ps_err s = None /\ ps_cmd s' = ps_cmd s /\ ps_lk s' = ps_lk s /\
  (* ... touched neither the Active pointers nor the other logs ... *)
  rt_active r' = rt_active r /\ l_exec (rt_logs r') = l_exec (rt_logs r) /\
  l_unknown (rt_logs r') = l_unknown (rt_logs r) /\ l_out (rt_logs r') = l_out (rt_logs r) /\
  (* ... and every option's field holds what its occurrences denote *)
  forall o0 : opt, fid_identifies o0 occs -> field_denotes orc occs r r' o0.
Proof.
  intros cfg orc root ht toks occs fuel s s' r r' Hsp Hargs Hf Hloop Herr.
  pose proof (C01_loop_is_fold cfg orc root ht (ps_lk s) toks occs Hsp fuel s r eq_refl Hargs Hf) as L.
  destruct (denote orc (pc_nsdelim cfg) ht occs r) as [[r1 [e|]]|e|w] eqn:Ed; cbn [loop_rel] in L.
  - destruct L as (s1 & toks1 & ts & toks2 & pre & oc & a & post & rm & Hl & _ & _ & _ & _ & _ & _ & _ & He & _).
    rewrite Hloop in Hl. injection Hl as <- <-. rewrite Herr in He. discriminate He.
  - destruct L as (s1 & Hl & Pargs & Parg & Pret & Ppos & Perr & Pcmd & Plk).
    rewrite Hloop in Hl. injection Hl as <- <-.
    destruct (denote_global orc (pc_nsdelim cfg) ht occs r r' None Ed) as (G1 & G2 & G3 & G4).
    split; [reflexivity|].
    split; [exact Pargs|]. split; [exact Parg|]. split; [exact Pret|]. split; [exact Ppos|].
    split; [congruence|]. split; [exact Pcmd|]. split; [exact Plk|].
    split; [exact G1|]. split; [exact G2|]. split; [exact G3|]. split; [exact G4|].
    intros o0 Hid.
    exact (denote_field_denotes orc (pc_nsdelim cfg) ht (ps_lk s) toks occs r r' o0 Hsp Ed Hid).
  - rewrite Hloop in L. discriminate L.
  - rewrite Hloop in L. discriminate L.
Qed.

(* the loop as started by ParseArgs: initial parser state, the fuel of parse_core *)
Corollary C01_loop_is_fold_initial :
  forall (cfg : pconfig) (orc : oracles) (root : command) (ht : rt -> str)
         (args : list str) (occs : list occ) (r : rt),
  let lk := make_lookup (pc_nsdelim cfg) root [] in
  spells lk args occs ->
  loop_rel cfg orc ht lk (initial_pst cfg root args) args occs r
           (denote orc (pc_nsdelim cfg) ht occs r)
           (run_loop cfg orc root ht (S (length args)) (initial_pst cfg root args) r).
Proof.
  intros cfg orc root ht args occs r lk Hsp.
  apply (C01_loop_is_fold cfg orc root ht lk args occs Hsp); [reflexivity|reflexivity|lia].
Qed.

(* ================================================================== *)
(* 5. Through the defaults phase of parse_core                         *)
(* ================================================================== *)
(* what the command line has set (preventDefault = true) is not modified by the
   clearDefault pass that follows the loop *)
Section Core.
  Variable cfg : pconfig.
  Variable orc : oracles.
  Variable root : command.
  Variable ht : rt -> str.

  Lemma opt_clear_default_prevented env edelim oc r :
    f_prevent (rt_fl r (o_fid (oc_opt oc))) = true ->
    opt_clear_default orc (pc_nsdelim cfg) ht env edelim oc r = Ok (r, None).
  Proof. intros H. unfold opt_clear_default. cbv zeta. rewrite H. reflexivity. Qed.

  Lemma clear_defaults_keeps_set fid : forall ocs s r s1 r1,
    f_prevent (rt_fl r fid) = true ->
    clear_defaults cfg orc ht ocs s r = Ok (s1, r1) ->
    rt_vals r1 fid = rt_vals r fid /\ rt_fl r1 fid = rt_fl r fid /\ calls_of fid r1 = calls_of fid r.
  Proof.
    induction ocs as [|oc ocs IH]; intros s r s1 r1 Hp H; cbn [clear_defaults] in H.
    - injection H as _ <-. repeat split.
    - destruct (Nat.eq_dec (o_fid (oc_opt oc)) fid) as [Ef|Ef].
      + rewrite opt_clear_default_prevented in H by (rewrite Ef; exact Hp).
        cbn [bind] in H. exact (IH _ _ _ _ Hp H).
      + destruct (opt_clear_default orc (pc_nsdelim cfg) ht (pc_env cfg) (pc_envdelim cfg) oc r)
          as [[r2 e]|e|w] eqn:E; cbn [bind] in H; try discriminate H.
        destruct (opt_clear_default_frame orc (pc_nsdelim cfg) ht _ _ oc r r2 e E)
          as (A & B & _ & _ & _ & _ & ext & C & D).
        assert (Hv : rt_vals r2 fid = rt_vals r fid) by (apply A; congruence).
        assert (Hfl : rt_fl r2 fid = rt_fl r fid) by (apply B; congruence).
        assert (Hc : calls_of fid r2 = calls_of fid r).
        { unfold calls_of. rewrite C, filter_app, (filter_other_calls fid _ ext Ef D), app_nil_r. reflexivity. }
        destruct (IH _ _ _ _ (eq_trans (f_equal f_prevent Hfl) Hp) H) as (A' & B' & C').
        repeat split; congruence.
  Qed.

  Theorem C01_parse_core_end_to_end :
    forall (args : list str) (occs : list occ) (r r' : rt) (sf : pst) (rf : rt),
    spells (make_lookup (pc_nsdelim cfg) root []) args occs ->
    denote orc (pc_nsdelim cfg) ht occs r = Ok (r', None) ->
    parse_core cfg orc root ht args r = Ok (sf, rf) ->
    forall o0 : opt, fid_identifies o0 occs ->
    existsb (has_fid (o_fid o0)) occs = true ->
    (* after the loop AND the defaults pass the field still holds what the command line denotes *)
    rt_vals rf (o_fid o0) = rt_vals r' (o_fid o0) /\
    rt_fl rf (o_fid o0) = rt_fl r' (o_fid o0) /\
    calls_of (o_fid o0) rf = calls_of (o_fid o0) r' /\
    field_denotes orc occs r rf o0.
  Proof.
    intros args occs r r' sf rf Hsp Hd Hcore o0 Hid Hocc.
    pose proof (C01_loop_is_fold_initial cfg orc root ht args occs r Hsp) as L. cbv zeta in L.
    rewrite Hd in L. cbn [loop_rel] in L. destruct L as (s' & Hl & _ & _ & _ & _ & Perr & _).
    unfold parse_core in Hcore. rewrite Hl in Hcore. cbn [bind] in Hcore.
    change (ps_err (initial_pst cfg root args)) with (@None err) in Perr. rewrite Perr in Hcore.
    destruct (clear_defaults cfg orc ht (tree_octxs root) s' r') as [[s1 r1]|e|w] eqn:Ec;
      cbn [bind] in Hcore; try discriminate Hcore.
    injection Hcore as _ <-.
    destruct (C01_denote_isset orc (pc_nsdelim cfg) ht (o_fid o0) occs r r' Hd) as (_ & _ & F3 & _).
    rewrite Hocc in F3. cbn [orb] in F3.
    destruct (clear_defaults_keeps_set (o_fid o0) _ s' r' s1 r1 F3 Ec) as (Hv & Hfl & Hc).
    split; [exact Hv|]. split; [exact Hfl|]. split; [exact Hc|].
    pose proof (denote_field_denotes orc (pc_nsdelim cfg) ht _ args occs r r' o0 Hsp Hd Hid) as FD.
    unfold field_denotes in *. cbv zeta in *. rewrite Hv, Hfl, Hc. exact FD.
  Qed.
End Core.

(* ================================================================== *)
(* 6. A realistic instance: the hypotheses are satisfiable             *)
(* ================================================================== *)
Module DenoteDemo.
  Import SpellSpec.Demo.

  (* the parser of SpellSpec.Demo (-n/--name string, -a/--all bool, -b/--brief bool,
     -h/--help, -é/--etat string) extended with
       -I/--include []string, -D/--define map[string]int, -c/--call func(int), --num int *)
  Definition o_inc := demo_opt 5 73 (s2l "include") (TSlice (TScalar KString)) false.
  Definition o_def := demo_opt 6 68 (s2l "define") (TMap KString (KInt I0)) false.
  Definition o_cb := demo_opt 7 99 (s2l "call") (TFunc (Some (KInt I0)) false) false.
  Definition o_num := demo_opt 8 0 (s2l "num") (TScalar (KInt I0)) false.
  Definition d_root : command :=
    Command (demo_cinfo (s2l "demo") false)
            (Group demo_ginfo [o_name; o_all; o_brief; o_help; o_etat; o_inc; o_def; o_cb; o_num] [])
            [] [].
  Definition d_rt : rt :=
    {| rt_vals := fun k => match k with
                           | 0%nat | 4%nat => VStr []
                           | 1%nat | 2%nat => VBool false
                           | 5%nat => VSlice true []
                           | 6%nat => VMap true []
                           | 8%nat => VInt 0
                           | _ => VFunc false false
                           end;
       rt_fl := fun _ => oflags0; rt_active := []; rt_logs := logs0 |}.
  Definition d_lk : lookup := make_lookup (pc_nsdelim demo_cfg) d_root [].
  Definition d_pst (args : list str) : pst := initial_pst demo_cfg d_root args.
  Definition d_loop (args : list str) := run_loop demo_cfg demo_orc d_root demo_help (S (length args)) (d_pst args) d_rt.
  Definition d_fold (occs : list occ) := denote demo_orc (pc_nsdelim demo_cfg) demo_help occs d_rt.

  (* --all --name=bob -Ia --num 7 -I=b -D k:1 --call=5 -é x --num=9 -c3 --define=k:2 -b *)
  Definition d_toks : list str :=
    [ s2l "--" ++ s2l "all";
      s2l "--" ++ s2l "name" ++ [61] ++ s2l "bob";
      45 :: encode_rune 73 ++ s2l "a";
      s2l "--" ++ s2l "num"; s2l "7";
      45 :: encode_rune 73 ++ 61 :: s2l "b";
      45 :: encode_rune 68; s2l "k:1";
      s2l "--" ++ s2l "call" ++ [61] ++ s2l "5";
      45 :: encode_rune 233; s2l "x";
      s2l "--" ++ s2l "num" ++ [61] ++ s2l "9";
      45 :: encode_rune 99 ++ s2l "3";
      s2l "--" ++ s2l "define" ++ [61] ++ s2l "k:2";
      45 :: encode_rune 98 ].
  Definition d_occs : list occ :=
    [ (demo_oc o_all, None);
      (demo_oc o_name, Some (s2l "bob"));
      (demo_oc o_inc, Some (s2l "a"));
      (demo_oc o_num, Some (s2l "7"));
      (demo_oc o_inc, Some (s2l "b"));
      (demo_oc o_def, Some (s2l "k:1"));
      (demo_oc o_cb, Some (s2l "5"));
      (demo_oc o_etat, Some (s2l "x"));
      (demo_oc o_num, Some (s2l "9"));
      (demo_oc o_cb, Some (s2l "3"));
      (demo_oc o_def, Some (s2l "k:2"));
      (demo_oc o_brief, None) ].

  Example d_toks_text :
    d_toks = [s2l "--all"; s2l "--name=bob"; s2l "-Ia"; s2l "--num"; s2l "7"; s2l "-I=b"; s2l "-D"; s2l "k:1";
              s2l "--call=5"; [45; 195; 169]; s2l "x"; s2l "--num=9"; s2l "-c3"; s2l "--define=k:2"; s2l "-b"].
  Proof. vm_compute. reflexivity. Qed.

  Ltac side :=
    first [ reflexivity
          | apply not_in_61; reflexivity
          | let HH := fresh in intro HH; vm_compute in HH; discriminate HH ].

  (* hypothesis of C01_loop_is_fold / C01_end_to_end: the tokens spell the occurrences
     (every kind of spelling is used) *)
  Example d_spells : spells d_lk d_toks d_occs.
  Proof.
    unfold d_toks, d_occs.
    apply (spells_cons d_lk [_]); [apply (sp_long_flag d_lk (s2l "all")); side|].
    apply (spells_cons d_lk [_]); [apply (sp_long_eq d_lk (s2l "name") (s2l "bob")); side|].
    apply (spells_cons d_lk [_]); [apply (sp_short_concat d_lk 73 (s2l "a")); side|].
    apply (spells_cons d_lk [_; _]); [apply (sp_long_sep d_lk (s2l "num") (s2l "7")); side|].
    apply (spells_cons d_lk [_]); [apply (sp_short_eq d_lk 73 (s2l "b")); side|].
    apply (spells_cons d_lk [_; _]); [apply (sp_short_sep d_lk 68 (s2l "k:1")); side|].
    apply (spells_cons d_lk [_]); [apply (sp_long_eq d_lk (s2l "call") (s2l "5")); side|].
    apply (spells_cons d_lk [_; _]); [apply (sp_short_sep d_lk 233 (s2l "x")); side|].
    apply (spells_cons d_lk [_]); [apply (sp_long_eq d_lk (s2l "num") (s2l "9")); side|].
    apply (spells_cons d_lk [_]); [apply (sp_short_concat d_lk 99 (s2l "3")); side|].
    apply (spells_cons d_lk [_]); [apply (sp_long_eq d_lk (s2l "define") (s2l "k:2")); side|].
    apply (spells_cons d_lk [_]); [apply (sp_short_flag d_lk 98); side|].
    apply spells_nil.
  Qed.

  (* the fold succeeds ... *)
  Example d_fold_ok : exists r', d_fold d_occs = Ok (r', None).
  Proof. eexists. vm_compute. reflexivity. Qed.

  (* ... and the loop, observed: same fields as the fold, all tokens consumed, no error *)
  Definition obs_rt (r : rt) :=
    (map (rt_vals r) [0; 1; 2; 4; 5; 6; 8]%nat, l_calls (rt_logs r),
     map (fun k => (f_isset (rt_fl r k), f_prevent (rt_fl r k))) [0; 1; 2; 3; 4; 5; 6; 7; 8]%nat).
  Example d_loop_observed :
    match d_loop d_toks, d_fold d_occs with
    | Ok (s', r'), Ok (r'', None) =>
      obs_rt r' = obs_rt r'' /\ ps_args s' = [] /\ ps_err s' = None /\
      obs_rt r' =
        ([VStr (s2l "bob"); VBool true; VBool true; VStr (s2l "x");
          VSlice false [VStr (s2l "a"); VStr (s2l "b")];
          VMap false [(VStr (s2l "k"), VInt 2)]; VInt 9],
         [(7%nat, Some (VInt 5)); (7%nat, Some (VInt 3))],
         [(true, true); (true, true); (true, true); (false, false); (true, true);
          (true, true); (true, true); (true, true); (true, true)])
    | _, _ => False
    end.
  Proof. vm_compute. repeat split. Qed.

  (* hypotheses of the section-3 theorems *)
  Ltac ident_tac :=
    let oc := fresh "oc" in let a := fresh "a" in let Hin := fresh "Hin" in let Hf := fresh "Hf" in
    intros oc a Hin Hf; cbn [In d_occs] in Hin;
    repeat (destruct Hin as [Hin|Hin];
            [injection Hin as <- <-; first [reflexivity | (vm_compute in Hf; discriminate Hf)]|]);
    destruct Hin.

  Example d_ident_all : forall o0, In o0 [o_name; o_all; o_brief; o_etat; o_inc; o_def; o_cb; o_num] ->
    fid_identifies o0 d_occs.
  Proof.
    intros o0 H. cbn [In] in H.
    repeat (destruct H as [<-|H]; [unfold fid_identifies, d_occs; ident_tac|]). destruct H.
  Qed.

  (* b: --num: the last occurrence is --num=9 *)
  Example d_scalar_hyps :
    o_ty o_num = TScalar (KInt I0) /\
    d_occs = firstn 8 d_occs ++ (demo_oc o_num, Some (s2l "9")) :: skipn 9 d_occs /\
    o_fid (oc_opt (demo_oc o_num)) = o_fid o_num /\
    (forall oc' a', In (oc', a') (skipn 9 d_occs) -> o_fid (oc_opt oc') <> o_fid o_num) /\
    convert_kind demo_orc (o_base o_num) (s2l "9") (KInt I0) = Ok (inl (VInt 9)).
  Proof.
    split; [reflexivity|]. split; [reflexivity|]. split; [reflexivity|]. split; [|reflexivity].
    intros oc' a' Hin. cbn [skipn d_occs In] in Hin.
    repeat (destruct Hin as [Hin|Hin]; [injection Hin as <- <-; vm_compute; discriminate|]). destruct Hin.
  Qed.

  (* c / map / e: the arguments of the occurrences, in order *)
  Example d_slice_hyps :
    o_ty o_inc = TSlice (TScalar KString) /\
    map snd (occs_of (o_fid o_inc) d_occs) = map Some [s2l "a"; s2l "b"] /\
    f_clearref (rt_fl d_rt (o_fid o_inc)) = false.
  Proof. repeat split. Qed.
  Example d_map_hyps :
    o_ty o_def = TMap KString (KInt I0) /\
    map snd (occs_of (o_fid o_def) d_occs) = map Some [s2l "k:1"; s2l "k:2"] /\
    fold_left map_put [(VStr (s2l "k"), VInt 1); (VStr (s2l "k"), VInt 2)] [] = [(VStr (s2l "k"), VInt 2)].
  Proof. repeat split. Qed.
  Example d_callback_hyps :
    o_ty o_cb = TFunc (Some (KInt I0)) false /\
    occs_of (o_fid o_cb) d_occs = [(demo_oc o_cb, Some (s2l "5")); (demo_oc o_cb, Some (s2l "3"))] /\
    call_entry demo_orc o_cb (Some (s2l "5")) (Some (VInt 5)).
  Proof.
    split; [reflexivity|]. split; [reflexivity|].
    unfold call_entry. cbn [o_ty o_cb demo_opt]. exists (s2l "5"), (VInt 5). repeat split.
  Qed.
  (* d: flags only occur without argument *)
  Example d_flag_hyps :
    o_ty o_all = TScalar KBool /\ existsb (has_fid (o_fid o_all)) d_occs = true /\
    (forall oc a, In (oc, a) d_occs -> o_fid (oc_opt oc) = o_fid o_all -> a = None).
  Proof.
    split; [reflexivity|]. split; [reflexivity|].
    intros oc a Hin Hf. cbn [In d_occs] in Hin.
    repeat (destruct Hin as [Hin|Hin];
            [injection Hin as <- <-; first [reflexivity | (vm_compute in Hf; discriminate Hf)]|]).
    destruct Hin.
  Qed.

  (* ---- the error case of C01_loop_is_fold: --all --num=x -b
     Option.Set reports the foreign conversion error, the loop records it as ErrMarshal,
     keeps -b pending, and both stop with the same runtime state (--all set, -b not) *)
  Definition e_toks : list str :=
    [s2l "--" ++ s2l "all"; s2l "--" ++ s2l "num" ++ [61] ++ s2l "x"; 45 :: encode_rune 98].
  Definition e_occs : list occ :=
    [(demo_oc o_all, None); (demo_oc o_num, Some (s2l "x")); (demo_oc o_brief, None)].
  Example e_spells : spells d_lk e_toks e_occs.
  Proof.
    unfold e_toks, e_occs.
    apply (spells_cons d_lk [_]); [apply (sp_long_flag d_lk (s2l "all")); side|].
    apply (spells_cons d_lk [_]); [apply (sp_long_eq d_lk (s2l "num") (s2l "x")); side|].
    apply (spells_cons d_lk [_]); [apply (sp_short_flag d_lk 98); side|].
    apply spells_nil.
  Qed.
  Example e_observed :
    match d_loop e_toks, d_fold e_occs with
    | Ok (s', r'), Ok (r'', Some e) =>
      obs_rt r' = obs_rt r'' /\
      e = EForeign (s2l "strconv.ParseInt: parsing ""x"": invalid syntax") /\
      ps_err s' = Some (wrap_marshal demo_cfg (demo_oc o_num) e) /\
      ps_err s' = Some (EFlags ErrMarshal
        (s2l "invalid argument for flag `--num' (expected int): strconv.ParseInt: parsing ""x"": invalid syntax")) /\
      ps_args s' = [s2l "-b"] /\
      map (rt_vals r') [1; 2; 8]%nat = [VBool true; VBool false; VInt 0]
    | _, _ => False
    end.
  Proof. vm_compute. repeat split. Qed.

  (* ---- the help option: --all -h -b : ErrHelp is recorded unchanged *)
  Definition h_toks : list str := [s2l "--" ++ s2l "all"; 45 :: encode_rune 104; 45 :: encode_rune 98].
  Definition h_occs : list occ := [(demo_oc o_all, None); (demo_oc o_help, None); (demo_oc o_brief, None)].
  Example h_spells : spells d_lk h_toks h_occs.
  Proof.
    unfold h_toks, h_occs.
    apply (spells_cons d_lk [_]); [apply (sp_long_flag d_lk (s2l "all")); side|].
    apply (spells_cons d_lk [_]); [apply (sp_short_flag d_lk 104); side|].
    apply (spells_cons d_lk [_]); [apply (sp_short_flag d_lk 98); side|].
    apply spells_nil.
  Qed.
  Example h_observed :
    match d_loop h_toks, d_fold h_occs with
    | Ok (s', r'), Ok (r'', Some e) =>
      obs_rt r' = obs_rt r'' /\ e = EFlags ErrHelp (s2l "usage") /\ ps_err s' = Some e /\
      ps_args s' = [s2l "-b"]
    | _, _ => False
    end.
  Proof. vm_compute. repeat split. Qed.

  (* ---- the panic case: a nil callback function: --call=5 panics in both *)
  Definition p_rt : rt :=
    {| rt_vals := fun _ => VFunc true false; rt_fl := fun _ => oflags0; rt_active := []; rt_logs := logs0 |}.
  Example p_observed :
    let toks := [s2l "--" ++ s2l "call" ++ [61] ++ s2l "5"] in
    run_loop demo_cfg demo_orc d_root demo_help 2 (d_pst toks) p_rt = Panic (s2l "reflect: call of nil function") /\
    denote demo_orc (pc_nsdelim demo_cfg) demo_help [(demo_oc o_cb, Some (s2l "5"))] p_rt =
      Panic (s2l "reflect: call of nil function").
  Proof. vm_compute. split; reflexivity. Qed.

  (* ---- through parse_core: nothing the command line set is touched by the defaults pass *)
  Example d_core_observed :
    match parse_core demo_cfg demo_orc d_root demo_help d_toks d_rt, d_fold d_occs with
    | Ok (sf, rf), Ok (r', None) => obs_rt rf = obs_rt r' /\ ps_err sf = None
    | _, _ => False
    end.
  Proof. vm_compute. repeat split. Qed.
  (* ---- why C01_denote_flag_iff assumes that the bool option only occurs as a flag: the
     abstract fold also accepts an explicit argument, and "--all" followed by an
     occurrence with argument "false" leaves false although a flag occurrence exists
     (such an occurrence list is never produced by [spells], see spells_arg_shape) *)
  Example flag_needs_none_counterexample :
    match d_fold [(demo_oc o_all, None); (demo_oc o_all, Some (s2l "false"))] with
    | Ok (r', None) => rt_vals r' 1%nat = VBool false
    | _ => False
    end.
  Proof. vm_compute. reflexivity. Qed.

  (* ---- why C01_denote_slice_all / C01_denote_map_fold assume at least one occurrence:
     without one the field keeps its value, here the nil slice, which is not
     VSlice false (old ++ []) *)
  Example slice_needs_occurrence_counterexample :
    match d_fold [(demo_oc o_all, None)] with
    | Ok (r', None) => rt_vals r' 5%nat = VSlice true [] /\
                       rt_vals r' 5%nat <> VSlice false (slice_elems (rt_vals d_rt 5%nat) ++ [])
    | _ => False
    end.
  Proof. vm_compute. split; [reflexivity|discriminate]. Qed.
End DenoteDemo.

Print Assumptions C01_loop_is_fold.
Print Assumptions C01_loop_is_fold_initial.
Print Assumptions set_error_wrapped.
Print Assumptions C01_denote_untouched.
Print Assumptions C01_denote_scalar_last.
Print Assumptions C01_denote_slice_all.
Print Assumptions C01_denote_map_fold.
Print Assumptions C01_denote_flag_iff.
Print Assumptions C01_denote_callback_log.
Print Assumptions C01_denote_isset.
Print Assumptions C01_end_to_end.
Print Assumptions C01_parse_core_end_to_end.
