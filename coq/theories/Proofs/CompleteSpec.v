(* C18 (completion offers exactly the valid continuations) and C15 (outcomes are
   deterministic: sorted results do not depend on Go's map iteration order). *)
From GoFlags Require Import Base.Str Base.Utf8 Golib.Strings Golib.Strconv
     Model.Types Model.Tag Model.Scan Model.Lookup Model.Convert Model.State Model.Help Model.Parse
     Model.Complete Proofs.LookupSpec.
From Coq Require Import Lia Permutation Sorted ZifyN ZifyNat ZifyBool.
Open Scope N_scope.

(* ================================================================== *)
(* 1. str_ltb is a strict total order                                 *)
(* ================================================================== *)

Lemma str_ltb_irrefl : forall a, str_ltb a a = false.
Proof.
  induction a as [|x a IH]; cbn [str_ltb]; [reflexivity|].
  rewrite N.ltb_irrefl. exact IH.
Qed.

Lemma str_ltb_trans : forall a b c, str_ltb a b = true -> str_ltb b c = true -> str_ltb a c = true.
Proof.
  induction a as [|x a IH]; intros [|y b] [|z c]; cbn [str_ltb]; intros H1 H2;
    try discriminate; try reflexivity.
  destruct (N.ltb_spec x y), (N.ltb_spec y x), (N.ltb_spec y z), (N.ltb_spec z y),
           (N.ltb_spec x z), (N.ltb_spec z x);
    try discriminate; try reflexivity; try lia.
  exact (IH b c H1 H2).
Qed.

Lemma str_ltb_total : forall a b, a <> b -> str_ltb a b = true \/ str_ltb b a = true.
Proof.
  induction a as [|x a IH]; intros [|y b] Hne; cbn [str_ltb]; auto.
  destruct (N.ltb_spec x y), (N.ltb_spec y x); auto; try lia.
  assert (x = y) by lia. subst y.
  apply IH. congruence.
Qed.

Lemma str_ltb_asym : forall a b, str_ltb a b = true -> str_ltb b a = false.
Proof.
  intros a b H. destruct (str_ltb b a) eqn:E; [|reflexivity].
  rewrite <- (str_ltb_irrefl a). symmetry. exact (str_ltb_trans a b a H E).
Qed.

Theorem str_ltb_strict_total_order :
  (forall a, str_ltb a a = false) /\
  (forall a b c, str_ltb a b = true -> str_ltb b c = true -> str_ltb a c = true) /\
  (forall a b, a <> b -> str_ltb a b = true \/ str_ltb b a = true) /\
  (forall a b, str_ltb a b = true -> str_ltb b a = false).
Proof.
  split; [exact str_ltb_irrefl|]. split; [exact str_ltb_trans|].
  split; [exact str_ltb_total|exact str_ltb_asym].
Qed.

(* trichotomy, the form used below *)
Lemma str_ltb_antisym : forall a b, str_ltb a b = false -> str_ltb b a = false -> a = b.
Proof.
  intros a b H1 H2. destruct (str_eqb_spec a b) as [E|E]; [exact E|].
  destruct (str_ltb_total a b E); congruence.
Qed.

(* non-strict order: a <= b  :=  str_ltb b a = false *)
Lemma str_le_trans : forall a b c, str_ltb b a = false -> str_ltb c b = false -> str_ltb c a = false.
Proof.
  intros a b c H1 H2. destruct (str_ltb c a) eqn:E; [|reflexivity].
  destruct (str_eqb_spec a b) as [->|Hab]; [congruence|].
  destruct (str_ltb_total a b Hab) as [H|H]; [|congruence].
  rewrite (str_ltb_trans c a b E H) in H2. discriminate.
Qed.

(* ================================================================== *)
(* 2. the insertion sorts sort, and permute                            *)
(* ================================================================== *)

(* non-decreasing keys *)
Definition key_le {A} (key : A -> str) (x y : A) : Prop := str_ltb (key y) (key x) = false.

Section SortBy.
  Context {A : Type} (key : A -> str).

  Lemma insert_by_nil : forall x, insert_by key x [] = [x].
  Proof. reflexivity. Qed.

  Lemma insert_by_cons : forall x y l,
    insert_by key x (y :: l) = if str_ltb (key x) (key y) then x :: y :: l else y :: insert_by key x l.
  Proof. reflexivity. Qed.

  Lemma sort_by_cons : forall x l, sort_by key (x :: l) = insert_by key x (sort_by key l).
  Proof. reflexivity. Qed.

  Lemma insert_by_perm : forall x l, Permutation (insert_by key x l) (x :: l).
  Proof.
    intros x. induction l as [|y l IH].
    - apply Permutation_refl.
    - rewrite insert_by_cons. destruct (str_ltb (key x) (key y)).
      + apply Permutation_refl.
      + eapply perm_trans; [apply perm_skip; exact IH|apply perm_swap].
  Qed.

  Lemma sort_by_perm : forall l, Permutation (sort_by key l) l.
  Proof.
    induction l as [|x l IH]; [apply perm_nil|].
    rewrite sort_by_cons.
    eapply perm_trans; [apply insert_by_perm|apply perm_skip; exact IH].
  Qed.

  Lemma insert_by_ssorted : forall x l,
    StronglySorted (key_le key) l -> StronglySorted (key_le key) (insert_by key x l).
  Proof.
    intros x. induction l as [|y l IH]; intros Hs.
    - rewrite insert_by_nil. constructor; constructor.
    - rewrite insert_by_cons. inversion Hs as [|? ? Hs' Hall]; subst.
      destruct (str_ltb (key x) (key y)) eqn:E.
      + constructor; [exact Hs|]. constructor.
        * unfold key_le. apply str_ltb_asym. exact E.
        * rewrite Forall_forall in Hall |- *. intros z Hz. specialize (Hall z Hz).
          unfold key_le in *.
          destruct (str_ltb (key z) (key x)) eqn:E2; [|reflexivity].
          rewrite (str_ltb_trans _ _ _ E2 E) in Hall. discriminate.
      + constructor; [exact (IH Hs')|].
        rewrite Forall_forall in Hall |- *. intros z Hz.
        apply (Permutation_in _ (insert_by_perm x l)) in Hz. destruct Hz as [<-|Hz].
        * exact E.
        * exact (Hall z Hz).
  Qed.

  Lemma sort_by_ssorted : forall l, StronglySorted (key_le key) (sort_by key l).
  Proof.
    induction l as [|x l IH]; [constructor|].
    rewrite sort_by_cons. apply insert_by_ssorted. exact IH.
  Qed.

  (* two sorted arrangements of the same items coincide, provided items with the
     same key are the same item *)
  Lemma ssorted_perm_unique : forall l1 l2,
    StronglySorted (key_le key) l1 -> StronglySorted (key_le key) l2 ->
    Permutation l1 l2 ->
    (forall x y, In x l1 -> In y l1 -> key x = key y -> x = y) ->
    l1 = l2.
  Proof.
    induction l1 as [|a l1 IH]; intros l2 S1 S2 P Inj.
    - apply Permutation_nil in P. congruence.
    - destruct l2 as [|b l2].
      + apply Permutation_sym, Permutation_nil in P. discriminate.
      + inversion S1 as [|? ? S1' A1]; subst. inversion S2 as [|? ? S2' A2]; subst.
        rewrite Forall_forall in A1, A2.
        assert (Hab : str_ltb (key a) (key b) = false).
        { assert (Hin : In a (b :: l2)) by (apply (Permutation_in _ P); left; reflexivity).
          destruct Hin as [->|Hin]; [apply str_ltb_irrefl|exact (A2 a Hin)]. }
        assert (Hbin : In b (a :: l1)) by (apply (Permutation_in _ (Permutation_sym P)); left; reflexivity).
        assert (Hba : str_ltb (key b) (key a) = false).
        { destruct Hbin as [->|Hin]; [apply str_ltb_irrefl|exact (A1 b Hin)]. }
        assert (a = b).
        { apply Inj; [left; reflexivity|exact Hbin|]. apply str_ltb_antisym; assumption. }
        subst b. f_equal. apply Permutation_cons_inv in P.
        apply IH; auto. intros x y Hx Hy. apply Inj; right; assumption.
  Qed.
End SortBy.

(* sort.Strings is the same insertion sort with the identity key *)
Lemma insert_str_insert_by : forall x l, insert_str x l = insert_by (fun s : str => s) x l.
Proof.
  intros x. induction l as [|y l IH]; [reflexivity|].
  cbn [insert_str insert_by]. rewrite IH.
  destruct (str_ltb y x) eqn:E.
  - rewrite (str_ltb_asym _ _ E). reflexivity.
  - destruct (str_ltb x y); reflexivity.
Qed.

Lemma sort_strs_sort_by : forall l, sort_strs l = sort_by (fun s : str => s) l.
Proof.
  induction l as [|x l IH]; [reflexivity|].
  unfold sort_strs in *. cbn [fold_right]. rewrite IH, insert_str_insert_by. reflexivity.
Qed.

Theorem sort_by_sorted : forall (A : Type) (key : A -> str) (l : list A),
  StronglySorted (fun x y => str_ltb (key y) (key x) = false) (sort_by key l) /\
  Sorted (fun x y => str_ltb (key y) (key x) = false) (sort_by key l) /\
  Permutation (sort_by key l) l.
Proof.
  intros A key l.
  assert (H : StronglySorted (fun x y => str_ltb (key y) (key x) = false) (sort_by key l))
    by exact (sort_by_ssorted key l).
  split; [exact H|]. split; [apply StronglySorted_Sorted; exact H|apply sort_by_perm].
Qed.

Theorem sort_strs_sorted : forall (l : list str),
  StronglySorted (fun x y => str_ltb y x = false) (sort_strs l) /\
  Sorted (fun x y => str_ltb y x = false) (sort_strs l) /\
  Permutation (sort_strs l) l.
Proof.
  intros l. rewrite sort_strs_sort_by. exact (sort_by_sorted str (fun s => s) l).
Qed.

(* ================================================================== *)
(* 3. C15: the sorted result is independent of the delivery order      *)
(* ================================================================== *)

Lemma nodup_map_inj : forall {A B} (f : A -> B) (l : list A),
  NoDup (map f l) -> forall x y, In x l -> In y l -> f x = f y -> x = y.
Proof.
  induction l as [|a l IH]; intros Hnd x y Hx Hy E; [destruct Hx|].
  cbn [map] in Hnd. inversion Hnd as [|? ? Hnot Hnd']; subst.
  destruct Hx as [<-|Hx], Hy as [<-|Hy].
  - reflexivity.
  - exfalso. apply Hnot. rewrite E. apply in_map. exact Hy.
  - exfalso. apply Hnot. rewrite <- E. apply in_map. exact Hx.
  - exact (IH Hnd' x y Hx Hy E).
Qed.

(* general form: it is enough that equal keys identify items *)
Theorem sort_by_permutation_invariant_inj : forall (A : Type) (key : A -> str) (l1 l2 : list A),
  Permutation l1 l2 ->
  (forall x y, In x l1 -> In y l1 -> key x = key y -> x = y) ->
  sort_by key l1 = sort_by key l2.
Proof.
  intros A key l1 l2 P Inj.
  apply (ssorted_perm_unique key).
  - apply sort_by_ssorted.
  - apply sort_by_ssorted.
  - eapply perm_trans; [apply sort_by_perm|].
    eapply perm_trans; [exact P|apply Permutation_sym, sort_by_perm].
  - intros x y Hx Hy. apply Inj; apply (Permutation_in _ (sort_by_perm key l1)); assumption.
Qed.

Theorem C15_sort_permutation_invariant :
  (forall (A : Type) (key : A -> str) (l1 l2 : list A),
     Permutation l1 l2 -> NoDup (map key l1) -> sort_by key l1 = sort_by key l2) /\
  (forall (l1 l2 : list str), Permutation l1 l2 -> sort_strs l1 = sort_strs l2).
Proof.
  split.
  - intros A key l1 l2 P Hnd. apply sort_by_permutation_invariant_inj; [exact P|].
    apply nodup_map_inj. exact Hnd.
  - intros l1 l2 P. rewrite !sort_strs_sort_by.
    apply sort_by_permutation_invariant_inj; [exact P|]. intros x y _ _ E. exact E.
Qed.

(* the hypotheses are satisfiable, and the conclusion is observable *)
Example C15_instance :
  let l1 := [(s2l "b", 1%nat); (s2l "a", 2%nat); (s2l "c", 3%nat)] in
  let l2 := [(s2l "c", 3%nat); (s2l "b", 1%nat); (s2l "a", 2%nat)] in
  sort_by (fun p : str * nat => fst p) l1 = [(s2l "a", 2%nat); (s2l "b", 1%nat); (s2l "c", 3%nat)] /\
  sort_by (fun p : str * nat => fst p) l2 = [(s2l "a", 2%nat); (s2l "b", 1%nat); (s2l "c", 3%nat)].
Proof. vm_compute. split; reflexivity. Qed.

(* distinctness of the keys cannot be dropped for sort_by: items with equal keys keep
   an order that depends on the input order *)
Example C15_needs_distinct_keys :
  let l1 := [(s2l "a", 1%nat); (s2l "a", 2%nat)] in
  let l2 := [(s2l "a", 2%nat); (s2l "a", 1%nat)] in
  Permutation l1 l2 /\
  sort_by (fun p : str * nat => fst p) l1 <> sort_by (fun p : str * nat => fst p) l2.
Proof. split; [apply perm_swap|vm_compute; discriminate]. Qed.

(* ================================================================== *)
(* 4. C18: the completion result is sorted                             *)
(* ================================================================== *)

Theorem C18_sorted : forall cfg root args,
  StronglySorted (fun x y : str * str => str_ltb (fst y) (fst x) = false) (complete cfg root args) /\
  Sorted (fun x y : str * str => str_ltb (fst y) (fst x) = false) (complete cfg root args).
Proof.
  intros cfg root args. unfold complete. cbv zeta.
  destruct (comp_walk cfg root _ _ _ _) as [[[s opt] rest] term].
  match goal with |- context [sort_by ?k ?l] =>
    destruct (sort_by_sorted (str * str) k l) as [H1 [H2 _]] end.
  split; [exact H1|exact H2].
Qed.

(* ================================================================== *)
(* 5. dedupe_last = Go map built by successive assignments             *)
(* ================================================================== *)

Lemma dedupe_last_cons : forall {A} k (v : A) l,
  dedupe_last ((k, v) :: l) =
  if existsb (fun p : str * A => str_eqb (fst p) k) l then dedupe_last l else (k, v) :: dedupe_last l.
Proof. reflexivity. Qed.

Lemma existsb_key_false : forall {A} (l : list (str * A)) k,
  existsb (fun p : str * A => str_eqb (fst p) k) l = false <-> find_last l k = None.
Proof.
  intros A l k. rewrite find_last_none. split.
  - intros H v Hin.
    assert (E : existsb (fun p : str * A => str_eqb (fst p) k) l = true).
    { apply existsb_exists. exists (k, v). split; [exact Hin|apply str_eqb_refl]. }
    congruence.
  - intros H. destruct (existsb _ l) eqn:E; [|reflexivity].
    apply existsb_exists in E. destruct E as [[k' v] [Hin Heq]]. cbn [fst] in Heq.
    apply str_eqb_eq in Heq. subst k'. exfalso. exact (H v Hin).
Qed.

Lemma in_dedupe_last : forall {A} (l : list (str * A)) k v,
  In (k, v) (dedupe_last l) <-> find_last l k = Some v.
Proof.
  induction l as [|[k' v'] l IH]; intros k v.
  - cbn. split; [intros []|discriminate].
  - rewrite dedupe_last_cons, find_last_cons.
    destruct (existsb (fun p : str * A => str_eqb (fst p) k') l) eqn:E.
    + rewrite IH. destruct (find_last l k) eqn:F; [reflexivity|].
      destruct (str_eqb_spec k k') as [->|Hne]; [|reflexivity].
      apply existsb_key_false in F. congruence.
    + apply existsb_key_false in E. cbn [In]. rewrite IH.
      destruct (str_eqb_spec k k') as [->|Hne].
      * rewrite E. split.
        -- intros [H|H]; [congruence|discriminate].
        -- intros H. left. congruence.
      * split.
        -- intros [H|H]; [congruence|]. rewrite H. reflexivity.
        -- intros H. right. destruct (find_last l k); [exact H|discriminate].
Qed.

Lemma dedupe_last_nodup : forall {A} (l : list (str * A)), NoDup (map fst (dedupe_last l)).
Proof.
  induction l as [|[k v] l IH]; [constructor|].
  rewrite dedupe_last_cons.
  destruct (existsb (fun p : str * A => str_eqb (fst p) k) l) eqn:E; [exact IH|].
  cbn [map fst]. constructor; [|exact IH].
  intros Hin. apply in_map_iff in Hin. destruct Hin as [[k' v'] [Hk Hin]]. cbn [fst] in Hk. subst k'.
  apply in_dedupe_last in Hin. apply existsb_key_false in E. congruence.
Qed.

Lemma has_prefix_nil : forall s, has_prefix s [] = true.
Proof. destruct s; reflexivity. Qed.

Definition long_filter (m : str) (p : str * octx) : bool :=
  has_prefix (fst p) m && negb (o_hidden (oc_opt (snd p))).
Definition long_item (p : str * octx) : str * str := (s2l "--" ++ fst p, o_desc (oc_opt (snd p))).

Lemma complete_option_names_long : forall lk prefix m,
  complete_option_names lk prefix m false =
  map long_item (filter (long_filter m) (dedupe_last (lk_long lk))).
Proof. intros. unfold complete_option_names. cbn [andb]. rewrite app_nil_r. reflexivity. Qed.

Lemma in_long_filter : forall lk m n oc,
  In (n, oc) (filter (long_filter m) (dedupe_last (lk_long lk))) <->
  find_last (lk_long lk) n = Some oc /\ has_prefix n m = true /\ o_hidden (oc_opt oc) = false.
Proof.
  intros. rewrite filter_In, in_dedupe_last. unfold long_filter. cbn [fst snd].
  rewrite andb_true_iff, negb_true_iff. tauto.
Qed.

Theorem C18_option_names_exact : forall lk prefix m it,
  In it (complete_option_names lk prefix m false) <->
  exists n oc, it = (s2l "--" ++ n, o_desc (oc_opt oc)) /\
               find_last (lk_long lk) n = Some oc /\
               has_prefix n m = true /\
               o_hidden (oc_opt oc) = false.
Proof.
  intros lk prefix m it. rewrite complete_option_names_long, in_map_iff. split.
  - intros [[n oc] [Heq Hin]]. apply in_long_filter in Hin.
    exists n, oc. split; [symmetry; exact Heq|exact Hin].
  - intros (n & oc & -> & H). exists (n, oc). split; [reflexivity|].
    apply in_long_filter. exact H.
Qed.

(* every name is offered once *)
Lemma nodup_map_fst_filter : forall {A} (f : str * A -> bool) (l : list (str * A)),
  NoDup (map fst l) -> NoDup (map fst (filter f l)).
Proof.
  induction l as [|p l IH]; intros Hnd; [constructor|].
  cbn [map] in Hnd. inversion Hnd as [|? ? Hnot Hnd']; subst.
  cbn [filter]. destruct (f p); [|exact (IH Hnd')].
  cbn [map]. constructor; [|exact (IH Hnd')].
  intros Hin. apply Hnot. apply in_map_iff in Hin. destruct Hin as [q [Hq Hin]].
  apply filter_In in Hin. apply in_map_iff. exists q. tauto.
Qed.

Theorem C18_option_names_nodup : forall lk prefix m,
  NoDup (map fst (complete_option_names lk prefix m false)).
Proof.
  intros. rewrite complete_option_names_long, map_map.
  assert (H : NoDup (map fst (filter (long_filter m) (dedupe_last (lk_long lk)))))
    by (apply nodup_map_fst_filter, dedupe_last_nodup).
  revert H. generalize (filter (long_filter m) (dedupe_last (lk_long lk))).
  induction l as [|p l IH]; intros Hnd; [constructor|].
  cbn [map] in *. inversion Hnd as [|? ? Hnot Hnd']; subst.
  constructor; [|exact (IH Hnd')].
  intros Hin. apply Hnot. apply in_map_iff in Hin. destruct Hin as [q [Hq Hin]].
  unfold long_item in Hq. cbn [fst] in Hq. apply app_inv_head in Hq.
  apply in_map_iff. exists q. split; assumption.
Qed.

(* ================================================================== *)
(* 6. bare dash: long names, then the short names not already covered  *)
(* ================================================================== *)

Definition short_items (lk : lookup) : list (str * str) :=
  let repeats := map (fun p : str * octx => encode_rune (o_short (oc_opt (snd p))))
                     (filter (long_filter []) (dedupe_last (lk_long lk))) in
  flat_map (fun p : str * octx =>
              if negb (existsb (str_eqb (fst p)) repeats) && has_prefix (fst p) [] &&
                 negb (o_hidden (oc_opt (snd p)))
              then [(45 :: fst p, o_desc (oc_opt (snd p)))] else [])
           (dedupe_last (lk_short lk)).

Lemma complete_option_names_short_nil : forall lk prefix,
  complete_option_names lk prefix [] true = complete_option_names lk prefix [] false ++ short_items lk.
Proof. intros. rewrite complete_option_names_long. reflexivity. Qed.

Lemma complete_option_names_short_nonempty : forall lk prefix m,
  m <> [] -> complete_option_names lk prefix m true = [(prefix ++ m, [])].
Proof.
  intros lk prefix m Hm. unfold complete_option_names.
  destruct m as [|c m]; [congruence|]. reflexivity.
Qed.

Lemma in_short_items : forall lk it,
  In it (short_items lk) <->
  exists n oc, it = (45 :: n, o_desc (oc_opt oc)) /\
               find_last (lk_short lk) n = Some oc /\
               o_hidden (oc_opt oc) = false /\
               ~ (exists n' oc', find_last (lk_long lk) n' = Some oc' /\
                                 o_hidden (oc_opt oc') = false /\
                                 n = encode_rune (o_short (oc_opt oc'))).
Proof.
  intros lk it. unfold short_items. cbv zeta.
  set (repeats := map (fun p : str * octx => encode_rune (o_short (oc_opt (snd p))))
                      (filter (long_filter []) (dedupe_last (lk_long lk)))).
  assert (Hrep : forall n, existsb (str_eqb n) repeats = true <->
                 exists n' oc', find_last (lk_long lk) n' = Some oc' /\
                                o_hidden (oc_opt oc') = false /\
                                n = encode_rune (o_short (oc_opt oc'))).
  { intros n. rewrite existsb_exists. unfold repeats. split.
    - intros [x [Hx Heq]]. apply str_eqb_eq in Heq. subst x.
      apply in_map_iff in Hx. destruct Hx as [[n' oc'] [Hn Hin]]. cbn [snd] in Hn.
      apply in_long_filter in Hin. destruct Hin as [Hf [_ Hh]].
      exists n', oc'. split; [exact Hf|]. split; [exact Hh|]. symmetry; exact Hn.
    - intros (n' & oc' & Hf & Hh & ->). exists (encode_rune (o_short (oc_opt oc'))).
      split; [|apply str_eqb_refl].
      apply in_map_iff. exists (n', oc'). split; [reflexivity|].
      apply in_long_filter. split; [exact Hf|]. split; [apply has_prefix_nil|exact Hh]. }
  rewrite in_flat_map. split.
  - intros [[n oc] [Hin Hc]]. cbn [fst snd] in Hc.
    destruct (existsb (str_eqb n) repeats) eqn:E; cbn [negb andb] in Hc; [destruct Hc|].
    rewrite has_prefix_nil in Hc. cbn [andb] in Hc.
    destruct (o_hidden (oc_opt oc)) eqn:Hh; cbn [negb] in Hc; [destruct Hc|].
    destruct Hc as [<-|[]].
    exists n, oc. split; [reflexivity|]. split; [apply in_dedupe_last; exact Hin|].
    split; [exact Hh|]. intros Hex. apply Hrep in Hex. congruence.
  - intros (n & oc & -> & Hf & Hh & Hnot). exists (n, oc).
    split; [apply in_dedupe_last; exact Hf|]. cbn [fst snd].
    assert (E : existsb (str_eqb n) repeats = false).
    { destruct (existsb (str_eqb n) repeats) eqn:E; [|reflexivity].
      exfalso. apply Hnot. apply Hrep. exact E. }
    rewrite E, has_prefix_nil, Hh. left. reflexivity.
Qed.

Theorem C18_short_names : forall lk prefix,
  (forall m, m <> [] -> complete_option_names lk prefix m true = [(prefix ++ m, [])]) /\
  (exists shorts,
     complete_option_names lk prefix [] true = complete_option_names lk prefix [] false ++ shorts /\
     forall it, In it shorts <->
       exists n oc, it = (45 :: n, o_desc (oc_opt oc)) /\
                    find_last (lk_short lk) n = Some oc /\
                    o_hidden (oc_opt oc) = false /\
                    ~ (exists n' oc', find_last (lk_long lk) n' = Some oc' /\
                                      o_hidden (oc_opt oc') = false /\
                                      n = encode_rune (o_short (oc_opt oc')))).
Proof.
  intros lk prefix. split.
  - intros m Hm. apply complete_option_names_short_nonempty. exact Hm.
  - exists (short_items lk). split; [apply complete_option_names_short_nil|apply in_short_items].
Qed.

(* ================================================================== *)
(* 7. sub-command names                                                *)
(* ================================================================== *)

Theorem C18_commands_exact : forall c m it,
  In it (complete_commands c m) <->
  exists sc, In sc (cmd_subs c) /\
             g_hidden (grp_info (cmd_group sc)) = false /\
             has_prefix (c_name (cmd_info sc)) m = true /\
             it = (c_name (cmd_info sc), g_short (grp_info (cmd_group sc))).
Proof.
  intros c m it. unfold complete_commands. rewrite in_flat_map. split.
  - intros [sc [Hin Hc]]. cbv zeta in Hc.
    destruct (g_hidden (grp_info (cmd_group sc))) eqn:Hh; cbn [negb andb] in Hc; [destruct Hc|].
    destruct (has_prefix (c_name (cmd_info sc)) m) eqn:Hp; [|destruct Hc].
    destruct Hc as [<-|[]]. exists sc. auto.
  - intros (sc & Hin & Hh & Hp & ->). exists sc. split; [exact Hin|].
    cbv zeta. rewrite Hh, Hp. left. reflexivity.
Qed.

(* ================================================================== *)
(* 8. offered long names are known to the parser                       *)
(* ================================================================== *)

Theorem C18_offered_long_is_accepted : forall lk prefix m n d,
  In (s2l "--" ++ n, d) (complete_option_names lk prefix m false) ->
  find_last (lk_long lk) n <> None.
Proof.
  intros lk prefix m n d H. apply C18_option_names_exact in H.
  destruct H as (n' & oc & Heq & Hf & _). injection Heq as Hn _.
  subst n'. congruence.
Qed.

(* the same, read on the parser: parse_long takes the known-option branch *)
Theorem C18_offered_long_parse_long : forall cfg orc help_text lk prefix m n d argument s r,
  ps_lk s = lk ->
  In (s2l "--" ++ n, d) (complete_option_names lk prefix m false) ->
  exists oc, find_last (lk_long lk) n = Some oc /\
             d = o_desc (oc_opt oc) /\ has_prefix n m = true /\ o_hidden (oc_opt oc) = false /\
             parse_long cfg orc help_text n argument s r =
             parse_option cfg orc help_text oc (negb (o_optional (oc_opt oc))) argument s r.
Proof.
  intros cfg orc help_text lk prefix m n d argument s r Hlk H.
  apply C18_option_names_exact in H.
  destruct H as (n' & oc & Heq & Hf & Hp & Hh). injection Heq as Hn Hd.
  subst n'.
  exists oc. repeat (split; [assumption|]).
  unfold parse_long. rewrite Hlk, Hf. reflexivity.
Qed.

(* bare-dash completion: every offered item is a known long or a known short name *)
Theorem C18_offered_dash_is_accepted : forall lk prefix it,
  In it (complete_option_names lk prefix [] true) ->
  (exists n, fst it = s2l "--" ++ n /\ find_last (lk_long lk) n <> None) \/
  (exists n, fst it = 45 :: n /\ find_last (lk_short lk) n <> None).
Proof.
  intros lk prefix it H. rewrite complete_option_names_short_nil in H.
  apply in_app_or in H. destruct H as [H|H].
  - left. apply C18_option_names_exact in H. destruct H as (n & oc & -> & Hf & _).
    exists n. split; [reflexivity|congruence].
  - right. apply in_short_items in H. destruct H as (n & oc & -> & Hf & _).
    exists n. split; [reflexivity|congruence].
Qed.

(* ================================================================== *)
(* 9. value completion                                                 *)
(* ================================================================== *)

Lemma in_comp_complete : forall m it,
  In it (comp_complete m) <->
  In (fst it) comp_words /\ has_prefix (fst it) m = true /\ snd it = s2l "desc " ++ fst it.
Proof.
  intros m it. unfold comp_complete. rewrite in_flat_map. split.
  - intros [w [Hw Hin]]. destruct (has_prefix w m) eqn:E; [|destruct Hin].
    destruct Hin as [<-|[]]. cbn [fst snd]. auto.
  - intros (Hw & Hp & Hs). exists (fst it). split; [exact Hw|]. rewrite Hp.
    left. destruct it as [a b]. cbn [fst snd] in *. subst b. reflexivity.
Qed.

Theorem C18_values : forall t prefix m,
  (vtype_completes t = true ->
   complete_value t prefix m = map (fun it : str * str => (prefix ++ fst it, snd it)) (comp_complete m)) /\
  (vtype_completes t = false -> complete_value t prefix m = []) /\
  (forall it, In it (comp_complete m) <->
              In (fst it) comp_words /\ has_prefix (fst it) m = true /\ snd it = s2l "desc " ++ fst it).
Proof.
  intros t prefix m. unfold complete_value. split; [|split].
  - intros ->. reflexivity.
  - intros ->. reflexivity.
  - apply in_comp_complete.
Qed.

Theorem C18_values_in : forall t prefix m it,
  In it (complete_value t prefix m) <->
  vtype_completes t = true /\
  exists w, In w comp_words /\ has_prefix w m = true /\ it = (prefix ++ w, s2l "desc " ++ w).
Proof.
  intros t prefix m it. unfold complete_value. destruct (vtype_completes t).
  - rewrite in_map_iff. split.
    + intros [[w d] [<- Hin]]. apply in_comp_complete in Hin. cbn [fst snd] in *.
      destruct Hin as (Hw & Hp & ->). split; [reflexivity|]. exists w. auto.
    + intros [_ (w & Hw & Hp & ->)]. exists (w, s2l "desc " ++ w). split; [reflexivity|].
      apply in_comp_complete. cbn [fst snd]. auto.
  - split; [intros []|]. intros [H _]. discriminate.
Qed.

(* ================================================================== *)
(* Non-vacuity: a realistic instance                                   *)
(* ================================================================== *)

Definition ex_opt (sh : N) (lg desc : str) (hid : bool) (ty : vtype) : opt :=
  {| o_fid := 0; o_field := []; o_short := sh; o_long := lg; o_desc := desc;
     o_default := []; o_envkey := []; o_envdelim := []; o_optional := false; o_optval := [];
     o_required := false; o_valname := []; o_mask := []; o_choices := []; o_hidden := hid;
     o_ininame := []; o_noini := false; o_unquote := false; o_base := []; o_ty := ty;
     o_is_help := false |}.
Definition ex_ginfo (short : str) (hid : bool) : ginfo :=
  {| g_short := short; g_long := []; g_ns := []; g_envns := []; g_hidden := hid; g_builtin_help := false |}.
Definition ex_cinfo (name : str) : cinfo :=
  {| c_name := name; c_aliases := []; c_sub_optional := false; c_args_required := false;
     c_hidden := false; c_exec := ExNone; c_usage := None; c_has_help := false |}.
Definition ex_cfg : pconfig :=
  {| pc_name := s2l "app";
     pc_opts := {| po_help := false; po_passdd := false; po_ignore := false; po_print := false;
                   po_passafter := false |};
     pc_nsdelim := s2l "."; pc_envdelim := s2l "_"; pc_handler := HNone; pc_cmdhandler := false;
     pc_usage := []; pc_env := []; pc_cols := 80; pc_shortdesc := []; pc_longdesc := [] |}.
(* -v/--verbose, -x/--version, hidden -s/--secret, short-only -q, -c/--color (a Completer);
   sub-commands add, admin (hidden group), rm *)
Definition ex_root : command :=
  Command (ex_cinfo (s2l "app"))
          (Group (ex_ginfo (s2l "Application Options") false)
                 [ex_opt 118 (s2l "verbose") (s2l "be chatty") false (TScalar KBool);
                  ex_opt 120 (s2l "version") (s2l "show version") false (TScalar KBool);
                  ex_opt 115 (s2l "secret") (s2l "internal") true (TScalar KBool);
                  ex_opt 113 [] (s2l "quiet") false (TScalar KBool);
                  ex_opt 99 (s2l "color") (s2l "pick") false (TScalar KComp)] [])
          []
          [Command (ex_cinfo (s2l "add")) (Group (ex_ginfo (s2l "Add an item") false) [] []) [] [];
           Command (ex_cinfo (s2l "admin")) (Group (ex_ginfo (s2l "Administer") true) [] []) [] [];
           Command (ex_cinfo (s2l "rm")) (Group (ex_ginfo (s2l "Remove an item") false) [] []) [] []].
Definition ex_lk : lookup := make_lookup (s2l ".") ex_root [].

Example ex_complete_long :
  complete ex_cfg ex_root [s2l "--ver"] =
  [(s2l "--verbose", s2l "be chatty"); (s2l "--version", s2l "show version")].
Proof. vm_compute. reflexivity. Qed.

Example ex_complete_dash :
  complete ex_cfg ex_root [s2l "-"] =
  [(s2l "--color", s2l "pick"); (s2l "--verbose", s2l "be chatty");
   (s2l "--version", s2l "show version"); (s2l "-q", s2l "quiet")].
Proof. vm_compute. reflexivity. Qed.

Example ex_complete_cluster : complete ex_cfg ex_root [s2l "-vq"] = [(s2l "-vq", [])].
Proof. vm_compute. reflexivity. Qed.

Example ex_complete_command : complete ex_cfg ex_root [s2l "a"] = [(s2l "add", s2l "Add an item")].
Proof. vm_compute. reflexivity. Qed.

Example ex_complete_value :
  complete ex_cfg ex_root [s2l "--color=al"] =
  [(s2l "--color=alpha", s2l "desc alpha"); (s2l "--color=alpine", s2l "desc alpine")].
Proof. vm_compute. reflexivity. Qed.

(* the right-hand side of C18_option_names_exact / hypothesis of C18_offered_long_is_accepted *)
Example ex_offered_long :
  In (s2l "--" ++ s2l "verbose", s2l "be chatty") (complete_option_names ex_lk (s2l "--") (s2l "ver") false) /\
  exists oc, find_last (lk_long ex_lk) (s2l "verbose") = Some oc /\
             has_prefix (s2l "verbose") (s2l "ver") = true /\ o_hidden (oc_opt oc) = false.
Proof. split; [vm_compute; auto|]. eexists. vm_compute. repeat split. Qed.

(* bare dash: unsorted, the longs come first, then the shorts that are not repeats;
   the hidden option and the short names v, x, c of listed long options are left out *)
Example ex_offered_dash :
  complete_option_names ex_lk (s2l "-") [] true =
  [(s2l "--verbose", s2l "be chatty"); (s2l "--version", s2l "show version");
   (s2l "--color", s2l "pick"); (s2l "-q", s2l "quiet")].
Proof. vm_compute. reflexivity. Qed.

(* hypothesis of C18_commands_exact's right-hand side / C18_values *)
Example ex_commands :
  complete_commands ex_root [] = [(s2l "add", s2l "Add an item"); (s2l "rm", s2l "Remove an item")].
Proof. vm_compute. reflexivity. Qed.

Example ex_values :
  vtype_completes (TScalar KComp) = true /\
  complete_value (TScalar KComp) (s2l "-c") (s2l "be") =
  [(s2l "-cbeta", s2l "desc beta"); (s2l "-cbe ta", s2l "desc be ta")].
Proof. vm_compute. split; reflexivity. Qed.

(* Target 8 cannot be stated for short = true without care: (a) with a non-empty m the
   single item is prefix ++ m whatever the tables contain; (b) a short option whose
   rune is '-' is offered as "--", which is s2l "--" ++ [] although no long option
   is named "".  Hence C18_offered_long_is_accepted is stated for long-name completion
   (short = false) and C18_offered_dash_is_accepted covers the bare dash. *)
Example ex_short_true_counterexample_a :
  let lk := {| lk_short := []; lk_long := []; lk_cmds := [] |} in
  In (s2l "--" ++ s2l "x", []) (complete_option_names lk (s2l "--") (s2l "x") true) /\
  find_last (lk_long lk) (s2l "x") = None.
Proof. vm_compute. auto. Qed.

Example ex_short_true_counterexample_b :
  let oc := {| oc_opt := ex_opt 45 [] (s2l "dash") false (TScalar KBool); oc_ns := []; oc_envns := [];
               oc_ghidden := false; oc_gshort := []; oc_builtin := false |} in
  let lk := {| lk_short := [([45], oc)]; lk_long := []; lk_cmds := [] |} in
  In (s2l "--" ++ [], s2l "dash") (complete_option_names lk (s2l "-") [] true) /\
  find_last (lk_long lk) [] = None.
Proof. vm_compute. auto. Qed.

Print Assumptions str_ltb_irrefl.
Print Assumptions str_ltb_trans.
Print Assumptions str_ltb_total.
Print Assumptions str_ltb_asym.
Print Assumptions str_ltb_strict_total_order.
Print Assumptions sort_by_sorted.
Print Assumptions sort_strs_sorted.
Print Assumptions sort_by_permutation_invariant_inj.
Print Assumptions C15_sort_permutation_invariant.
Print Assumptions C18_sorted.
Print Assumptions in_dedupe_last.
Print Assumptions C18_option_names_exact.
Print Assumptions C18_option_names_nodup.
Print Assumptions C18_short_names.
Print Assumptions C18_commands_exact.
Print Assumptions C18_offered_long_is_accepted.
Print Assumptions C18_offered_long_parse_long.
Print Assumptions C18_offered_dash_is_accepted.
Print Assumptions C18_values.
Print Assumptions C18_values_in.
