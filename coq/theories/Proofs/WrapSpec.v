(* Property C17: "help layout is well-formed" -- wrapText (Model/Help.v) and the
   padding computation of help_option.  Statements and proofs. *)
From Coq Require Import List Arith Lia ZifyN ZifyBool ZifyNat.
From GoFlags Require Import Base.Str Base.Utf8 Golib.Strings Golib.Strconv
     Model.Types Model.Scan Model.Lookup Model.State Model.Help Proofs.QuoteUtf8.
Import ListNotations.
Local Open Scope nat_scope.

(* ================================================================== list helpers *)
Lemma skipn_skipn' {A} (a b : nat) (l : list A) : skipn a (skipn b l) = skipn (b + a) l.
Proof.
  revert l; induction b as [|b IH]; intros l; [reflexivity|].
  destruct l as [|x l]; [now rewrite !skipn_nil|]. cbn [skipn plus]. apply IH.
Qed.

Lemma firstn_plus {A} (a b : nat) (l : list A) : firstn (a + b) l = firstn a l ++ firstn b (skipn a l).
Proof.
  revert l; induction a as [|a IH]; intros l; [reflexivity|].
  destruct l as [|x l]; [now rewrite !firstn_nil|]. cbn [firstn skipn plus app]. now rewrite IH.
Qed.

Lemma nth_error_skipn' {A} (n i : nat) (l : list A) : nth_error (skipn n l) i = nth_error l (n + i).
Proof.
  revert l; induction n as [|n IH]; intros l; [reflexivity|].
  destruct l as [|x l]; [now destruct i|]. cbn [skipn plus nth_error]. apply IH.
Qed.

Lemma nth_error_firstn' {A} (k p : nat) (l : list A) (x : A) :
  nth_error (firstn k l) p = Some x -> nth_error l p = Some x /\ p < k.
Proof.
  intros H. assert (Hp : p < length (firstn k l)) by (apply nth_error_Some; congruence).
  split; [|pose proof (firstn_le_length k l); lia].
  rewrite <- (firstn_skipn k l) at 1. rewrite nth_error_app1; assumption.
Qed.

Lemma Forall_firstn' {A} (P : A -> Prop) n (l : list A) : Forall P l -> Forall P (firstn n l).
Proof. intros H. rewrite <- (firstn_skipn n l) in H. now apply Forall_app in H. Qed.
Lemma Forall_skipn' {A} (P : A -> Prop) n (l : list A) : Forall P l -> Forall P (skipn n l).
Proof. intros H. rewrite <- (firstn_skipn n l) in H. now apply Forall_app in H. Qed.

Lemma skipn_last_one (s : str) m : length s = S m -> skipn m s = [nth m s 0%N].
Proof.
  revert m; induction s as [|x s IH]; intros m H; [discriminate|].
  destruct m as [|m]; cbn [length] in H.
  - destruct s; [reflexivity|discriminate].
  - cbn [skipn nth]. apply IH. lia.
Qed.

(* ================================================================== UTF-8: range_str *)
Definition shift (k : nat) (x : nat * N * nat) : nat * N * nat := (k + fst (fst x), snd (fst x), snd x).

Lemma shift_0 x : shift 0 x = x.
Proof. destruct x as [[a b] c]; reflexivity. Qed.
Lemma shift_shift a b x : shift a (shift b x) = shift (a + b) x.
Proof. destruct x as [[o r] w]; unfold shift; cbn. f_equal. f_equal. lia. Qed.
Lemma map_shift_0 l : map (shift 0) l = l.
Proof. rewrite (map_ext _ (fun x => x) shift_0). apply map_id. Qed.
Lemma map_shift_shift a b l : map (shift a) (map (shift b) l) = map (shift (a + b)) l.
Proof. rewrite map_map. apply map_ext. intros; apply shift_shift. Qed.

Lemma decode_w s r w : s <> [] -> decode_rune s = (r, w) -> 1 <= w <= length s.
Proof. intros Hs H. destruct (dec_width s r w (decode_dec _ _ _ H) Hs). lia. Qed.

Lemma range_fuel_shift n : forall off s, range_fuel n off s = map (shift off) (range_fuel n 0 s).
Proof.
  induction n as [|n IH]; intros off s; cbn [range_fuel]; [reflexivity|].
  destruct s as [|b t]; [reflexivity|]. destruct (decode_rune (b :: t)) as [r w].
  cbn [map]. unfold shift at 1. cbn [fst snd]. rewrite Nat.add_0_r. f_equal.
  rewrite (IH (off + w)), (IH (0 + w)), map_shift_shift. reflexivity.
Qed.

Lemma range_fuel_enough n : forall m off s, length s <= n -> length s <= m ->
  range_fuel n off s = range_fuel m off s.
Proof.
  induction n as [|n IH]; intros m off s Hn Hm.
  - destruct s; [|cbn in Hn; lia]. destruct m; reflexivity.
  - destruct s as [|b t]; [destruct m; reflexivity|].
    destruct m as [|m]; [cbn in Hm; lia|]. cbn [range_fuel].
    destruct (decode_rune (b :: t)) as [r w] eqn:E. f_equal.
    apply decode_w in E; [|discriminate].
    apply IH; rewrite skipn_length; cbn [length] in *; lia.
Qed.

Lemma range_str_nil : range_str [] = [].
Proof. reflexivity. Qed.

Lemma range_str_cons s r w : s <> [] -> decode_rune s = (r, w) ->
  range_str s = (0, r, w) :: map (shift w) (range_str (skipn w s)).
Proof.
  intros Hs E. unfold range_str. destruct s as [|b t]; [congruence|].
  cbn [length range_fuel]. rewrite E. f_equal. cbn [plus].
  rewrite range_fuel_shift. f_equal.
  apply decode_w in E; [|discriminate].
  apply range_fuel_enough; rewrite skipn_length; cbn [length] in *; lia.
Qed.

Lemma rune_count_nil : rune_count [] = 0.
Proof. reflexivity. Qed.
Lemma rune_count_cons s r w : s <> [] -> decode_rune s = (r, w) ->
  rune_count s = S (rune_count (skipn w s)).
Proof. intros Hs E. unfold rune_count. rewrite (range_str_cons s r w Hs E). cbn [length]. now rewrite map_length. Qed.

Lemma map_rune_shift k l : map (fun x : nat * N * nat => snd (fst x)) (map (shift k) l) = map (fun x => snd (fst x)) l.
Proof. rewrite map_map. apply map_ext. intros [[a b] c]; reflexivity. Qed.
Lemma map_width_shift k l : map (fun x : nat * N * nat => snd x) (map (shift k) l) = map (fun x => snd x) l.
Proof. rewrite map_map. apply map_ext. intros [[a b] c]; reflexivity. Qed.

Lemma runes_nil : runes [] = [].
Proof. reflexivity. Qed.
Lemma runes_cons s r w : s <> [] -> decode_rune s = (r, w) -> runes s = r :: runes (skipn w s).
Proof. intros Hs E. unfold runes. rewrite (range_str_cons s r w Hs E). cbn [map fst snd]. now rewrite map_rune_shift. Qed.

(* induction over a string rune by rune *)
Lemma str_rune_ind (P : str -> Prop) :
  P [] ->
  (forall s r w, s <> [] -> decode_rune s = (r, w) -> 1 <= w <= length s -> P (skipn w s) -> P s) ->
  forall s, P s.
Proof.
  intros H0 HS s. remember (length s) as n eqn:E.
  revert s E. induction n as [n IH] using lt_wf_ind. intros s E.
  destruct s as [|b t]; [exact H0|].
  destruct (decode_rune (b :: t)) as [r w] eqn:D.
  assert (Hne : b :: t <> []) by discriminate.
  pose proof (decode_w _ _ _ Hne D) as Hw.
  apply (HS _ r w); [exact Hne|exact D|exact Hw|].
  apply (IH (length (skipn w (b :: t)))); [rewrite skipn_length; lia|reflexivity].
Qed.

Lemma decode_ascii b t : (b < 128)%N -> decode_rune (b :: t) = (b, 1).
Proof. intros H. unfold decode_rune. destruct (N.ltb_spec b 128); [reflexivity|lia]. Qed.

(* ================================================================== rune boundaries *)
Inductive bnd : str -> nat -> Prop :=
| bnd_0 s : bnd s 0
| bnd_S s r w k : s <> [] -> decode_rune s = (r, w) -> bnd (skipn w s) k -> bnd s (w + k).

Lemma bnd_le s k : bnd s k -> k <= length s.
Proof.
  induction 1 as [|s r w k Hs E _ IH]; [lia|].
  apply decode_w in E; [|assumption]. rewrite skipn_length in IH. lia.
Qed.

Lemma bnd_len s : bnd s (length s).
Proof.
  induction s as [|s r w Hs E Hw IH] using str_rune_ind; [constructor|].
  rewrite skipn_length in IH. replace (length s) with (w + (length s - w)) by lia.
  econstructor; eassumption.
Qed.

Lemma bnd_trans s p q : bnd s p -> bnd (skipn p s) q -> bnd s (p + q).
Proof.
  induction 1 as [|s r w k Hs E _ IH]; intros Hq; [exact Hq|].
  rewrite <- Nat.add_assoc. econstructor; [eassumption..|].
  apply IH. now rewrite skipn_skipn'.
Qed.

(* a byte sequence that fails to decode keeps failing when the tail is truncated *)
Lemma decode_err_firstn b t j : (128 <= b)%N -> decode_rune (b :: t) = (rune_error, 1) ->
  decode_rune (b :: firstn j t) = (rune_error, 1).
Proof.
  intros Hb. destruct t as [|b1 [|b2 [|b3 t]]]; destruct j as [|[|[|j]]]; cbn [firstn];
  unfold decode_rune, is_cont, in_range; split_ifs; intros E;
  try reflexivity; try discriminate E; try (exfalso; lia).
Qed.

Lemma decode_firstn s r w k : s <> [] -> decode_rune s = (r, w) -> w <= k ->
  decode_rune (firstn k s) = (r, w).
Proof.
  intros Hs E Hk. pose proof (decode_dec _ _ _ E) as D.
  pose proof (decode_w _ _ _ Hs E) as Hw.
  destruct (Nat.eq_dec w 1) as [->|Hne].
  - destruct (dec_w1 _ _ _ D eq_refl) as (b & t & -> & [[Hb ->]|[Hb ->]]);
    destruct k as [|k]; try lia; cbn [firstn].
    + now apply decode_ascii.
    + now apply decode_err_firstn.
  - replace k with (w + (k - w)) by lia. rewrite firstn_plus.
    apply dec_prefix; [exact D|lia].
Qed.

Lemma bnd_split s k : bnd s k ->
  range_str s = range_str (firstn k s) ++ map (shift k) (range_str (skipn k s)).
Proof.
  induction 1 as [s|s r w k Hs E _ IH].
  - cbn [firstn skipn]. rewrite range_str_nil, map_shift_0. reflexivity.
  - pose proof (decode_w _ _ _ Hs E) as Hw.
    rewrite (range_str_cons s r w Hs E).
    assert (E' : decode_rune (firstn (w + k) s) = (r, w)) by (apply decode_firstn; [assumption..|lia]).
    assert (Hne : firstn (w + k) s <> []).
    { intros C. apply (f_equal (@length _)) in C. rewrite firstn_length in C. cbn in C.
      destruct s; [congruence|cbn [length] in *; lia]. }
    rewrite (range_str_cons _ r w Hne E').
    rewrite skipn_firstn_comm. replace (w + k - w) with k by lia.
    rewrite IH at 1. rewrite map_app, map_shift_shift, skipn_skipn'. reflexivity.
Qed.

Lemma bnd_rune_count s k : bnd s k -> rune_count s = rune_count (firstn k s) + rune_count (skipn k s).
Proof. intros H. unfold rune_count. rewrite (bnd_split s k H) at 1. now rewrite app_length, map_length. Qed.

Lemma bnd_runes s k : bnd s k -> runes s = runes (firstn k s) ++ runes (skipn k s).
Proof. intros H. unfold runes. rewrite (bnd_split s k H) at 1. now rewrite map_app, map_rune_shift. Qed.

Definition rune_ok (x : nat * N * nat) : bool := negb (N.eqb (snd (fst x)) rune_error && Nat.eqb (snd x) 1).
Lemma valid_utf8_eq s : valid_utf8 s = forallb rune_ok (range_str s).
Proof. reflexivity. Qed.
Lemma forallb_rune_ok_shift k l : forallb rune_ok (map (shift k) l) = forallb rune_ok l.
Proof. induction l as [|[[a b] c] l IH]; [reflexivity|]. cbn [map forallb]. now rewrite IH. Qed.

Lemma bnd_valid s k : bnd s k -> valid_utf8 s = (valid_utf8 (firstn k s) && valid_utf8 (skipn k s))%bool.
Proof. intros H. rewrite !valid_utf8_eq. rewrite (bnd_split s k H) at 1. now rewrite forallb_app, forallb_rune_ok_shift. Qed.

(* continuation bytes of a decoded rune *)
Definition noncont (x : N) : Prop := ~ (128 <= x <= 191)%N.

Lemma dec_cont s r w : dec s r w -> forall i, 1 <= i < w ->
  exists y, nth_error s i = Some y /\ (128 <= y <= 191)%N.
Proof.
  destruct 1; intros i Hi; try lia;
  (destruct i as [|[|[|[|i]]]]; try lia; cbn [nth_error]; eexists; (split; [reflexivity|lia])).
Qed.

(* every byte that is not a continuation byte starts a rune *)
Lemma bnd_noncont s : forall p x, nth_error s p = Some x -> noncont x -> bnd s p.
Proof.
  pattern s; revert s; apply str_rune_ind; [|intros s r w Hs E Hw IH]; intros p x Hp Hx.
  - destruct p; discriminate.
  - destruct (Nat.eq_dec p 0) as [->|Hp0]; [constructor|].
    assert (Hwp : w <= p).
    { destruct (le_lt_dec w p) as [|Hlt]; [assumption|exfalso].
      destruct (dec_cont _ _ _ (decode_dec _ _ _ E) p ltac:(lia)) as (y & Hy & Hr).
      rewrite Hy in Hp. injection Hp as ->. apply Hx. exact Hr. }
    replace p with (w + (p - w)) by lia. econstructor; [eassumption..|].
    apply (IH _ x); [|assumption]. rewrite nth_error_skipn'. now replace (w + (p - w)) with p by lia.
Qed.

(* the position after an ASCII byte starts a rune *)
Lemma bnd_after_ascii s p x : nth_error s p = Some x -> (x < 128)%N -> bnd s (S p).
Proof.
  intros Hp Hx. replace (S p) with (p + 1) by lia. apply bnd_trans.
  - apply (bnd_noncont s p x Hp). unfold noncont; lia.
  - assert (Hs : skipn p s = x :: skipn (S p) s).
    { destruct (nth_error_split _ _ Hp) as (l1 & l2 & -> & <-).
      rewrite !skipn_app. rewrite (skipn_all2 (n := length l1)), (skipn_all2 (n := S (length l1))) by lia.
      replace (length l1 - length l1) with 0 by lia. replace (S (length l1) - length l1) with 1 by lia.
      reflexivity. }
    rewrite Hs. replace 1 with (1 + 0) by lia. apply (bnd_S _ x 1 0); [discriminate| |constructor].
    now apply decode_ascii.
Qed.

Lemma bnd_app_noncont a x b : noncont x -> bnd (a ++ x :: b) (length a).
Proof.
  intros Hx. apply (bnd_noncont _ _ x); [|assumption].
  rewrite nth_error_app2 by lia. now replace (length a - length a) with 0 by lia.
Qed.

Lemma firstn_app_len {A} (a b : list A) : firstn (length a) (a ++ b) = a.
Proof. rewrite firstn_app, firstn_all, Nat.sub_diag. cbn. apply app_nil_r. Qed.
Lemma skipn_app_len {A} (a b : list A) : skipn (length a) (a ++ b) = b.
Proof. rewrite skipn_app, skipn_all, Nat.sub_diag. reflexivity. Qed.

Lemma bnd_app_runes a b : bnd (a ++ b) (length a) -> runes (a ++ b) = runes a ++ runes b.
Proof. intros H. rewrite (bnd_runes _ _ H), firstn_app_len, skipn_app_len. reflexivity. Qed.
Lemma bnd_app_rune_count a b : bnd (a ++ b) (length a) -> rune_count (a ++ b) = rune_count a + rune_count b.
Proof. intros H. rewrite (bnd_rune_count _ _ H), firstn_app_len, skipn_app_len. reflexivity. Qed.

Lemma runes_app_noncont a x b : noncont x -> runes (a ++ x :: b) = runes a ++ runes (x :: b).
Proof. intros H. apply bnd_app_runes. now apply bnd_app_noncont. Qed.
Lemma rune_count_app_noncont a x b : noncont x -> rune_count (a ++ x :: b) = rune_count a + rune_count (x :: b).
Proof. intros H. apply bnd_app_rune_count. now apply bnd_app_noncont. Qed.

Lemma runes_ascii_cons x s : (x < 128)%N -> runes (x :: s) = x :: runes s.
Proof. intros H. now rewrite (runes_cons (x :: s) x 1 ltac:(discriminate) (decode_ascii _ _ H)). Qed.
Lemma rune_count_ascii_cons x s : (x < 128)%N -> rune_count (x :: s) = S (rune_count s).
Proof. intros H. now rewrite (rune_count_cons (x :: s) x 1 ltac:(discriminate) (decode_ascii _ _ H)). Qed.

(* ================================================================== rune_offset *)
Lemma rune_offset_nil n : rune_offset [] n = 0.
Proof. unfold rune_offset. rewrite range_str_nil. now destruct n. Qed.

Lemma rune_offset_0 s : rune_offset s 0 = 0.
Proof.
  destruct s as [|b t]; [apply rune_offset_nil|].
  destruct (decode_rune (b :: t)) as [r w] eqn:E. unfold rune_offset.
  now rewrite (range_str_cons (b :: t) r w ltac:(discriminate) E).
Qed.

Lemma rune_offset_S s r w n : s <> [] -> decode_rune s = (r, w) ->
  rune_offset s (S n) = w + rune_offset (skipn w s) n.
Proof.
  intros Hs E. pose proof (decode_w _ _ _ Hs E) as Hw. unfold rune_offset.
  rewrite (range_str_cons s r w Hs E). cbn [nth_error]. rewrite nth_error_map.
  destruct (nth_error (range_str (skipn w s)) n) as [[[o r'] w']|]; cbn [option_map shift fst snd].
  - reflexivity.
  - rewrite skipn_length. lia.
Qed.

Lemma rune_offset_bnd n : forall s, bnd s (rune_offset s n).
Proof.
  induction n as [|n IH]; intros s.
  - rewrite rune_offset_0. constructor.
  - destruct s as [|b t]; [rewrite rune_offset_nil; constructor|].
    destruct (decode_rune (b :: t)) as [r w] eqn:E.
    rewrite (rune_offset_S (b :: t) r w n ltac:(discriminate) E).
    econstructor; [discriminate|exact E|apply IH].
Qed.

Lemma rune_offset_le s n : rune_offset s n <= length s.
Proof. apply bnd_le, rune_offset_bnd. Qed.

Lemma rune_offset_firstn n : forall s,
  range_str (firstn (rune_offset s n) s) = firstn n (range_str s).
Proof.
  induction n as [|n IH]; intros s.
  - rewrite rune_offset_0. reflexivity.
  - destruct s as [|b t]; [rewrite rune_offset_nil; reflexivity|].
    destruct (decode_rune (b :: t)) as [r w] eqn:E.
    assert (Hs : b :: t <> []) by discriminate. set (s := b :: t) in *.
    pose proof (decode_w _ _ _ Hs E) as Hw.
    rewrite (rune_offset_S _ r w n Hs E).
    assert (E' : decode_rune (firstn (w + rune_offset (skipn w s) n) s) = (r, w))
      by (apply decode_firstn; [assumption..|lia]).
    assert (Hne : firstn (w + rune_offset (skipn w s) n) s <> []).
    { intros C. apply (f_equal (@length _)) in C. rewrite firstn_length in C. subst s. cbn [length] in *. lia. }
    rewrite (range_str_cons _ r w Hne E'), (range_str_cons s r w Hs E).
    cbn [firstn]. f_equal. rewrite firstn_map. f_equal.
    rewrite skipn_firstn_comm.
    replace (w + rune_offset (skipn w s) n - w) with (rune_offset (skipn w s) n) by lia.
    apply IH.
Qed.

Lemma rune_offset_skipn n s :
  map (shift (rune_offset s n)) (range_str (skipn (rune_offset s n) s)) = skipn n (range_str s).
Proof.
  pose proof (bnd_split s _ (rune_offset_bnd n s)) as H.
  rewrite rune_offset_firstn in H.
  rewrite <- (firstn_skipn n (range_str s)) in H at 1.
  apply app_inv_head in H. now symmetry.
Qed.

Lemma rune_offset_sum n : forall s,
  rune_offset s n = list_sum (map (fun x : nat * N * nat => snd x) (firstn n (range_str s))).
Proof.
  induction n as [|n IH]; intros s.
  - now rewrite rune_offset_0.
  - destruct s as [|b t]; [rewrite rune_offset_nil; reflexivity|].
    destruct (decode_rune (b :: t)) as [r w] eqn:E.
    assert (Hs : b :: t <> []) by discriminate.
    rewrite (rune_offset_S _ r w n Hs E), (range_str_cons _ r w Hs E).
    cbn [firstn map snd]. change (list_sum (w :: ?l)) with (w + list_sum l).
    rewrite firstn_map, map_width_shift, <- IH. reflexivity.
Qed.

Lemma rune_count_firstn_offset s n : rune_count (firstn (rune_offset s n) s) = Nat.min n (rune_count s).
Proof. unfold rune_count. rewrite rune_offset_firstn. apply firstn_length. Qed.

(* ================================================================== is_space, trim_space *)
Lemma is_space_error : is_space rune_error = false.
Proof. vm_compute. reflexivity. Qed.

Lemma is_space_ascii_eq b : (b < 128)%N -> is_space b = is_space_ascii b.
Proof.
  intros H. unfold is_space, is_space_ascii, Tables.isspace_runes. cbn [existsb]. lia.
Qed.

Lemma is_space_32 : is_space 32 = true.
Proof. vm_compute. reflexivity. Qed.

(* trim_left: induction principle *)
Lemma trim_left_fuel_ind (P : str -> str -> Prop) :
  (forall s, P s s) ->
  (forall s r w s', s <> [] -> decode_rune s = (r, w) -> is_space r = true -> P (skipn w s) s' -> P s s') ->
  forall f s, P s (trim_left_fuel f s).
Proof.
  intros H0 HS. induction f as [|f IH]; intros s; cbn [trim_left_fuel]; [apply H0|].
  destruct s as [|b t]; [apply H0|].
  destruct (decode_rune (b :: t)) as [r w] eqn:E.
  destruct (is_space r) eqn:Sp; [|apply H0].
  apply (HS _ r w); [discriminate|assumption..|apply IH].
Qed.

(* decode_last, as far as trimming is concerned *)
Lemma decode_last_spec s r w : s <> [] -> decode_last s = (r, w) -> r <> rune_error ->
  1 <= w <= length s /\ decode_rune (skipn (length s - w) s) = (r, w).
Proof.
  intros Hs. unfold decode_last. destruct (length s) as [|m] eqn:L.
  { destruct s; [congruence|discriminate]. }
  destruct (N.ltb_spec (nth m s 0%N) 128) as [Hb|Hb].
  - intros [= <- <-] _. split; [lia|]. replace (S m - 1) with m by lia.
    rewrite (skipn_last_one s m L). now apply decode_ascii.
  - cbv zeta.
    match goal with |- context [decode_rune (skipn ?st s)] => generalize st end.
    intros st. destruct (decode_rune (skipn st s)) as [r' sz] eqn:D.
    destruct (Nat.eqb_spec (st + sz) (S m)) as [Hst|Hst]; intros [= <- <-] Hr; [|congruence].
    assert (Hne : skipn st s <> []).
    { intros C. rewrite C in D. cbn in D. congruence. }
    pose proof (decode_w _ _ _ Hne D) as Hw.
    replace (S m - sz) with st by lia. split; [lia|assumption].
Qed.

Lemma trim_right_fuel_ind (P : str -> str -> Prop) :
  (forall s, P s s) ->
  (forall s r w s', s <> [] -> 1 <= w <= length s -> decode_rune (skipn (length s - w) s) = (r, w) ->
                    is_space r = true -> P (firstn (length s - w) s) s' -> P s s') ->
  forall f s, P s (trim_right_fuel f s).
Proof.
  intros H0 HS. induction f as [|f IH]; intros s; cbn [trim_right_fuel]; [apply H0|].
  destruct s as [|b t]; [apply H0|].
  destruct (decode_last (b :: t)) as [r w] eqn:E.
  destruct (is_space r) eqn:Sp; [|apply H0].
  assert (Hr : r <> rune_error) by (intros ->; rewrite is_space_error in Sp; discriminate).
  destruct (decode_last_spec (b :: t) _ _ ltac:(discriminate) E Hr) as [Hw D].
  apply (HS _ r w); [discriminate|assumption..|apply IH].
Qed.

(* the position of the last rune found by decode_last is a rune boundary *)
Lemma last_rune_bnd s r w : 1 <= w <= length s -> decode_rune (skipn (length s - w) s) = (r, w) ->
  r <> rune_error -> bnd s (length s - w).
Proof.
  intros Hw D Hr. pose proof (decode_dec _ _ _ D) as Dd.
  assert (exists x, nth_error s (length s - w) = Some x /\ noncont x) as (x & Hx & Hn).
  { rewrite <- (Nat.add_0_r (length s - w)), <- nth_error_skipn'.
    inversion Dd; subst; cbn [nth_error]; try congruence;
      (eexists; split; [reflexivity|unfold noncont; lia]). }
  exact (bnd_noncont _ _ _ Hx Hn).
Qed.

Lemma length_trim_left_fuel f s : length (trim_left_fuel f s) <= length s.
Proof.
  apply (trim_left_fuel_ind (fun s s' => length s' <= length s)); [lia|].
  intros s0 r w s' _ _ _. rewrite skipn_length. lia.
Qed.
Lemma length_trim_right_fuel f s : length (trim_right_fuel f s) <= length s.
Proof.
  apply (trim_right_fuel_ind (fun s s' => length s' <= length s)); [lia|].
  intros s0 r w s' _ _ _ _. rewrite firstn_length. lia.
Qed.
Lemma length_trim_space s : length (trim_space s) <= length s.
Proof.
  unfold trim_space, trim_right, trim_left.
  etransitivity; [apply length_trim_right_fuel|apply length_trim_left_fuel].
Qed.

Lemma rune_count_trim_left_fuel f s : rune_count (trim_left_fuel f s) <= rune_count s.
Proof.
  apply (trim_left_fuel_ind (fun s s' => rune_count s' <= rune_count s)); [lia|].
  intros s0 r w s' Hs E _ IH. rewrite (rune_count_cons s0 r w Hs E). lia.
Qed.
Lemma rune_count_trim_right_fuel f s : rune_count (trim_right_fuel f s) <= rune_count s.
Proof.
  apply (trim_right_fuel_ind (fun s s' => rune_count s' <= rune_count s)); [lia|].
  intros s0 r w s' Hs Hw D Sp IH.
  assert (Hr : r <> rune_error) by (intros ->; rewrite is_space_error in Sp; discriminate).
  rewrite (bnd_rune_count s0 _ (last_rune_bnd _ _ _ Hw D Hr)). lia.
Qed.
Lemma rune_count_trim_space s : rune_count (trim_space s) <= rune_count s.
Proof.
  unfold trim_space, trim_right, trim_left.
  etransitivity; [apply rune_count_trim_right_fuel|apply rune_count_trim_left_fuel].
Qed.

(* trim_space cuts out a sub-string *)
Lemma trim_left_fuel_skipn f s : exists k, trim_left_fuel f s = skipn k s.
Proof.
  apply (trim_left_fuel_ind (fun s s' => exists k, s' = skipn k s)); [now exists 0|].
  intros s0 r w s' _ _ _ [k ->]. exists (w + k). apply skipn_skipn'.
Qed.
Lemma trim_right_fuel_firstn f s : exists k, trim_right_fuel f s = firstn k s.
Proof.
  apply (trim_right_fuel_ind (fun s s' => exists k, s' = firstn k s)).
  - intros s0. exists (length s0). now rewrite firstn_all.
  - intros s0 r w s' _ _ _ _ [k ->]. rewrite firstn_firstn. eauto.
Qed.
Lemma trim_space_sub s : exists a b, trim_space s = firstn a (skipn b s).
Proof.
  unfold trim_space, trim_right, trim_left.
  destruct (trim_left_fuel_skipn (length s) s) as [b ->].
  destruct (trim_right_fuel_firstn (length (skipn b s)) (skipn b s)) as [a ->]. eauto.
Qed.

(* ================================================================== last_index_byte *)
Lemma last_index_byte_aux_spec s c : forall i acc p, last_index_byte_aux s c i acc = Some p ->
  acc = Some p \/ (i <= p /\ nth_error s (p - i) = Some c).
Proof.
  induction s as [|x s IH]; intros i acc p H; cbn [last_index_byte_aux] in H; [now left|].
  apply IH in H. destruct H as [H|[Hi Hn]].
  - destruct (N.eqb_spec x c) as [->|]; [|now left].
    injection H as <-. right. split; [lia|]. now rewrite Nat.sub_diag.
  - right. split; [lia|]. replace (p - i) with (S (p - S i)) by lia. exact Hn.
Qed.
Lemma last_index_byte_spec s c p : last_index_byte s c = Some p -> nth_error s p = Some c.
Proof.
  intros H. apply last_index_byte_aux_spec in H. destruct H as [H|[_ H]]; [discriminate|].
  now rewrite Nat.sub_0_r in H.
Qed.

(* ================================================================== wrap_line: one iteration *)
(* where the line is cut, and what is appended to the emitted piece *)
Definition wrap_cut (line : str) (l : nat) : nat * str :=
  match last_index_byte (firstn (rune_offset line l) line) 32 with
  | Some p => (p, [])
  | None => (rune_offset line (l - 1), [45; 10]%N)
  end.

(* retline ++ "\n" ++ prefix ++ piece, or just the piece when nothing was emitted yet *)
Definition glue (prefix acc piece : str) : str :=
  (if nonempty acc then acc ++ [10%N] ++ prefix else acc) ++ piece.

Lemma wrap_line_fuel_0 line l prefix acc : wrap_line_fuel 0 line l prefix acc = acc.
Proof. reflexivity. Qed.

Lemma wrap_line_fuel_S f line l prefix acc :
  wrap_line_fuel (S f) line l prefix acc =
  if Nat.ltb l (rune_count line) then
    wrap_line_fuel f (trim_space (skipn (fst (wrap_cut line l)) line)) l prefix
      (glue prefix acc (trim_space (firstn (fst (wrap_cut line l)) line) ++ snd (wrap_cut line l)))
  else match line with [] => acc | _ => glue prefix acc line end.
Proof.
  cbn [wrap_line_fuel]. unfold wrap_cut, glue.
  destruct (Nat.ltb l (rune_count line)); [|reflexivity].
  destruct (last_index_byte (firstn (rune_offset line l) line) 32); reflexivity.
Qed.

Lemma rune_count_pos s : s <> [] -> 1 <= rune_count s.
Proof.
  intros Hs. destruct (decode_rune s) as [r w] eqn:E. rewrite (rune_count_cons s r w Hs E). lia.
Qed.

Lemma rune_offset_pos s n : s <> [] -> 1 <= rune_offset s (S n).
Proof.
  intros Hs. destruct (decode_rune s) as [r w] eqn:E.
  rewrite (rune_offset_S s r w n Hs E). pose proof (decode_w _ _ _ Hs E). lia.
Qed.

(* the cut position: either a space within the first l characters, or (no such space)
   the offset of character l-1; in both cases a character boundary *)
Lemma wrap_cut_spec line l :
  (exists p, wrap_cut line l = (p, []) /\ nth_error line p = Some 32%N /\ p < rune_offset line l) \/
  (wrap_cut line l = (rune_offset line (l - 1), [45; 10]%N)).
Proof.
  unfold wrap_cut. destruct (last_index_byte _ 32) as [p|] eqn:E; [left|now right].
  apply last_index_byte_spec, nth_error_firstn' in E. exists p. tauto.
Qed.

Lemma wrap_cut_bnd line l : bnd line (fst (wrap_cut line l)).
Proof.
  destruct (wrap_cut_spec line l) as [(p & -> & Hp & _)| ->]; cbn [fst].
  - apply (bnd_noncont _ _ _ Hp). unfold noncont; lia.
  - apply rune_offset_bnd.
Qed.

Lemma trim_space_space_head t : length (trim_space (32%N :: t)) <= length t.
Proof.
  unfold trim_space, trim_right. etransitivity; [apply length_trim_right_fuel|].
  unfold trim_left. cbn [length trim_left_fuel].
  rewrite (decode_ascii 32 t) by lia. rewrite is_space_32. cbn [skipn].
  apply length_trim_left_fuel.
Qed.

(* each wrapping iteration strictly shortens the line *)
Lemma wrap_step_shortens line l : 2 <= l -> l < rune_count line ->
  length (trim_space (skipn (fst (wrap_cut line l)) line)) < length line.
Proof.
  intros Hl Hc.
  assert (Hne : line <> []) by (intros ->; rewrite rune_count_nil in Hc; lia).
  destruct (wrap_cut_spec line l) as [(p & -> & Hp & _)| ->]; cbn [fst].
  - destruct p as [|p].
    + destruct line as [|x t]; [congruence|]. cbn in Hp. injection Hp as ->.
      cbn [skipn length]. pose proof (trim_space_space_head t). lia.
    + pose proof (length_trim_space (skipn (S p) line)) as H. rewrite skipn_length in H.
      assert (S p < length line) by (apply nth_error_Some; congruence). lia.
  - pose proof (length_trim_space (skipn (rune_offset line (l - 1)) line)) as H.
    rewrite skipn_length in H. replace (l - 1) with (S (l - 2)) in * by lia.
    pose proof (rune_offset_pos line (l - 2) Hne).
    destruct line; [congruence|cbn [length] in *; lia].
Qed.

(* fuel independence *)
Lemma wrap_line_fuel_indep l prefix : 2 <= l -> forall f1 f2 line acc,
  length line < f1 -> length line < f2 ->
  wrap_line_fuel f1 line l prefix acc = wrap_line_fuel f2 line l prefix acc.
Proof.
  intros Hl. induction f1 as [|f1 IH]; intros f2 line acc H1 H2; [lia|].
  destruct f2 as [|f2]; [lia|]. rewrite !wrap_line_fuel_S.
  destruct (Nat.ltb_spec l (rune_count line)) as [Hc|Hc]; [|reflexivity].
  pose proof (wrap_step_shortens line l Hl Hc). apply IH; lia.
Qed.

(* ------------------------------------------------------------------ TARGET 1 *)
Theorem C17_wrap_step_shortens : forall line l, 2 <= l -> l < rune_count line ->
  length (trim_space (skipn (fst (wrap_cut line l)) line)) < length line.
Proof. exact wrap_step_shortens. Qed.

Theorem C17_wrap_fuel : forall line l prefix acc k, 2 <= l ->
  wrap_line_fuel (S (length line) + k) line l prefix acc =
  wrap_line_fuel (S (length line)) line l prefix acc.
Proof. intros. apply wrap_line_fuel_indep; [assumption|lia..]. Qed.

(* the same loop with an explicit "out of fuel" result never runs out *)
Fixpoint wrap_line_opt (fuel : nat) (line : str) (l : nat) (prefix : str) (retline : str) : option str :=
  match fuel with
  | O => None
  | S f =>
    if Nat.ltb l (rune_count line) then
      let '(pos, suffix) :=
          match last_index_byte (firstn (rune_offset line l) line) 32 with
          | Some p => (p, [])
          | None => (rune_offset line (l - 1), [45; 10]%N)
          end in
      let retline := (if nonempty retline then retline ++ [10%N] ++ prefix else retline)
                     ++ trim_space (firstn pos line) ++ suffix in
      wrap_line_opt f (trim_space (skipn pos line)) l prefix retline
    else
      Some match line with
           | [] => retline
           | _ => (if nonempty retline then retline ++ [10%N] ++ prefix else retline) ++ line
           end
  end.

Theorem C17_wrap_fuel_never_exhausted : forall l prefix, 2 <= l -> forall fuel line acc,
  length line < fuel ->
  wrap_line_opt fuel line l prefix acc = Some (wrap_line_fuel fuel line l prefix acc).
Proof.
  intros l prefix Hl. induction fuel as [|f IH]; intros line acc Hf; [lia|].
  rewrite wrap_line_fuel_S. cbn [wrap_line_opt].
  destruct (Nat.ltb_spec l (rune_count line)) as [Hc|Hc].
  - pose proof (wrap_step_shortens line l Hl Hc) as Hs. unfold wrap_cut in *.
    destruct (last_index_byte (firstn (rune_offset line l) line) 32); cbn [fst snd] in *;
      (rewrite IH by lia); reflexivity.
  - destruct line; reflexivity.
Qed.

(* the hypothesis 2 <= l cannot be dropped: with l = 0 the loop makes no progress and the
   result depends on the fuel (wrap_text never calls it with l < 10) *)
Example wrap_fuel_needs_l :
  wrap_line_fuel 3 [97; 98]%N 0 [] [] <> wrap_line_fuel 4 [97; 98]%N 0 [] [].
Proof. vm_compute. discriminate. Qed.
Example wrap_fuel_needs_l1 :
  wrap_line_fuel 3 [97; 98]%N 1 [] [] <> wrap_line_fuel 4 [97; 98]%N 1 [] [].
Proof. vm_compute. discriminate. Qed.

(* ------------------------------------------------------------------ TARGET 4 *)
(* rune_offset line n is the sum of the widths of the first n characters (all of them when
   the line has fewer), so cutting there never splits a character: the decoding of the line
   is the decoding of the left part followed by the (shifted) decoding of the right part *)
Theorem C17_wrap_utf8_safe : forall line n,
  let off := rune_offset line n in
  off = list_sum (map (fun x : nat * N * nat => snd x) (firstn n (range_str line))) /\
  (exists k, k <= rune_count line /\
             off = list_sum (map (fun x : nat * N * nat => snd x) (firstn k (range_str line)))) /\
  off <= length line /\
  range_str (firstn off line) = firstn n (range_str line) /\
  map (shift off) (range_str (skipn off line)) = skipn n (range_str line) /\
  runes line = runes (firstn off line) ++ runes (skipn off line) /\
  rune_count (firstn off line) = Nat.min n (rune_count line) /\
  valid_utf8 line = (valid_utf8 (firstn off line) && valid_utf8 (skipn off line))%bool /\
  (valid_utf8 line = true ->
   valid_utf8 (firstn off line) = true /\ valid_utf8 (skipn off line) = true).
Proof.
  intros line n off. subst off.
  pose proof (rune_offset_bnd n line) as B.
  split; [apply rune_offset_sum|].
  split.
  { exists (Nat.min n (rune_count line)). split; [lia|].
    rewrite rune_offset_sum. unfold rune_count.
    destruct (le_lt_dec n (length (range_str line))).
    - now rewrite Nat.min_l.
    - rewrite Nat.min_r by lia. now rewrite !firstn_all2 by lia. }
  split; [apply rune_offset_le|].
  split; [apply rune_offset_firstn|].
  split; [apply rune_offset_skipn|].
  split; [now apply bnd_runes|].
  split; [apply rune_count_firstn_offset|].
  split; [now apply bnd_valid|].
  intros V. rewrite (bnd_valid _ _ B) in V. now apply andb_true_iff in V.
Qed.

(* the same for the positions at which wrap_line really cuts (a space, or rune_offset (l-1)) *)
Theorem C17_wrap_cut_utf8_safe : forall line l,
  let pos := fst (wrap_cut line l) in
  pos <= length line /\
  range_str line = range_str (firstn pos line) ++ map (shift pos) (range_str (skipn pos line)) /\
  runes line = runes (firstn pos line) ++ runes (skipn pos line) /\
  (valid_utf8 line = true ->
   valid_utf8 (firstn pos line) = true /\ valid_utf8 (skipn pos line) = true).
Proof.
  intros line l pos. pose proof (wrap_cut_bnd line l) as B. fold pos in B.
  split; [now apply bnd_le|]. split; [now apply bnd_split|]. split; [now apply bnd_runes|].
  intros V. rewrite (bnd_valid _ _ B) in V. now apply andb_true_iff in V.
Qed.

Example utf8_safe_instance :
  let line := [226; 130; 172; 97; 195; 169; 98]%N in   (* "€aéb" *)
  valid_utf8 line = true /\ rune_offset line 1 = 3 /\ rune_offset line 3 = 6 /\ rune_offset line 9 = 7.
Proof. vm_compute. repeat split. Qed.

(* ================================================================== TARGET 2: widths *)
Fixpoint wrap_pieces (fuel : nat) (line : str) (l : nat) : list str :=
  match fuel with
  | O => []
  | S f =>
    if Nat.ltb l (rune_count line) then
      (trim_space (firstn (fst (wrap_cut line l)) line) ++ snd (wrap_cut line l))
        :: wrap_pieces f (trim_space (skipn (fst (wrap_cut line l)) line)) l
    else match line with [] => [] | _ => [line] end
  end.

Lemma wrap_line_fuel_pieces l prefix : forall f line acc,
  wrap_line_fuel f line l prefix acc = fold_left (glue prefix) (wrap_pieces f line l) acc.
Proof.
  induction f as [|f IH]; intros line acc; [reflexivity|].
  rewrite wrap_line_fuel_S. cbn [wrap_pieces].
  destruct (Nat.ltb l (rune_count line)).
  - cbn [fold_left]. apply IH.
  - destruct line; reflexivity.
Qed.

(* an emitted piece: at most l characters; a hard-broken piece is body ++ "-" ++ "\n" where
   body ++ "-" has at most l characters (the "\n" makes the following separator produce an
   empty output line, as in the Go code) *)
Definition piece_ok (l : nat) (p : str) : Prop :=
  rune_count p <= l \/
  exists body, p = body ++ [45; 10]%N /\ rune_count body <= l - 1 /\ rune_count (body ++ [45%N]) <= l.

Lemma rune_count_app_hyphen body : rune_count (body ++ [45%N]) = S (rune_count body).
Proof.
  rewrite rune_count_app_noncont by (unfold noncont; lia).
  rewrite rune_count_ascii_cons by lia. rewrite rune_count_nil. lia.
Qed.

Lemma wrap_piece_ok line l : 1 <= l -> l < rune_count line ->
  piece_ok l (trim_space (firstn (fst (wrap_cut line l)) line) ++ snd (wrap_cut line l)).
Proof.
  intros Hl Hc. destruct (wrap_cut_spec line l) as [(p & -> & Hp & Hlt)| ->]; cbn [fst snd].
  - left. rewrite app_nil_r. etransitivity; [apply rune_count_trim_space|].
    (* firstn p line is a prefix, at a boundary, of the first l characters *)
    set (x := firstn (rune_offset line l) line).
    assert (Hx : firstn p line = firstn p x).
    { unfold x. rewrite firstn_firstn. now replace (Nat.min p (rune_offset line l)) with p by lia. }
    assert (Hpx : nth_error x p = Some 32%N).
    { unfold x. rewrite <- (firstn_skipn (rune_offset line l) line) in Hp.
      rewrite nth_error_app1 in Hp; [assumption|].
      rewrite firstn_length. pose proof (rune_offset_le line l). lia. }
    assert (B : bnd x p) by (apply (bnd_noncont _ _ _ Hpx); unfold noncont; lia).
    rewrite Hx. pose proof (bnd_rune_count x p B) as Hr.
    unfold x in Hr at 1. rewrite rune_count_firstn_offset in Hr. lia.
  - right. eexists. split; [reflexivity|].
    assert (Hb : rune_count (trim_space (firstn (rune_offset line (l - 1)) line)) <= l - 1).
    { etransitivity; [apply rune_count_trim_space|]. rewrite rune_count_firstn_offset. lia. }
    split; [exact Hb|]. rewrite rune_count_app_hyphen. lia.
Qed.

Lemma wrap_pieces_ok l : 1 <= l -> forall f line, Forall (piece_ok l) (wrap_pieces f line l).
Proof.
  intros Hl. induction f as [|f IH]; intros line; cbn [wrap_pieces]; [constructor|].
  destruct (Nat.ltb_spec l (rune_count line)) as [Hc|Hc].
  - constructor; [now apply wrap_piece_ok|apply IH].
  - destruct line as [|b t]; [constructor|]. constructor; [|constructor]. now left.
Qed.

(* when all pieces are non-empty the folding with glue is a plain join *)
Lemma fold_glue_join prefix : forall ps acc, Forall (fun p => p <> []) ps -> acc <> [] ->
  fold_left (glue prefix) ps acc = join (acc :: ps) ([10%N] ++ prefix).
Proof.
  induction ps as [|p ps IH]; intros acc Hps Hacc; [reflexivity|].
  inversion Hps as [|? ? Hp Hps']; subst. cbn [fold_left].
  rewrite IH; [|assumption|].
  - unfold glue. destruct acc as [|a acc]; [congruence|]. cbn [nonempty].
    cbn [join]. destruct ps; cbn [join]; rewrite <- ?app_assoc; reflexivity.
  - unfold glue. destruct acc; [congruence|]. discriminate.
Qed.

Lemma fold_glue_join_nil prefix ps : Forall (fun p => p <> []) ps ->
  fold_left (glue prefix) ps [] = join ps ([10%N] ++ prefix).
Proof.
  destruct ps as [|p ps]; [reflexivity|]. intros H. inversion H; subst. cbn [fold_left].
  change (glue prefix [] p) with p. now apply fold_glue_join.
Qed.

(* ---- the emitted pieces are never empty (for a line that went through trim_space) *)
(* "head not space": the string is non-empty and its first character is not white space *)
Definition hns (s : str) : Prop := s <> [] /\ is_space (fst (decode_rune s)) = false.
Definition trimmed (s : str) : Prop := s = [] \/ hns s.

Lemma trim_left_fuel_trimmed : forall f s, length s <= f -> trimmed (trim_left_fuel f s).
Proof.
  induction f as [|f IH]; intros s Hf; cbn [trim_left_fuel].
  - destruct s; [now left|cbn in Hf; lia].
  - destruct s as [|b t]; [now left|].
    destruct (decode_rune (b :: t)) as [r w] eqn:E.
    assert (Hne : b :: t <> []) by discriminate. pose proof (decode_w _ _ _ Hne E) as Hw.
    destruct (is_space r) eqn:Sp.
    + apply IH. rewrite skipn_length. cbn [length] in *. lia.
    + right. split; [assumption|]. now rewrite E.
Qed.

Lemma hns_firstn s k : bnd s k -> 1 <= k -> hns s -> hns (firstn k s).
Proof.
  intros B Hk [Hs Hsp]. inversion B as [|s0 r w k' Hs0 E B' Hk']; subst; [lia|].
  pose proof (decode_w _ _ _ Hs E) as Hw.
  assert (E' : decode_rune (firstn (w + k') s) = (r, w)) by (apply decode_firstn; [assumption..|lia]).
  split.
  - intros C. apply (f_equal (@length _)) in C. rewrite firstn_length in C. cbn in C.
    destruct s; [congruence|cbn [length] in *; lia].
  - rewrite E'. now rewrite E in Hsp.
Qed.

Lemma trim_right_fuel_hns f s : hns s -> hns (trim_right_fuel f s).
Proof.
  apply (trim_right_fuel_ind (fun s s' => hns s -> hns s')); [tauto|].
  intros s0 r w s' Hs Hw D Sp IH H. apply IH.
  assert (Hr : r <> rune_error) by (intros ->; rewrite is_space_error in Sp; discriminate).
  apply hns_firstn; [now apply (last_rune_bnd _ r)| |assumption].
  destruct (Nat.eq_dec (length s0 - w) 0) as [Hz|]; [|lia].
  rewrite Hz in D. cbn [skipn] in D. destruct H as [_ H]. rewrite D in H. cbn [fst] in H. congruence.
Qed.

Lemma trim_space_trimmed s : trimmed (trim_space s).
Proof.
  unfold trim_space, trim_left. destruct (trim_left_fuel_trimmed (length s) s (le_n _)) as [->|H].
  - now left.
  - right. now apply trim_right_fuel_hns.
Qed.

Lemma trim_space_hns s : hns s -> hns (trim_space s).
Proof.
  intros H. unfold trim_space. apply trim_right_fuel_hns.
  destruct H as [Hs Hsp]. unfold trim_left. destruct s as [|b t]; [congruence|].
  cbn [length trim_left_fuel]. destruct (decode_rune (b :: t)) as [r w] eqn:E. cbn [fst] in Hsp.
  rewrite Hsp. split; [discriminate|]. now rewrite E.
Qed.

Lemma wrap_cut_pos line l : 2 <= l -> hns line -> 1 <= fst (wrap_cut line l).
Proof.
  intros Hl [Hs Hsp]. destruct (wrap_cut_spec line l) as [(p & -> & Hp & _)| ->]; cbn [fst].
  - destruct p; [|lia]. destruct line as [|x t]; [congruence|]. cbn in Hp. injection Hp as ->.
    rewrite decode_ascii in Hsp by lia. cbn [fst] in Hsp. rewrite is_space_32 in Hsp. discriminate.
  - replace (l - 1) with (S (l - 2)) by lia. now apply rune_offset_pos.
Qed.

Lemma wrap_pieces_nonempty l : 2 <= l -> forall f line, trimmed line ->
  Forall (fun p => p <> []) (wrap_pieces f line l).
Proof.
  intros Hl. induction f as [|f IH]; intros line Ht; cbn [wrap_pieces]; [constructor|].
  destruct (Nat.ltb_spec l (rune_count line)) as [Hc|Hc].
  - destruct Ht as [->|Hh]; [rewrite rune_count_nil in Hc; lia|].
    constructor; [|apply IH, trim_space_trimmed].
    assert (H : hns (trim_space (firstn (fst (wrap_cut line l)) line))).
    { apply trim_space_hns, hns_firstn; [apply wrap_cut_bnd|now apply wrap_cut_pos|assumption]. }
    destruct H as [H _]. intros C. apply app_eq_nil in C. tauto.
  - destruct line; [constructor|]. constructor; [discriminate|constructor].
Qed.

(* the weaker form (any width >= 1): the output is the pieces folded with glue *)
Theorem C17_wrap_width_glue : forall line l prefix, 1 <= l ->
  exists pieces,
    pieces = wrap_pieces (S (length (trim_space line))) (trim_space line) l /\
    wrap_line line l prefix = fold_left (glue prefix) pieces [] /\
    Forall (piece_ok l) pieces.
Proof.
  intros line l prefix Hl. eexists. split; [reflexivity|split].
  - unfold wrap_line. apply wrap_line_fuel_pieces.
  - now apply wrap_pieces_ok.
Qed.

(* main form: the output for one input line is the non-empty pieces joined by "\n" ++ prefix,
   and every piece is at most l characters wide (see piece_ok for hard breaks) *)
Theorem C17_wrap_width : forall line l prefix, 2 <= l ->
  exists pieces,
    pieces = wrap_pieces (S (length (trim_space line))) (trim_space line) l /\
    wrap_line line l prefix = join pieces ([10%N] ++ prefix) /\
    Forall (fun p => p <> []) pieces /\
    Forall (piece_ok l) pieces.
Proof.
  intros line l prefix Hl. eexists. split; [reflexivity|].
  assert (Hne : Forall (fun p => p <> [])
                  (wrap_pieces (S (length (trim_space line))) (trim_space line) l))
    by (apply wrap_pieces_nonempty; [assumption|apply trim_space_trimmed]).
  split; [|split; [exact Hne|apply wrap_pieces_ok; lia]].
  unfold wrap_line. rewrite wrap_line_fuel_pieces. now apply fold_glue_join_nil.
Qed.

(* per-iteration facts in the form given in the task *)
Theorem C17_wrap_width_step : forall line l, 1 <= l ->
  (l < rune_count line ->
   piece_ok l (trim_space (firstn (fst (wrap_cut line l)) line) ++ snd (wrap_cut line l))) /\
  (~ l < rune_count line -> rune_count line <= l).
Proof. intros line l Hl. split; [now apply wrap_piece_ok|lia]. Qed.

(* wrap_text never uses a width below 10 *)
Lemma wrap_text_eq s l prefix :
  wrap_text s l prefix = wrap_lines (split s [10%N]) (if (l <? 10)%Z then 10 else Z.to_nat l) prefix [].
Proof. reflexivity. Qed.
Lemma wrap_text_width_ge_10 l : 10 <= (if (l <? 10)%Z then 10 else Z.to_nat l).
Proof. destruct (Z.ltb_spec l 10); lia. Qed.

(* every line of the text is wrapped with a width of at least 10 and obeys C17_wrap_width *)
Theorem C17_wrap_width_text : forall s l prefix,
  let l' := if (l <? 10)%Z then 10 else Z.to_nat l in
  wrap_text s l prefix = wrap_lines (Str.split s [10%N]) l' prefix [] /\
  10 <= l' /\
  forall line, In line (Str.split s [10%N]) ->
    exists pieces, wrap_line line l' prefix = join pieces ([10%N] ++ prefix) /\
                   Forall (fun p => p <> []) pieces /\ Forall (piece_ok l') pieces.
Proof.
  intros s l prefix l'. pose proof (wrap_text_width_ge_10 l) as Hl. fold l' in Hl.
  split; [reflexivity|]. split; [assumption|]. intros line _.
  destruct (C17_wrap_width line l' prefix ltac:(lia)) as (ps & _ & H1 & H2 & H3). eauto.
Qed.

Example wrap_width_instance :
  wrap_pieces 40 (s2l "the quick brown fox jumpsoverthelazydog") 10 =
  [s2l "the quick"; s2l "brown fox"; (s2l "jumpsover" ++ [45; 10])%N; s2l "thelazydog"].
Proof. vm_compute. reflexivity. Qed.
Example wrap_width_instance_output :
  wrap_line (s2l "  the quick brown fox jumpsoverthelazydog ") 10 (spaces 2) =
  join [s2l "the quick"; s2l "brown fox"; (s2l "jumpsover" ++ [45; 10])%N; s2l "thelazydog"]
       ([10%N] ++ spaces 2).
Proof. vm_compute. reflexivity. Qed.


(* ================================================================== TARGET 3: nothing is lost *)
Definition all_spaces (p : str) : Prop := Forall (fun b => b = 32%N) p.
Definition ascii (s : str) : Prop := Forall (fun b => (b < 128)%N) s.

(* bytes that are neither ASCII white space nor the hyphen *)
Definition keep_byte (b : N) : bool := negb (is_space_ascii b || N.eqb b 45).
Definition strip (s : str) : str := filter keep_byte s.
(* characters (runes; one U+FFFD per undecodable byte) that are neither Unicode white space
   (unicode.IsSpace) nor the hyphen *)
Definition keep_rune (r : N) : bool := negb (is_space r || N.eqb r 45).
Definition strip_runes (s : str) : list N := filter keep_rune (runes s).

Lemma wrap_cut_suffix line l : snd (wrap_cut line l) = [] \/ snd (wrap_cut line l) = [45; 10]%N.
Proof. destruct (wrap_cut_spec line l) as [(p & -> & _)| ->]; [now left|now right]. Qed.

(* ---- Str.split / join *)
Lemma split_fuel_ne f : forall s sep cur, split_fuel f s sep cur <> [].
Proof.
  induction f as [|f IH]; intros s sep cur; cbn [split_fuel]; [discriminate|].
  destruct s; [discriminate|]. destruct (has_prefix _ _); [discriminate|apply IH].
Qed.

Lemma join_cons a L sep : L <> [] -> join (a :: L) sep = a ++ sep ++ join L sep.
Proof. destruct L; [congruence|reflexivity]. Qed.

Lemma join_split_fuel c : forall f s cur, length s < f ->
  join (split_fuel f s [c] cur) [c] = rev cur ++ s.
Proof.
  induction f as [|f IH]; intros s cur Hf; [lia|]. cbn [split_fuel].
  destruct s as [|x s]; [cbn [join]; now rewrite app_nil_r|].
  cbn [has_prefix length] in *.
  replace (has_prefix s []) with true by (destruct s; reflexivity). rewrite andb_true_r.
  destruct (N.eqb_spec x c) as [->|Hne].
  - rewrite join_cons by apply split_fuel_ne. cbn [skipn]. rewrite IH by lia. reflexivity.
  - rewrite IH by lia. cbn [rev]. now rewrite <- app_assoc.
Qed.

Lemma join_split s c : join (Str.split s [c]) [c] = s.
Proof. unfold Str.split. now rewrite join_split_fuel by lia. Qed.

Section Preserve.
  Variable C : str -> list N.
  Variable P : str -> Prop.
  Hypothesis P_app : forall a b, P (a ++ b) -> P a /\ P b.
  Hypothesis C_nil : C [] = [].
  Hypothesis C_sep : forall a sp b, all_spaces sp -> C (a ++ [10%N] ++ sp ++ b) = C a ++ C b.
  Hypothesis C_hyph : forall b, C (b ++ [45; 10]%N) = C b.
  Hypothesis C_trim : forall s, P s -> C (trim_space s) = C s.
  Hypothesis C_cut : forall s p, P s -> bnd s p -> C s = C (firstn p s) ++ C (skipn p s).

  Lemma P_firstn n s : P s -> P (firstn n s).
  Proof. intros H. rewrite <- (firstn_skipn n s) in H. now apply P_app in H. Qed.
  Lemma P_skipn n s : P s -> P (skipn n s).
  Proof. intros H. rewrite <- (firstn_skipn n s) in H. now apply P_app in H. Qed.
  Lemma P_trim s : P s -> P (trim_space s).
  Proof. intros H. destruct (trim_space_sub s) as (a & b & ->). now apply P_firstn, P_skipn. Qed.

  Lemma C_glue prefix acc piece : all_spaces prefix -> C (glue prefix acc piece) = C acc ++ C piece.
  Proof.
    intros Hp. unfold glue. destruct acc as [|x acc]; cbn [nonempty].
    - now rewrite C_nil.
    - rewrite <- !app_assoc. now apply C_sep.
  Qed.

  Lemma C_wrap_line_fuel l prefix : 2 <= l -> all_spaces prefix -> forall f line acc,
    P line -> length line < f -> C (wrap_line_fuel f line l prefix acc) = C acc ++ C line.
  Proof.
    intros Hl Hp. induction f as [|f IH]; intros line acc HP Hf; [lia|].
    rewrite wrap_line_fuel_S. destruct (Nat.ltb_spec l (rune_count line)) as [Hc|Hc].
    - pose proof (wrap_step_shortens line l Hl Hc) as Hs.
      rewrite IH; [|now apply P_trim, P_skipn|lia].
      rewrite C_glue by assumption.
      rewrite (C_trim (skipn _ line)) by now apply P_skipn.
      rewrite (C_cut line _ HP (wrap_cut_bnd line l)), <- app_assoc. do 2 f_equal.
      destruct (wrap_cut_suffix line l) as [-> | ->].
      + rewrite app_nil_r. now apply C_trim, P_firstn.
      + rewrite C_hyph. now apply C_trim, P_firstn.
    - destruct line as [|b t]; [now rewrite C_nil, app_nil_r|]. now apply C_glue.
  Qed.

  Lemma C_wrap_line l prefix line : 2 <= l -> all_spaces prefix -> P line ->
    C (wrap_line line l prefix) = C line.
  Proof.
    intros Hl Hp HP. unfold wrap_line.
    rewrite C_wrap_line_fuel; [|assumption..|now apply P_trim|lia].
    rewrite C_nil. now apply C_trim.
  Qed.

  Lemma C_wrap_lines l prefix : 2 <= l -> all_spaces prefix -> forall lines ret,
    Forall P lines -> C (wrap_lines lines l prefix ret) = C ret ++ concat (map C lines).
  Proof.
    intros Hl Hp. induction lines as [|line rest IH]; intros ret HP; cbn [wrap_lines map concat].
    - now rewrite app_nil_r.
    - inversion HP as [|? ? HP1 HP2]; subst. rewrite IH by assumption.
      rewrite (app_assoc (C ret)). f_equal. rewrite <- (C_wrap_line l prefix line) by assumption.
      destruct ret as [|x ret]; cbn [nonempty].
      + now rewrite C_nil.
      + rewrite <- !app_assoc. apply C_sep.
        destruct (nonempty (wrap_line line l prefix)); [assumption|constructor].
  Qed.

  Lemma P_join parts : P (join parts [10%N]) -> Forall P parts.
  Proof.
    induction parts as [|a parts IH]; intros H; [constructor|].
    destruct parts as [|b parts]; [repeat constructor; exact H|].
    rewrite join_cons in H by discriminate.
    apply P_app in H. destruct H as [Ha H]. apply P_app in H. destruct H as [_ H].
    constructor; [assumption|now apply IH].
  Qed.

  Lemma C_join parts : C (join parts [10%N]) = concat (map C parts).
  Proof.
    induction parts as [|a parts IH]; [exact C_nil|].
    destruct parts as [|b parts]; [cbn; now rewrite app_nil_r|].
    rewrite join_cons by discriminate.
    change (concat (map C (a :: b :: parts))) with (C a ++ concat (map C (b :: parts))). rewrite <- IH.
    apply (C_sep a [] (join (b :: parts) [10%N])). constructor.
  Qed.

  Lemma C_wrap_text s l prefix : all_spaces prefix -> P s -> C (wrap_text s l prefix) = C s.
  Proof.
    intros Hp HP. rewrite wrap_text_eq.
    pose proof (wrap_text_width_ge_10 l) as Hl.
    rewrite <- (join_split s 10) in HP.
    rewrite C_wrap_lines; [|lia|assumption|now apply P_join].
    rewrite C_nil. cbn [app]. rewrite <- C_join. now rewrite join_split.
  Qed.
End Preserve.

(* ---- instance 1: runes, arbitrary byte strings *)
Lemma runes_spaces_app sp b : all_spaces sp -> runes (sp ++ b) = sp ++ runes b.
Proof.
  induction 1 as [|x sp Hx _ IH]; [reflexivity|]. subst x. cbn [app].
  rewrite runes_ascii_cons by lia. now rewrite IH.
Qed.

Lemma filter_spaces sp : all_spaces sp -> filter keep_rune sp = [].
Proof. induction 1 as [|x sp -> _ IH]; [reflexivity|]. cbn [filter]. now rewrite IH. Qed.

Lemma strip_runes_sep a sp b : all_spaces sp ->
  strip_runes (a ++ [10%N] ++ sp ++ b) = strip_runes a ++ strip_runes b.
Proof.
  intros Hsp. unfold strip_runes. cbn [app].
  rewrite runes_app_noncont by (unfold noncont; lia).
  rewrite runes_ascii_cons by lia. rewrite runes_spaces_app by assumption.
  rewrite filter_app. f_equal. cbn [filter].
  change (keep_rune 10) with false. cbv iota.
  now rewrite filter_app, filter_spaces.
Qed.

Lemma strip_runes_hyph b : strip_runes (b ++ [45; 10]%N) = strip_runes b.
Proof.
  unfold strip_runes. rewrite runes_app_noncont by (unfold noncont; lia).
  rewrite !runes_ascii_cons by lia. rewrite runes_nil, filter_app.
  change (filter keep_rune [45; 10]%N) with (@nil N). apply app_nil_r.
Qed.

Lemma strip_runes_trim_left_fuel f s : strip_runes (trim_left_fuel f s) = strip_runes s.
Proof.
  apply (trim_left_fuel_ind (fun s s' => strip_runes s' = strip_runes s)); [reflexivity|].
  intros s0 r w s' Hs E Sp ->. unfold strip_runes. rewrite (runes_cons s0 r w Hs E).
  cbn [filter]. unfold keep_rune at 2. now rewrite Sp.
Qed.

Lemma strip_runes_trim_right_fuel f s : strip_runes (trim_right_fuel f s) = strip_runes s.
Proof.
  apply (trim_right_fuel_ind (fun s s' => strip_runes s' = strip_runes s)); [reflexivity|].
  intros s0 r w s' Hs Hw D Sp ->.
  assert (Hr : r <> rune_error) by (intros ->; rewrite is_space_error in Sp; discriminate).
  unfold strip_runes. rewrite (bnd_runes s0 _ (last_rune_bnd _ _ _ Hw D Hr)), filter_app.
  assert (Hne : skipn (length s0 - w) s0 <> []).
  { intros C. apply (f_equal (@length _)) in C. rewrite skipn_length in C. cbn in C. lia. }
  rewrite (runes_cons _ r w Hne D), skipn_skipn'.
  rewrite (skipn_all2 (n := length s0 - w + w)) by lia. rewrite runes_nil.
  cbn [filter]. unfold keep_rune at 3. rewrite Sp. cbn. now rewrite app_nil_r.
Qed.

Lemma strip_runes_trim_space s : strip_runes (trim_space s) = strip_runes s.
Proof.
  unfold trim_space, trim_right, trim_left.
  now rewrite strip_runes_trim_right_fuel, strip_runes_trim_left_fuel.
Qed.

Lemma strip_runes_cut s p : bnd s p -> strip_runes s = strip_runes (firstn p s) ++ strip_runes (skipn p s).
Proof. intros B. unfold strip_runes. now rewrite (bnd_runes s p B), filter_app. Qed.

(* ---- instance 2: bytes, ASCII strings *)
Lemma ascii_runes s : ascii s -> runes s = s.
Proof. induction 1 as [|x s Hx _ IH]; [reflexivity|]. rewrite runes_ascii_cons by assumption. now rewrite IH. Qed.

Lemma ascii_strip s : ascii s -> strip s = strip_runes s.
Proof.
  intros H. unfold strip, strip_runes. rewrite (ascii_runes s H).
  induction H as [|x s Hx _ IH]; [reflexivity|]. cbn [filter]. rewrite IH.
  unfold keep_byte, keep_rune. now rewrite (is_space_ascii_eq x Hx).
Qed.

Lemma ascii_app a b : ascii (a ++ b) -> ascii a /\ ascii b.
Proof. apply Forall_app. Qed.

Lemma ascii_trim_space s : ascii s -> ascii (trim_space s).
Proof. intros H. destruct (trim_space_sub s) as (a & b & ->). now apply Forall_firstn', Forall_skipn'. Qed.

Lemma strip_trim_space s : ascii s -> strip (trim_space s) = strip s.
Proof.
  intros H. rewrite (ascii_strip _ (ascii_trim_space s H)), (ascii_strip s H).
  apply strip_runes_trim_space.
Qed.

Lemma strip_spaces sp : all_spaces sp -> strip sp = [].
Proof. induction 1 as [|x sp -> _ IH]; [reflexivity|]. unfold strip in *. cbn [filter]. now rewrite IH. Qed.

Lemma strip_sep a sp b : all_spaces sp -> strip (a ++ [10%N] ++ sp ++ b) = strip a ++ strip b.
Proof.
  intros H. unfold strip. rewrite !filter_app. fold (strip sp). rewrite (strip_spaces sp H). reflexivity.
Qed.

Lemma strip_hyph b : strip (b ++ [45; 10]%N) = strip b.
Proof. unfold strip. rewrite filter_app. cbn. apply app_nil_r. Qed.

Lemma strip_cut s p : strip s = strip (firstn p s) ++ strip (skipn p s).
Proof. unfold strip. now rewrite <- filter_app, firstn_skipn. Qed.

(* ------------------------------------------------------------------ TARGET 3 statements *)
(* general form: arbitrary byte strings, characters compared as runes, Unicode white space *)
Theorem C17_wrap_preserves_runes_line : forall line l prefix, 2 <= l -> all_spaces prefix ->
  strip_runes (wrap_line line l prefix) = strip_runes line.
Proof.
  intros line l prefix Hl Hp.
  apply (C_wrap_line strip_runes (fun _ => True) (fun _ _ _ => conj I I) eq_refl
           strip_runes_sep strip_runes_hyph (fun s _ => strip_runes_trim_space s)
           (fun s p _ B => strip_runes_cut s p B)); auto.
Qed.

Theorem C17_wrap_preserves_runes : forall s l prefix, all_spaces prefix ->
  strip_runes (wrap_text s l prefix) = strip_runes s.
Proof.
  intros s l prefix Hp.
  apply (C_wrap_text strip_runes (fun _ => True) (fun _ _ _ => conj I I) eq_refl
           strip_runes_sep strip_runes_hyph (fun s _ => strip_runes_trim_space s)
           (fun s p _ B => strip_runes_cut s p B)); auto.
Qed.

(* ASCII form: bytes *)
Theorem C17_wrap_preserves_characters_line : forall line l prefix,
  ascii line -> all_spaces prefix -> 2 <= l ->
  strip (wrap_line line l prefix) = strip line.
Proof.
  intros line l prefix Ha Hp Hl.
  apply (C_wrap_line strip ascii ascii_app eq_refl strip_sep strip_hyph strip_trim_space
           (fun s p _ _ => strip_cut s p)); assumption.
Qed.

Theorem C17_wrap_preserves_characters : forall s l prefix,
  ascii s -> all_spaces prefix ->
  strip (wrap_text s l prefix) = strip s.
Proof.
  intros s l prefix Ha Hp.
  apply (C_wrap_text strip ascii ascii_app eq_refl strip_sep strip_hyph strip_trim_space
           (fun s p _ _ => strip_cut s p)); assumption.
Qed.

Example wrap_preserves_instance :
  let s := s2l "the quick brown fox jumpsoverthelazydog and" ++ [10%N] ++ s2l "a second line" in
  let prefix := spaces 4 in
  ascii s /\ all_spaces prefix /\
  strip (wrap_text s 12 prefix) = strip s /\ wrap_text s 12 prefix <> s.
Proof.
  split; [repeat constructor|]. split; [repeat constructor|]. split; [vm_compute; reflexivity|].
  vm_compute. discriminate.
Qed.

(* the width hypothesis of the per-line statements cannot be dropped (wrap_text enforces 10) *)
Example wrap_preserves_needs_l :
  strip (wrap_line [97; 98; 99]%N 1 []) <> strip [97; 98; 99]%N.
Proof. vm_compute. discriminate. Qed.
(* a prefix that is not blank is, of course, visible in the output *)
Example wrap_preserves_needs_blank_prefix :
  strip (wrap_line (s2l "aaaa bbbb cccc") 10 [120%N]) <> strip (s2l "aaaa bbbb cccc").
Proof. vm_compute. discriminate. Qed.

(* ================================================================== TARGET 5: padding *)
(* rune_count is additive after a valid UTF-8 string *)
Lemma valid_cons s r w : s <> [] -> decode_rune s = (r, w) ->
  valid_utf8 s = (negb (N.eqb r rune_error && Nat.eqb w 1) && valid_utf8 (skipn w s))%bool.
Proof.
  intros Hs E. rewrite !valid_utf8_eq, (range_str_cons s r w Hs E). cbn [forallb].
  now rewrite forallb_rune_ok_shift.
Qed.

Lemma bnd_valid_app b : forall a, valid_utf8 a = true -> bnd (a ++ b) (length a).
Proof.
  intros a; pattern a; revert a; apply str_rune_ind; [constructor|].
  intros a r w Ha E Hw IH V.
  rewrite (valid_cons a r w Ha E) in V. apply andb_true_iff in V. destruct V as [V1 V2].
  pose proof (decode_dec _ _ _ E) as D.
  assert (E' : decode_rune (a ++ b) = (r, w)).
  { destruct (Nat.eq_dec w 1) as [->|Hne].
    - destruct (dec_w1 _ _ _ D eq_refl) as (x & t & -> & [[Hx ->]|[Hx ->]]).
      + now apply decode_ascii.
      + rewrite N.eqb_refl in V1. discriminate.
    - rewrite <- (firstn_skipn w a), <- app_assoc. apply dec_prefix; [exact D|lia]. }
  replace (length a) with (w + length (skipn w a)) by (rewrite skipn_length; lia).
  apply (bnd_S _ r w); [destruct a; [congruence|discriminate]|exact E'|].
  rewrite skipn_app. replace (w - length a) with 0 by lia. cbn [skipn]. now apply IH.
Qed.

Theorem rune_count_valid_app : forall a b, valid_utf8 a = true ->
  rune_count (a ++ b) = rune_count a + rune_count b.
Proof. intros a b V. apply bnd_app_rune_count. now apply bnd_valid_app. Qed.

(* the valid_utf8 hypothesis of the additivity lemma is necessary *)
Example rune_count_not_additive :
  rune_count ([226]%N ++ [130; 172]%N) <> rune_count [226]%N + rune_count [130; 172]%N.
Proof. vm_compute. discriminate. Qed.

Lemma rc_spaces n X : rune_count (spaces n ++ X) = n + rune_count X.
Proof.
  unfold spaces. induction n as [|n IH]; [reflexivity|]. cbn [repeat app].
  rewrite rune_count_ascii_cons by lia. now rewrite IH.
Qed.

(* string(rune) is always exactly one character *)
Lemma decode_encode_width r X : snd (decode_rune (encode_rune r ++ X)) = length (encode_rune r).
Proof.
  unfold encode_rune, is_surrogate, in_range.
  destruct (N.ltb_spec r 128) as [H1|H1]; [cbn [app]; now rewrite decode_ascii|].
  destruct (N.ltb_spec r 2048) as [H2|H2].
  { assert (194 <= 192 + r / 64 <= 223)%N by lia. assert (128 <= 128 + r mod 64 <= 191)%N by lia.
    generalize dependent (192 + r / 64)%N. generalize dependent (128 + r mod 64)%N. intros b1 ? b0 ?.
    cbn [app length]. unfold decode_rune, is_cont, in_range. split_ifs; cbn [snd]; try reflexivity; exfalso; lia. }
  destruct ((55296 <=? r)%N && (r <=? 57343)%N || (1114111 <? r)%N)%bool eqn:H3; [reflexivity|].
  destruct (N.ltb_spec r 65536) as [H4|H4].
  { assert (224 <= 224 + r / 4096 <= 239)%N by lia.
    assert (128 <= 128 + (r / 64) mod 64 <= 191)%N by lia.
    assert (224 + r / 4096 = 224 -> 160 <= 128 + (r / 64) mod 64)%N by lia.
    assert (224 + r / 4096 = 237 -> 128 + (r / 64) mod 64 <= 159)%N by lia.
    assert (128 <= 128 + r mod 64 <= 191)%N by lia.
    generalize dependent (224 + r / 4096)%N. generalize dependent (128 + (r / 64) mod 64)%N.
    generalize dependent (128 + r mod 64)%N. intros b2 ? b1 ? b0 ? ? ?.
    cbn [app length]. unfold decode_rune, is_cont, in_range. split_ifs; cbn [snd]; try reflexivity; exfalso; lia. }
  assert (240 <= 240 + r / 262144 <= 244)%N by lia.
  assert (128 <= 128 + (r / 4096) mod 64 <= 191)%N by lia.
  assert (240 + r / 262144 = 240 -> 144 <= 128 + (r / 4096) mod 64)%N by lia.
  assert (240 + r / 262144 = 244 -> 128 + (r / 4096) mod 64 <= 143)%N by lia.
  assert (128 <= 128 + (r / 64) mod 64 <= 191)%N by lia.
  assert (128 <= 128 + r mod 64 <= 191)%N by lia.
  generalize dependent (240 + r / 262144)%N. generalize dependent (128 + (r / 4096) mod 64)%N.
  generalize dependent (128 + (r / 64) mod 64)%N. generalize dependent (128 + r mod 64)%N.
  intros b3 ? b2 ? b1 ? b0 ? ? ?.
  clear H1 H2 H3 H4.
  cbn [app length]. unfold decode_rune, is_cont, in_range. split_ifs; cbn [snd]; try reflexivity; exfalso; lia.
Qed.

Lemma encode_rune_ne r : encode_rune r <> [].
Proof. unfold encode_rune. split_ifs; discriminate. Qed.

Lemma rc_enc r X : rune_count (encode_rune r ++ X) = S (rune_count X).
Proof.
  destruct (decode_rune (encode_rune r ++ X)) as [r' w] eqn:E.
  pose proof (decode_encode_width r X) as Hw. rewrite E in Hw. cbn [snd] in Hw. subst w.
  assert (Hne : encode_rune r ++ X <> []).
  { pose proof (encode_rune_ne r). destruct (encode_rune r); [congruence|discriminate]. }
  rewrite (rune_count_cons _ r' _ Hne E).
  now rewrite skipn_app_len.
Qed.
Lemma rc_enc_nil r : rune_count (encode_rune r) = 1.
Proof. rewrite <- (app_nil_r (encode_rune r)), rc_enc. reflexivity. Qed.

Lemma long_with_ns_nil delim ns : long_with_ns delim ns [] = [].
Proof. reflexivity. Qed.
Lemma long_with_ns_ne delim ns long : long <> [] -> long_with_ns delim ns long <> [].
Proof.
  intros H. unfold long_with_ns. destruct long as [|x t]; [congruence|].
  induction (filter nonempty ns) as [|n l IH]; cbn [fold_right]; [discriminate|].
  intros C. apply app_eq_nil in C. destruct C as [_ C]. apply app_eq_nil in C. tauto.
Qed.

(* the part of the option row that precedes the description *)
Definition help_line2 (cfg : pconfig) (o : opt) (ns : list str) (a : align) : str :=
  let delim := pc_nsdelim cfg in
  let prefix := 2 + (if al_indent a then 4 else 0) in
  let line0 := spaces prefix ++
               (if negb (N.eqb (o_short o) 0) then 45%N :: encode_rune (o_short o)
                else if al_hasshort a then s2l "  " else []) in
  let line1 := if nonempty (o_long o) then
                 line0 ++ (if negb (N.eqb (o_short o) 0) then s2l ", " else if al_hasshort a then s2l "  " else [])
                       ++ s2l "--" ++ long_with_ns delim ns (o_long o)
               else line0 in
  if can_argument o then line1 ++ [61%N] ++ o_valname o ++ choices_text o else line1.

Lemma help_written_le cfg o ns a :
  valid_utf8 (long_with_ns (pc_nsdelim cfg) ns (o_long o)) = true ->
  rune_count (long_with_ns (pc_nsdelim cfg) ns (o_long o) ++ o_valname o ++ choices_text o)
    + (if al_indent a then 4 else 0) <= al_maxlong a ->
  (o_short o <> 0%N -> al_hasshort a = true) ->
  rune_count (help_line2 cfg o ns a) + 1 <= description_start a + 2.
Proof.
  intros V Hdom Hshort. unfold help_line2, description_start. cbv zeta.
  set (L := long_with_ns (pc_nsdelim cfg) ns (o_long o)) in *.
  set (VC := o_valname o ++ choices_text o) in *.
  rewrite (rune_count_valid_app L VC V) in Hdom.
  change (s2l "  ") with [32; 32]%N. change (s2l ", ") with [44; 32]%N. change (s2l "--") with [45; 45]%N.
  assert (HL : nonempty (o_long o) = true -> 1 <= rune_count L).
  { intros H. apply rune_count_pos. apply long_with_ns_ne. destruct (o_long o); [discriminate|discriminate]. }
  destruct (N.eqb_spec (o_short o) 0) as [Hs|Hs]; cbn [negb];
    [|rewrite (Hshort Hs) in *];
    destruct (al_hasshort a); destruct (nonempty (o_long o)); destruct (can_argument o);
    rewrite <- ?app_assoc; cbn [app];
    repeat (first [ rewrite rc_spaces | rewrite rune_count_ascii_cons by lia | rewrite rc_enc
                  | rewrite rc_enc_nil | rewrite (rune_count_valid_app L) by exact V
                  | rewrite rune_count_nil ]);
    try specialize (HL eq_refl);
    destruct (Nat.ltb_spec 0 (al_maxlong a)); destruct (al_hasvalname a); destruct (al_indent a);
    try lia.
Qed.

Lemma help_option_eq cfg r o ns envns g a :
  help_option cfg r o ns envns g a =
  match o_desc o with
  | [] => Ok (help_line2 cfg o ns a ++ [10%N])
  | d =>
    match repeat_space (Z.of_nat (description_start a + 2) - Z.of_nat (rune_count (help_line2 cfg o ns a))) with
    | None => Panic (s2l "strings: negative Repeat count")
    | Some pad =>
      let def := match o_mask o with
                 | [] => f_deflit (rt_fl r (o_fid o))
                 | m => if str_eqb m (s2l "-") then [] else m
                 end in
      let ek := env_key (pc_envdelim cfg) (oc_of o ns envns g) in
      let envdef := if nonempty ek then s2l " [$" ++ ek ++ s2l "]" else [] in
      let desc := if nonempty def then d ++ s2l " (default: " ++ def ++ s2l ")" ++ envdef else d ++ envdef in
      Ok (help_line2 cfg o ns a ++ pad ++
          wrap_text desc (cols cfg - Z.of_nat (description_start a + 2)) (spaces (description_start a + 2)) ++ [10%N])
    end
  end.
Proof. reflexivity. Qed.

(* ------------------------------------------------------------------ TARGET 5 statement *)
(* If the alignment record dominates the option (its long-name column is wide enough and it
   knows that short names exist whenever this option has one), then the text written before
   the description ends at least one column before the description start: the padding count
   is positive, help_option does not panic and returns the row padded with exactly
   descstart - written spaces.
   (The hypothesis on al_hasvalname of the informal statement is not needed.) *)
Theorem C17_no_negative_padding_option : forall cfg r o ns envns g a,
  valid_utf8 (long_with_ns (pc_nsdelim cfg) ns (o_long o)) = true ->
  rune_count (long_with_ns (pc_nsdelim cfg) ns (o_long o) ++ o_valname o ++ choices_text o)
    + (if al_indent a then 4 else 0) <= al_maxlong a ->
  (o_short o <> 0%N -> al_hasshort a = true) ->
  rune_count (help_line2 cfg o ns a) < description_start a + 2 /\
  (forall msg, help_option cfg r o ns envns g a <> Panic msg) /\
  (exists out, help_option cfg r o ns envns g a = Ok out) /\
  (exists rest, help_option cfg r o ns envns g a =
     Ok (help_line2 cfg o ns a ++
         (if nonempty (o_desc o)
          then spaces (description_start a + 2 - rune_count (help_line2 cfg o ns a)) else []) ++ rest)).
Proof.
  intros cfg r o ns envns g a V Hdom Hshort.
  pose proof (help_written_le cfg o ns a V Hdom Hshort) as Hle.
  split; [lia|]. rewrite help_option_eq.
  destruct (o_desc o) as [|d0 d]; cbn [nonempty].
  - split; [discriminate|]. split; eexists; reflexivity.
  - unfold repeat_space.
    destruct (Z.ltb_spec (Z.of_nat (description_start a + 2) - Z.of_nat (rune_count (help_line2 cfg o ns a))) 0) as [Hn|Hn];
      [lia|].
    cbv zeta. split; [discriminate|]. split; [eexists; reflexivity|].
    eexists. do 3 f_equal. f_equal. lia.
Qed.

Definition example_opt : opt :=
  {| o_fid := 0; o_field := s2l "Verbose"; o_short := 118; o_long := s2l "verbose";
     o_desc := s2l "Show verbose debug information"; o_default := []; o_envkey := []; o_envdelim := [];
     o_optional := false; o_optval := []; o_required := false; o_valname := s2l "LEVEL"; o_mask := [];
     o_choices := []; o_hidden := false; o_ininame := []; o_noini := false; o_unquote := true;
     o_base := []; o_ty := TScalar KString; o_is_help := false |}.
Definition example_align : align :=
  {| al_maxlong := 12; al_hasshort := true; al_hasvalname := true; al_indent := false |}.

(* the hypotheses are satisfiable (whatever the configuration, for an empty namespace path) *)
Example no_negative_padding_instance : forall cfg,
  valid_utf8 (long_with_ns (pc_nsdelim cfg) [] (o_long example_opt)) = true /\
  rune_count (long_with_ns (pc_nsdelim cfg) [] (o_long example_opt) ++ o_valname example_opt ++ choices_text example_opt)
    + (if al_indent example_align then 4 else 0) <= al_maxlong example_align /\
  (o_short example_opt <> 0%N -> al_hasshort example_align = true) /\
  rune_count (help_line2 cfg example_opt [] example_align) = 21 /\
  description_start example_align + 2 = 25.
Proof. intros cfg. split; [reflexivity|]. split; [vm_compute; lia|]. split; [reflexivity|]. split; reflexivity. Qed.

(* the hypothesis on al_hasshort cannot be dropped: an option with a short name under an
   alignment that has seen no short name, and no value-name column, panics *)
Example no_negative_padding_needs_hasshort : forall cfg r g,
  let o := {| o_fid := 0; o_field := s2l "Verbose"; o_short := 118; o_long := s2l "verbose";
              o_desc := s2l "Show"; o_default := []; o_envkey := []; o_envdelim := [];
              o_optional := false; o_optval := []; o_required := false; o_valname := []; o_mask := [];
              o_choices := []; o_hidden := false; o_ininame := []; o_noini := false; o_unquote := true;
              o_base := []; o_ty := TScalar KString; o_is_help := false |} in
  let a := {| al_maxlong := 7; al_hasshort := false; al_hasvalname := false; al_indent := false |} in
  rune_count (long_with_ns (pc_nsdelim cfg) [] (o_long o) ++ o_valname o ++ choices_text o)
    + (if al_indent a then 4 else 0) <= al_maxlong a /\
  help_option cfg r o [] [] g a = Panic (s2l "strings: negative Repeat count").
Proof. intros cfg r g. split; [vm_compute; lia|reflexivity]. Qed.

(* ================================================================== assumptions *)
Print Assumptions C17_wrap_step_shortens.
Print Assumptions C17_wrap_fuel.
Print Assumptions C17_wrap_fuel_never_exhausted.
Print Assumptions C17_wrap_width.
Print Assumptions C17_wrap_width_glue.
Print Assumptions C17_wrap_width_text.
Print Assumptions C17_wrap_width_step.
Print Assumptions C17_wrap_preserves_runes_line.
Print Assumptions C17_wrap_preserves_runes.
Print Assumptions C17_wrap_preserves_characters_line.
Print Assumptions C17_wrap_preserves_characters.
Print Assumptions C17_wrap_utf8_safe.
Print Assumptions C17_wrap_cut_utf8_safe.
Print Assumptions rune_count_valid_app.
Print Assumptions C17_no_negative_padding_option.
