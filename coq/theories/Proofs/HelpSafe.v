(* Property C17 headline: "generating help never panics, whatever the option and argument
   names, description lengths and terminal width".  Proofs about Model/Help.v. *)
From Coq Require Import List Arith NArith ZArith Lia Bool ZifyN ZifyBool ZifyNat.
From GoFlags Require Import Base.Str Base.Utf8 Golib.Strings Golib.Strconv
     Model.Types Model.Tag Model.Scan Model.Lookup Model.Convert Model.State Model.Help
     Proofs.QuoteUtf8 Proofs.HelpSpec Proofs.WrapSpec.
Import ListNotations.
Local Open Scope nat_scope.
(* ================================================================== rune counts of concatenations *)
Lemma rc_le_len s : rune_count s <= length s.
Proof.
  pattern s; revert s; apply str_rune_ind; [rewrite rune_count_nil; lia|].
  intros s r w Hs E Hw IH. rewrite (rune_count_cons s r w Hs E). rewrite skipn_length in IH. lia.
Qed.

Lemma decode_cont y t : (128 <= y <= 191)%N -> decode_rune (y :: t) = (rune_error, 1).
Proof. intros H. unfold decode_rune, in_range. split_ifs; first [reflexivity | exfalso; lia]. Qed.

Lemma rc_cont_cons y t : (128 <= y <= 191)%N -> rune_count (y :: t) = S (rune_count t).
Proof. intros H. rewrite (rune_count_cons (y :: t) rune_error 1); [reflexivity|discriminate|now apply decode_cont]. Qed.

Lemma rc_conts k : forall s,
  (forall i, i < k -> exists y, nth_error s i = Some y /\ (128 <= y <= 191)%N) ->
  rune_count s = k + rune_count (skipn k s).
Proof.
  induction k as [|k IH]; intros s H; [reflexivity|].
  destruct (H 0 ltac:(lia)) as (y & Hy & Hr). destruct s as [|x t]; [discriminate|].
  cbn in Hy. injection Hy as ->. rewrite rc_cont_cons by exact Hr. cbn [skipn].
  rewrite (IH t); [lia|]. intros i Hi. apply (H (S i)). lia.
Qed.

(* dropping the first byte drops at most one character *)
Lemma rc_tail x s : rune_count (x :: s) <= S (rune_count s).
Proof.
  destruct (decode_rune (x :: s)) as [r w] eqn:E.
  assert (Hne : x :: s <> []) by discriminate.
  pose proof (decode_w _ _ _ Hne E) as Hw. pose proof (decode_dec _ _ _ E) as D.
  rewrite (rune_count_cons _ r w Hne E).
  destruct w as [|w]; [lia|]. cbn [skipn].
  rewrite (rc_conts w s); [lia|].
  intros i Hi. destruct (dec_cont _ _ _ D (S i) ltac:(lia)) as (y & Hy & Hr). exists y. auto.
Qed.

Lemma rc_skipn_ge k : forall s, rune_count s <= k + rune_count (skipn k s).
Proof.
  induction k as [|k IH]; intros s; [cbn [skipn]; lia|].
  destruct s as [|x t]; [cbn [skipn]; lia|]. cbn [skipn].
  pose proof (rc_tail x t). specialize (IH t). lia.
Qed.

(* concatenation can merge a truncated sequence at the end of a with continuation bytes at
   the start of b: it loses at most 3 characters *)
Lemma rune_count_app_le3 b : forall a, rune_count a + rune_count b <= rune_count (a ++ b) + 3.
Proof.
  intros a; pattern a; revert a; apply str_rune_ind; [cbn [app]; rewrite rune_count_nil; lia|].
  intros a r w Ha E Hw IH.
  pose proof (decode_dec _ _ _ E) as D.
  assert (Hab : a ++ b <> []) by (destruct a; [congruence|discriminate]).
  assert (Hsame : decode_rune (a ++ b) = (r, w) -> rune_count a + rune_count b <= rune_count (a ++ b) + 3).
  { intros E'. rewrite (rune_count_cons a r w Ha E), (rune_count_cons _ r w Hab E').
    rewrite skipn_app. replace (w - length a) with 0 by lia. cbn [skipn]. lia. }
  destruct (Nat.eq_dec w 1) as [->|Hne].
  - destruct (dec_w1 _ _ _ D eq_refl) as (x & t & -> & [[Hx ->]|[Hx ->]]).
    + apply Hsame. now apply decode_ascii.
    + destruct (decode_rune ((x :: t) ++ b)) as [r' w'] eqn:E'.
      destruct (Nat.eq_dec w' 1) as [->|Hne'].
      * rewrite (rune_count_cons _ _ _ Ha E), (rune_count_cons _ _ _ Hab E'). cbn [app skipn] in *. lia.
      * pose proof (decode_w _ _ _ Hab E') as Hw'.
        pose proof (dec_width _ _ _ (decode_dec _ _ _ E') Hab) as [Hw4 _].
        assert (Hlong : length (x :: t) < w').
        { destruct (le_lt_dec w' (length (x :: t))) as [Hle|]; [exfalso|assumption].
          pose proof (decode_firstn _ _ _ (length (x :: t)) Hab E' Hle) as F.
          rewrite firstn_app_len in F. congruence. }
        rewrite (rune_count_cons _ _ _ Hab E').
        rewrite skipn_app, (skipn_all2 (n := w')) by lia. cbn [app].
        pose proof (rc_le_len (x :: t)). pose proof (rc_skipn_ge (w' - length (x :: t)) b). lia.
  - apply Hsame. rewrite <- (firstn_skipn w a), <- app_assoc. apply dec_prefix; [exact D|lia].
Qed.

Example rune_count_app_le3_tight :
  rune_count [240]%N + rune_count [159; 152; 128]%N = rune_count ([240] ++ [159; 152; 128])%N + 3.
Proof. vm_compute. reflexivity. Qed.

(* ================================================================== TARGET 1: alignment *)
(* the initial alignment record of write_help_rows and the record it computes *)
Definition align0 : align :=
  {| al_maxlong := 0; al_hasshort := false; al_hasvalname := false; al_indent := false |}.

Definition align_chain (cfg : pconfig) (chain : list (list nat * command)) (a0 : align) : align :=
  fold_left (fun a pc => align_cmd cfg a (snd pc) (is_root_path (fst pc))) chain a0.

Definition help_align (cfg : pconfig) (root : command) (r : rt) : align :=
  align_chain cfg (help_chain root r) align0.

(* the order in which alignment records evolve: the width only grows, the two flags only
   turn on, the indent flag is not touched *)
Definition al_le (a b : align) : Prop :=
  al_maxlong a <= al_maxlong b /\
  (al_hasshort a = true -> al_hasshort b = true) /\
  (al_hasvalname a = true -> al_hasvalname b = true) /\
  al_indent b = al_indent a.

Lemma al_le_refl a : al_le a a.
Proof. unfold al_le. repeat split; auto. Qed.

Lemma al_le_trans a b c : al_le a b -> al_le b c -> al_le a c.
Proof. unfold al_le. intros (H1 & H2 & H3 & H4) (K1 & K2 & K3 & K4). repeat split; [lia|tauto|tauto|congruence]. Qed.

Lemma upd_len_le a name indent : al_le a (upd_len a name indent).
Proof. unfold al_le, upd_len. cbn [al_maxlong al_hasshort al_hasvalname al_indent]. repeat split; [lia|tauto|tauto]. Qed.

Lemma upd_len_dom a name (indent : bool) :
  rune_count name + (if indent then 4 else 0) <= al_maxlong (upd_len a name indent).
Proof. unfold upd_len. cbn [al_maxlong]. lia. Qed.

(* generic fold invariant: every step goes up, the per-element property is established by
   the element's own step and is preserved upwards *)
Lemma fold_dom {X} (f : align -> X -> align) (P : X -> align -> Prop) :
  (forall a x, al_le a (f a x)) ->
  (forall x a b, P x a -> al_le a b -> P x b) ->
  (forall a x, P x (f a x)) ->
  forall l a, al_le a (fold_left f l a) /\ forall x, In x l -> P x (fold_left f l a).
Proof.
  intros Hle Hmono Hown. induction l as [|y l IH]; intros a; cbn [fold_left].
  - split; [apply al_le_refl|]. intros x [].
  - destruct (IH (f a y)) as [IH1 IH2]. split.
    + eapply al_le_trans; [apply Hle|exact IH1].
    + intros x [<-|Hin]; [|now apply IH2]. eapply Hmono; [apply Hown|exact IH1].
Qed.

Section Align.
  Variable cfg : pconfig.

  (* what "the alignment record dominates the option" means (is_root: the option belongs
     to the top-level command, whose rows are never indented) *)
  Definition opt_dom (ns : list str) (is_root : bool) (o : opt) (a : align) : Prop :=
    rune_count (long_with_ns (pc_nsdelim cfg) ns (o_long o) ++ o_valname o ++ choices_text o)
      + (if is_root then 0 else 4) <= al_maxlong a /\
    (o_short o <> 0%N -> al_hasshort a = true) /\
    (o_valname o <> [] -> al_hasvalname a = true).

  Definition arg_dom (is_root : bool) (ar : arg) (a : align) : Prop :=
    rune_count (a_name ar) + (if is_root then 0 else 4) <= al_maxlong a.

  Definition cmd_dom (is_root : bool) (c : command) (a : align) : Prop :=
    (forall g ns envns o,
        In (g, ns, envns) (cmd_group_ctxs c) -> group_show_in_help g = true ->
        In o (grp_opts g) -> opt_show_in_help o = true -> opt_dom ns is_root o a) /\
    (forall ar, In ar (cmd_args c) -> arg_dom is_root ar a).

  Lemma opt_dom_mono ns is_root o a b : opt_dom ns is_root o a -> al_le a b -> opt_dom ns is_root o b.
  Proof. unfold opt_dom, al_le. intros (H1 & H2 & H3) (K1 & K2 & K3 & _). repeat split; [lia|tauto|tauto]. Qed.

  Lemma arg_dom_mono is_root ar a b : arg_dom is_root ar a -> al_le a b -> arg_dom is_root ar b.
  Proof. unfold arg_dom, al_le. intros H1 (K1 & _). lia. Qed.

  Lemma cmd_dom_mono is_root c a b : cmd_dom is_root c a -> al_le a b -> cmd_dom is_root c b.
  Proof.
    intros [H1 H2] Hle. split.
    - intros g ns envns o Hg Hs Ho Hso. eapply opt_dom_mono; [now apply (H1 g ns envns o)|exact Hle].
    - intros ar Har. eapply arg_dom_mono; [now apply H2|exact Hle].
  Qed.

  (* the three folding steps of align_cmd, named *)
  Definition align_arg (is_root : bool) (a : align) (ar : arg) : align :=
    upd_len a (a_name ar) (negb is_root).

  Definition align_opt (ns : list str) (is_root : bool) (a : align) (o : opt) : align :=
    if negb (opt_show_in_help o) then a else
      let a := {| al_maxlong := al_maxlong a;
                  al_hasshort := al_hasshort a || negb (N.eqb (o_short o) 0);
                  al_hasvalname := al_hasvalname a || nonempty (o_valname o);
                  al_indent := al_indent a |} in
      upd_len a (long_with_ns (pc_nsdelim cfg) ns (o_long o) ++ o_valname o ++ choices_text o) (negb is_root).

  Definition align_grp (is_root : bool) (a : align) (gc : group * list str * list str) : align :=
    let '(g, ns, envns) := gc in
    if negb (group_show_in_help g) then a else fold_left (align_opt ns is_root) (grp_opts g) a.

  Lemma align_cmd_eq a c is_root :
    align_cmd cfg a c is_root =
    fold_left (align_grp is_root) (cmd_group_ctxs c) (fold_left (align_arg is_root) (cmd_args c) a).
  Proof. reflexivity. Qed.

  Lemma align_arg_le is_root a ar : al_le a (align_arg is_root a ar).
  Proof. apply upd_len_le. Qed.

  Lemma align_arg_dom is_root a ar : arg_dom is_root ar (align_arg is_root a ar).
  Proof.
    unfold arg_dom, align_arg. pose proof (upd_len_dom a (a_name ar) (negb is_root)) as H.
    destruct is_root; cbn [negb] in *; lia.
  Qed.

  Lemma align_opt_le ns is_root a o : al_le a (align_opt ns is_root a o).
  Proof.
    unfold align_opt. destruct (opt_show_in_help o); cbn [negb]; [|apply al_le_refl]. cbv zeta.
    eapply al_le_trans; [|apply upd_len_le].
    unfold al_le. cbn [al_maxlong al_hasshort al_hasvalname al_indent].
    repeat split; [lia|intros ->; reflexivity|intros ->; reflexivity].
  Qed.

  Lemma align_opt_dom ns is_root a o :
    opt_show_in_help o = true -> opt_dom ns is_root o (align_opt ns is_root a o).
  Proof.
    intros Hs. unfold align_opt. rewrite Hs. cbn [negb]. cbv zeta.
    match goal with |- opt_dom _ _ _ (upd_len ?A ?N ?I) => pose proof (upd_len_dom A N I) as H; set (A' := A) in * end.
    unfold opt_dom. split; [destruct is_root; cbn [negb] in *; lia|].
    unfold upd_len. cbn [al_hasshort al_hasvalname]. unfold A'. cbn [al_hasshort al_hasvalname]. split.
    - intros Hne. apply N.eqb_neq in Hne. rewrite Hne. cbn [negb]. apply orb_true_r.
    - intros Hne. destruct (o_valname o); [congruence|]. cbn [nonempty]. apply orb_true_r.
  Qed.

  Lemma align_grp_le is_root a gc : al_le a (align_grp is_root a gc).
  Proof.
    destruct gc as [[g ns] envns]. unfold align_grp.
    destruct (group_show_in_help g); cbn [negb]; [|apply al_le_refl].
    apply (fold_dom (align_opt ns is_root) (fun _ _ => True)); auto using align_opt_le.
  Qed.

  Lemma align_grp_dom is_root a g ns envns :
    group_show_in_help g = true ->
    forall o, In o (grp_opts g) -> opt_show_in_help o = true ->
      opt_dom ns is_root o (align_grp is_root a (g, ns, envns)).
  Proof.
    intros Hg o Ho Hs. unfold align_grp. rewrite Hg. cbn [negb].
    apply (fold_dom (align_opt ns is_root) (fun o a => opt_show_in_help o = true -> opt_dom ns is_root o a));
      [apply align_opt_le| | |exact Ho|exact Hs].
    - intros x a1 b H Hle Hx. eapply opt_dom_mono; [now apply H|exact Hle].
    - intros a1 x Hx. now apply align_opt_dom.
  Qed.

  Lemma align_cmd_le a c is_root : al_le a (align_cmd cfg a c is_root).
  Proof.
    rewrite align_cmd_eq. eapply al_le_trans.
    - apply (fold_dom (align_arg is_root) (fun _ _ => True)); auto using align_arg_le.
    - apply (fold_dom (align_grp is_root) (fun _ _ => True)); auto using align_grp_le.
  Qed.

  Lemma align_cmd_dom a c is_root : cmd_dom is_root c (align_cmd cfg a c is_root).
  Proof.
    rewrite align_cmd_eq. split.
    - intros g ns envns o Hg Hsg Ho Hso.
      refine (proj2 (fold_dom (align_grp is_root)
                (fun gc a => group_show_in_help (fst (fst gc)) = true ->
                             forall o, In o (grp_opts (fst (fst gc))) -> opt_show_in_help o = true ->
                                       opt_dom (snd (fst gc)) is_root o a)
                (align_grp_le is_root) _ _ (cmd_group_ctxs c) _) (g, ns, envns) Hg Hsg o Ho Hso).
      + intros x a1 b H Hle Hx o1 Ho1 Hs1. eapply opt_dom_mono; [now apply H|exact Hle].
      + intros a1 [[g1 ns1] envns1]. cbn [fst snd]. apply align_grp_dom.
    - intros ar Har. eapply arg_dom_mono.
      + apply (fold_dom (align_arg is_root) (fun ar a => arg_dom is_root ar a));
          [apply align_arg_le| |intros; apply align_arg_dom|exact Har].
        intros x a1 b H Hle. eapply arg_dom_mono; eassumption.
      + apply (fold_dom (align_grp is_root) (fun _ _ => True)); auto using align_grp_le.
  Qed.

  Lemma align_chain_dom chain a0 :
    al_le a0 (align_chain cfg chain a0) /\
    forall pc, In pc chain -> cmd_dom (is_root_path (fst pc)) (snd pc) (align_chain cfg chain a0).
  Proof.
    unfold align_chain.
    apply (fold_dom (fun a (pc : list nat * command) => align_cmd cfg a (snd pc) (is_root_path (fst pc)))
                    (fun pc a => cmd_dom (is_root_path (fst pc)) (snd pc) a)).
    - intros a pc. apply align_cmd_le.
    - intros pc a b. apply cmd_dom_mono.
    - intros a pc. apply align_cmd_dom.
  Qed.
End Align.

(* ------------------------------------------------------------------ TARGET 1 statement *)
(* For ANY starting record a0 (write_help_rows uses align0): the computed record is above
   a0 (width only grows, flags only turn on, al_indent untouched) and dominates every
   displayable option of every displayable group and every positional argument of every
   command of the chain, counting 4 more columns for commands other than the root. *)
Theorem C17_align_dominates : forall cfg chain a0 a,
  a = fold_left (fun a pc => align_cmd cfg a (snd pc) (is_root_path (fst pc))) chain a0 ->
  (al_maxlong a0 <= al_maxlong a /\
   (al_hasshort a0 = true -> al_hasshort a = true) /\
   (al_hasvalname a0 = true -> al_hasvalname a = true) /\
   al_indent a = al_indent a0) /\
  forall p c, In (p, c) chain ->
    (forall g ns envns o,
        In (g, ns, envns) (cmd_group_ctxs c) -> group_show_in_help g = true ->
        In o (grp_opts g) -> opt_show_in_help o = true ->
        rune_count (long_with_ns (pc_nsdelim cfg) ns (o_long o) ++ o_valname o ++ choices_text o)
          + (if is_root_path p then 0 else 4) <= al_maxlong a /\
        (o_short o <> 0%N -> al_hasshort a = true) /\
        (o_valname o <> [] -> al_hasvalname a = true)) /\
    (forall ar, In ar (cmd_args c) ->
        rune_count (a_name ar) + (if is_root_path p then 0 else 4) <= al_maxlong a).
Proof.
  intros cfg chain a0 a ->. destruct (align_chain_dom cfg chain a0) as [Hle Hdom].
  split; [exact Hle|]. intros p c Hin. exact (Hdom (p, c) Hin).
Qed.

(* ================================================================== generic traversal *)
(* The traversal of write_help_rows with the two places where a row is laid out abstracted:
   [ho] produces the text of an option row (the model calls help_option), [ha] the padding
   between an argument name and its description (the model calls repeat_space; None =
   panic).  Both additionally receive the command (path and declaration) the row belongs
   to.  Everything else is literally the text of the model (see gen_eq below). *)
Section Gen.
  Variable ho : list nat -> command -> group -> list str -> list str -> opt -> align -> res str.
  Variable ha : list nat -> command -> arg -> nat -> option str.

  Definition g_opts (p : list nat) (c : command) (no_header : bool) (g : group) (ns envns : list str) :=
    fix opts (os : list opt) (a : align) (acc : str) (printcmd first : bool) (rows : list hrow)
      : res (align * str * bool * bool * list hrow) :=
      match os with
      | [] => Ok (a, acc, printcmd, first, rows)
      | o :: orest =>
        if negb (opt_show_in_help o) then opts orest a acc printcmd first rows
        else
          let '(a, acc) :=
              if printcmd then
                ({| al_maxlong := al_maxlong a; al_hasshort := al_hasshort a;
                    al_hasvalname := al_hasvalname a; al_indent := true |},
                 acc ++ [10] ++ s2l "[" ++ c_name (cmd_info c) ++ s2l " command options]" ++ [10])%N
              else (a, acc) in
          let '(acc, first) :=
              if first && negb no_header then
                (acc ++ [10] ++ (if al_indent a then s2l "    " else []) ++ g_short (grp_info g) ++ s2l ":" ++ [10], false)%N
              else (acc, first) in
          row <- ho p c g ns envns o a ;;
          opts orest a (acc ++ row) false first (rows ++ [HOpt (o_fid o)])
      end.

  Definition g_groups (p : list nat) (c : command) (rest : list (list nat * command)) (is_root : bool) :=
    fix groups (gs : list (group * list str * list str)) (a : align) (acc : str) (printcmd own : bool) (rows : list hrow)
      : res (align * str * bool * list hrow) :=
      match gs with
      | [] => Ok (a, acc, printcmd, rows)
      | (g, ns, envns) :: grest =>
        let no_header := own && match rest with [] => true | _ => false end in
        if g_hidden (grp_info g) || (g_builtin_help (grp_info g) && negb is_root) then groups grest a acc printcmd false rows
        else
          ' (a', acc', printcmd', _, rows') <-
            g_opts p c no_header g ns envns (grp_opts g) a acc printcmd true rows ;;
          groups grest a' acc' printcmd' false rows'
      end.

  Definition g_argrows (cfg : pconfig) (p : list nat) (c : command) (dstart : nat) :=
    fix argrows (l : list arg) (acc : str) (rows : list hrow) : res (str * list hrow) :=
      match l with
      | [] => Ok (acc, rows)
      | ar :: lrest =>
        let argprefix := (s2l "  " ++ a_name ar ++ s2l ":")%N in
        match ha p c ar dstart with
        | None => Panic (s2l "strings: negative Repeat count")
        | Some pad =>
          argrows lrest (acc ++ argprefix ++ pad ++
                         wrap_text (a_desc ar) (cols cfg - 1 - Z.of_nat dstart) (spaces dstart) ++ [10])%N
                  (rows ++ [HArg (a_fid ar)])
        end
      end.

  Definition g_cmds (cfg : pconfig) (innermost : command) :=
    fix cmds (l : list (list nat * command)) (a : align) (acc : str) (rows : list hrow) : res (str * list hrow) :=
      match l with
      | [] =>
        let sc := sorted_visible_cmds innermost in
        Ok (acc ++ whr_cmdlist sc, rows ++ map (fun c => HCmd (c_name (cmd_info c))) sc)
      | (p, c) :: rest =>
        let is_root := is_root_path p in
        ' (a1, acc1, _, rows1) <-
          g_groups p c rest is_root (cmd_group_ctxs c) a acc (negb is_root) true rows ;;
        let dargs := filter (fun ar : arg => nonempty (a_desc ar)) (cmd_args c) in
        ' (acc2, rows2) <-
          (match dargs with
           | [] => Ok (acc1, rows1)
           | _ =>
             let head := (if is_root then [10] ++ s2l "Arguments:" ++ [10]
                         else [10] ++ s2l "[" ++ c_name (cmd_info c) ++ s2l " command arguments]" ++ [10])%N in
             let dstart := (description_start a1 + 2)%nat in
             g_argrows cfg p c dstart dargs (acc1 ++ head) rows1
           end) ;;
        cmds rest a1 acc2 rows2
      end.
End Gen.

(* the padding computed by the model for an argument row *)
Definition arg_pad (ar : arg) (dstart : nat) : option str :=
  repeat_space (Z.of_nat dstart - Z.of_nat (rune_count (s2l "  " ++ a_name ar ++ s2l ":"))).

Definition model_ho (cfg : pconfig) (r : rt)
  : list nat -> command -> group -> list str -> list str -> opt -> align -> res str :=
  fun _ _ g ns envns o a => help_option cfg r o ns envns g a.
Definition model_ha : list nat -> command -> arg -> nat -> option str :=
  fun _ _ ar dstart => arg_pad ar dstart.

Lemma gen_eq cfg r inner l a acc rows :
  g_cmds (model_ho cfg r) model_ha cfg inner l a acc rows = whr_cmds cfg r inner l a acc rows.
Proof. reflexivity. Qed.

(* the usage text, copied from write_help_rows *)
Definition help_usage (cfg : pconfig) (root : command) (r : rt) : str :=
  let chain := help_chain root r in
  let innermost := help_innermost root r in
  let n := length chain in
  (if nonempty (c_name (cmd_info root)) then
    s2l "Usage:" ++ [10; 32] ++
    concat (map (fun ipc : nat * (list nat * command) =>
                   let '(i, (p, c)) := ipc in
                   let u := usage_of cfg c (is_root_path p) in
                   32 :: c_name (cmd_info c) ++ (if nonempty u then 32 :: u else []) ++ usage_args c
                      ++ usage_cmds c (Nat.eqb (S i) n))
                (combine (seq 0 n) chain)) ++ [10] ++
    (match g_long (grp_info (cmd_group innermost)) with
     | [] => []
     | ld => [10] ++ wrap_text ld (cols cfg) [] ++ [10]
     end)
  else [])%N.

(* write_help_rows with the two layout functions abstracted *)
Definition gen_write_help_rows (cfg : pconfig) (root : command) (r : rt) ho ha : res (str * list hrow) :=
  g_cmds ho ha cfg (help_innermost root r) (help_chain root r) (help_align cfg root r) (help_usage cfg root r) [].

Lemma gen_write_help_rows_model cfg root r :
  write_help_rows cfg root r = gen_write_help_rows cfg root r (model_ho cfg r) model_ha.
Proof. reflexivity. Qed.

(* ------------------------------------------------------------------ one-step equations *)
Definition set_indent (a : align) : align :=
  {| al_maxlong := al_maxlong a; al_hasshort := al_hasshort a; al_hasvalname := al_hasvalname a; al_indent := true |}.
(* the record used for the row of a displayable option, given the pending "print the command
   header" flag *)
Definition opt_a (pc : bool) (a : align) : align := if pc then set_indent a else a.
Definition opt_acc (c : command) (g : group) (nh pc first : bool) (a : align) (acc : str) : str :=
  let acc1 := (if pc then acc ++ [10] ++ s2l "[" ++ c_name (cmd_info c) ++ s2l " command options]" ++ [10] else acc)%N in
  (if first && negb nh
   then acc1 ++ [10] ++ (if al_indent (opt_a pc a) then s2l "    " else []) ++ g_short (grp_info g) ++ s2l ":" ++ [10]
   else acc1)%N.
Definition opt_first (nh first : bool) : bool := if first && negb nh then false else first.

Section GenSteps.
  Variable ho : list nat -> command -> group -> list str -> list str -> opt -> align -> res str.
  Variable ha : list nat -> command -> arg -> nat -> option str.

  Lemma g_opts_nil p c nh g ns envns a acc pc first rows :
    g_opts ho p c nh g ns envns [] a acc pc first rows = Ok (a, acc, pc, first, rows).
  Proof. reflexivity. Qed.

  Lemma g_opts_cons p c nh g ns envns o os a acc pc first rows :
    g_opts ho p c nh g ns envns (o :: os) a acc pc first rows =
    if negb (opt_show_in_help o) then g_opts ho p c nh g ns envns os a acc pc first rows
    else
      row <- ho p c g ns envns o (opt_a pc a) ;;
      g_opts ho p c nh g ns envns os (opt_a pc a) (opt_acc c g nh pc first a acc ++ row) false
             (opt_first nh first) (rows ++ [HOpt (o_fid o)]).
  Proof.
    cbn [g_opts]. unfold opt_a, opt_acc, opt_first.
    destruct (negb (opt_show_in_help o)); [reflexivity|].
    destruct pc; destruct (first && negb nh); reflexivity.
  Qed.

  Lemma g_groups_nil p c rest is_root a acc pc own rows :
    g_groups ho p c rest is_root [] a acc pc own rows = Ok (a, acc, pc, rows).
  Proof. reflexivity. Qed.

  Lemma g_groups_cons p c rest is_root g ns envns gs a acc pc own rows :
    g_groups ho p c rest is_root ((g, ns, envns) :: gs) a acc pc own rows =
    if g_hidden (grp_info g) || (g_builtin_help (grp_info g) && negb is_root)
    then g_groups ho p c rest is_root gs a acc pc false rows
    else
      x <- g_opts ho p c (own && match rest with [] => true | _ => false end) g ns envns
                  (grp_opts g) a acc pc true rows ;;
      g_groups ho p c rest is_root gs (fst (fst (fst (fst x)))) (snd (fst (fst (fst x))))
               (snd (fst (fst x))) false (snd x).
  Proof.
    cbn [g_groups].
    destruct (g_hidden (grp_info g) || (g_builtin_help (grp_info g) && negb is_root)); [reflexivity|].
    destruct (g_opts ho p c (own && match rest with [] => true | _ => false end) g ns envns
                     (grp_opts g) a acc pc true rows) as [[[[[a1 acc1] pc1] f1] rows1]|e|w]; reflexivity.
  Qed.

  Lemma g_argrows_nil cfg p c dstart acc rows : g_argrows ha cfg p c dstart [] acc rows = Ok (acc, rows).
  Proof. reflexivity. Qed.

  Lemma g_argrows_cons cfg p c dstart ar l acc rows :
    g_argrows ha cfg p c dstart (ar :: l) acc rows =
    match ha p c ar dstart with
    | None => Panic (s2l "strings: negative Repeat count")
    | Some pad =>
      g_argrows ha cfg p c dstart l
                (acc ++ (s2l "  " ++ a_name ar ++ s2l ":") ++ pad ++
                 wrap_text (a_desc ar) (cols cfg - 1 - Z.of_nat dstart) (spaces dstart) ++ [10])%N
                (rows ++ [HArg (a_fid ar)])
    end.
  Proof. reflexivity. Qed.

  Definition arg_head (p : list nat) (c : command) : str :=
    (if is_root_path p then [10] ++ s2l "Arguments:" ++ [10]
     else [10] ++ s2l "[" ++ c_name (cmd_info c) ++ s2l " command arguments]" ++ [10])%N.

  Lemma g_cmds_nil cfg inner a acc rows :
    g_cmds ho ha cfg inner [] a acc rows =
    Ok (acc ++ whr_cmdlist (sorted_visible_cmds inner), rows ++ map cmd_row (sorted_visible_cmds inner)).
  Proof. reflexivity. Qed.

  Lemma g_cmds_cons cfg inner p c rest a acc rows :
    g_cmds ho ha cfg inner ((p, c) :: rest) a acc rows =
    x <- g_groups ho p c rest (is_root_path p) (cmd_group_ctxs c) a acc (negb (is_root_path p)) true rows ;;
    y <- match described_args c with
         | [] => Ok (snd (fst (fst x)), snd x)
         | _ =>
           g_argrows ha cfg p c (description_start (fst (fst (fst x))) + 2) (described_args c)
                     (snd (fst (fst x)) ++ arg_head p c) (snd x)
         end ;;
    g_cmds ho ha cfg inner rest (fst (fst (fst x))) (fst y) (snd y).
  Proof.
    cbn [g_cmds]. unfold arg_head, described_args.
    destruct (g_groups ho p c rest (is_root_path p) (cmd_group_ctxs c) a acc (negb (is_root_path p)) true rows)
      as [[[[a1 acc1] pc1] rows1]|e|w]; try reflexivity.
    cbn [bind fst snd].
    destruct (filter (fun ar : arg => nonempty (a_desc ar)) (cmd_args c)) as [|ar l]; [reflexivity|].
    match goal with |- bind ?X ?F = bind ?Y ?G => change (bind Y F = bind Y G); destruct Y as [[acc2 rows2]|e|w] end;
      reflexivity.
  Qed.
End GenSteps.

(* ------------------------------------------------------------------ how the record evolves *)
(* the three layout columns of a record (everything except the indent flag) *)
Definition same_cols (a b : align) : Prop :=
  al_maxlong a = al_maxlong b /\ al_hasshort a = al_hasshort b /\ al_hasvalname a = al_hasvalname b.

Lemma same_cols_refl a : same_cols a a.
Proof. unfold same_cols. auto. Qed.
Lemma same_cols_trans a b c : same_cols a b -> same_cols b c -> same_cols a c.
Proof. unfold same_cols. intros (?&?&?) (?&?&?). repeat split; congruence. Qed.

Lemma description_start_cols a b : same_cols a b -> description_start a = description_start b.
Proof. intros (H1 & H2 & H3). unfold description_start. now rewrite H1, H2, H3. Qed.

Lemma opt_a_cols pc a : same_cols (opt_a pc a) a.
Proof. destruct pc; cbn [opt_a]; [|apply same_cols_refl]. unfold same_cols, set_indent. cbn. auto. Qed.
Lemma opt_a_indent pc a : al_indent (opt_a pc a) = true -> al_indent a = true \/ pc = true.
Proof. destruct pc; cbn; auto. Qed.

Definition nonroot (pc : list nat * command) : Prop := is_root_path (fst pc) = false.

Section GenPost.
  Variable ho : list nat -> command -> group -> list str -> list str -> opt -> align -> res str.

  (* whatever the row layout function: the traversal of the options of a group leaves the
     three columns alone, can only switch the indent flag on, and only when the pending
     command header flag was set; that flag is never switched on *)
  Lemma g_opts_post p c nh g ns envns : forall os a acc pc first rows a' acc' pc' first' rows',
    g_opts ho p c nh g ns envns os a acc pc first rows = Ok (a', acc', pc', first', rows') ->
    same_cols a' a /\ (al_indent a' = true -> al_indent a = true \/ pc = true) /\ (pc' = true -> pc = true).
  Proof.
    induction os as [|o os IH]; intros a acc pc first rows a' acc' pc' first' rows' H.
    - rewrite g_opts_nil in H. inversion H; subst. split; [apply same_cols_refl|]. auto.
    - rewrite g_opts_cons in H. destruct (negb (opt_show_in_help o)); [now apply IH in H|].
      destruct (ho p c g ns envns o (opt_a pc a)) as [row|e|w]; cbn [bind] in H; try discriminate.
      apply IH in H. destruct H as (H1 & H2 & H3). split; [|split].
      + eapply same_cols_trans; [exact H1|apply opt_a_cols].
      + intros Hi. destruct (H2 Hi) as [K|K]; [now apply opt_a_indent|discriminate].
      + intros K. apply H3 in K. discriminate.
  Qed.

  Lemma g_groups_post p c rest is_root : forall gs a acc pc own rows a' acc' pc' rows',
    g_groups ho p c rest is_root gs a acc pc own rows = Ok (a', acc', pc', rows') ->
    same_cols a' a /\ (al_indent a' = true -> al_indent a = true \/ pc = true) /\ (pc' = true -> pc = true).
  Proof.
    induction gs as [|[[g ns] envns] gs IH]; intros a acc pc own rows a' acc' pc' rows' H.
    - rewrite g_groups_nil in H. inversion H; subst. split; [apply same_cols_refl|]. auto.
    - rewrite g_groups_cons in H.
      destruct (g_hidden (grp_info g) || (g_builtin_help (grp_info g) && negb is_root)); [now apply IH in H|].
      destruct (g_opts ho p c (own && match rest with [] => true | _ => false end) g ns envns
                       (grp_opts g) a acc pc true rows) as [[[[[a1 acc1] pc1] f1] rows1]|e|w] eqn:E;
        cbn [bind fst snd] in H; try discriminate.
      apply g_opts_post in E. apply IH in H.
      destruct E as (E1 & E2 & E3). destruct H as (H1 & H2 & H3). split; [|split].
      + eapply same_cols_trans; eassumption.
      + intros Hi. destruct (H2 Hi) as [K|K]; [now apply E2|right; now apply E3].
      + intros K. now apply E3, H3.
  Qed.
End GenPost.

(* ------------------------------------------------------------------ shape of the chain *)
Lemma active_chain_nonroot active : forall fuel c path, path <> [] ->
  Forall nonroot (active_chain fuel active c path).
Proof.
  induction fuel as [|f IH]; intros c path Hp; cbn [active_chain]; [constructor|].
  constructor.
  - unfold nonroot. cbn [fst]. destruct path; [congruence|reflexivity].
  - destruct (get_active active path) as [i|]; [|constructor].
    destruct (nth_error (cmd_subs c) i) as [sub|]; [|constructor].
    apply IH. intros C. apply app_eq_nil in C. destruct C as [_ C]. discriminate.
Qed.

(* the chain starts with the root; all other commands on it have a non-empty path *)
Lemma help_chain_shape root r :
  exists tl, help_chain root r = ([], root) :: tl /\ Forall nonroot tl.
Proof.
  unfold help_chain. destruct root as [ci g args subs]. cbn [cmd_depth]. cbn [active_chain].
  eexists. split; [reflexivity|].
  destruct (get_active (rt_active r) []) as [i|]; [|constructor].
  destruct (nth_error _ i) as [sub|]; [|constructor].
  apply active_chain_nonroot. discriminate.
Qed.

(* ================================================================== TARGET 2: the indent flag *)
(* A "row site": the arguments with which the traversal, run over [chain] from a record with
   the columns of [A], may call the option-row layout function.  The record passed has the
   columns of A, and its indent flag is on ONLY for a command other than the root. *)
Definition opt_site (chain : list (list nat * command)) (A : align)
           (p : list nat) (c : command) (g : group) (ns envns : list str) (o : opt) (a : align) : Prop :=
  In (p, c) chain /\ In (g, ns, envns) (cmd_group_ctxs c) /\
  g_hidden (grp_info g) = false /\ (g_builtin_help (grp_info g) = true -> is_root_path p = true) /\
  In o (grp_opts g) /\ opt_show_in_help o = true /\
  same_cols a A /\ (al_indent a = true -> is_root_path p = false).

(* the arguments with which the argument-row padding function may be called: always the
   description column of A *)
Definition arg_site (chain : list (list nat * command)) (A : align)
           (p : list nat) (c : command) (ar : arg) (dstart : nat) : Prop :=
  In (p, c) chain /\ In ar (cmd_args c) /\ nonempty (a_desc ar) = true /\
  dstart = description_start A + 2.

(* suffixes of the chain met by the traversal: at most the head is the root *)
Definition chain_shape (l : list (list nat * command)) : Prop :=
  match l with [] => True | _ :: rest => Forall nonroot rest end.

Section Ext.
  Variable cfg : pconfig.
  Variable chain : list (list nat * command).
  Variable A : align.
  Variables ho1 ho2 : list nat -> command -> group -> list str -> list str -> opt -> align -> res str.
  Variables ha1 ha2 : list nat -> command -> arg -> nat -> option str.
  Hypothesis Hho : forall p c g ns envns o a,
      opt_site chain A p c g ns envns o a -> ho1 p c g ns envns o a = ho2 p c g ns envns o a.
  Hypothesis Hha : forall p c ar dstart,
      arg_site chain A p c ar dstart -> ha1 p c ar dstart = ha2 p c ar dstart.

  Lemma g_opts_ext p c nh g ns envns :
    In (p, c) chain -> In (g, ns, envns) (cmd_group_ctxs c) ->
    g_hidden (grp_info g) = false -> (g_builtin_help (grp_info g) = true -> is_root_path p = true) ->
    forall os, incl os (grp_opts g) -> forall a acc pc first rows,
      same_cols a A -> (al_indent a = true -> is_root_path p = false) -> (pc = true -> is_root_path p = false) ->
      g_opts ho1 p c nh g ns envns os a acc pc first rows = g_opts ho2 p c nh g ns envns os a acc pc first rows.
  Proof.
    intros Hpc Hg Hh Hb. induction os as [|o os IH]; intros Hos a acc pc first rows Hc Hi Hp; [reflexivity|].
    rewrite !g_opts_cons.
    assert (Hos' : incl os (grp_opts g)) by (intros x Hx; apply Hos; now right).
    destruct (opt_show_in_help o) eqn:Hs; cbn [negb]; [|now apply IH].
    assert (Hc' : same_cols (opt_a pc a) A) by (eapply same_cols_trans; [apply opt_a_cols|exact Hc]).
    assert (Hi' : al_indent (opt_a pc a) = true -> is_root_path p = false).
    { intros K. destruct (opt_a_indent _ _ K); auto. }
    rewrite (Hho p c g ns envns o (opt_a pc a)).
    - destruct (ho2 p c g ns envns o (opt_a pc a)) as [row|e|w]; cbn [bind]; try reflexivity.
      apply IH; [assumption..|discriminate].
    - unfold opt_site. repeat (split; [assumption|]). split; [apply Hos; now left|]. auto.
  Qed.

  Lemma g_groups_ext p c rest :
    In (p, c) chain ->
    forall gs, incl gs (cmd_group_ctxs c) -> forall a acc pc own rows,
      same_cols a A -> (al_indent a = true -> is_root_path p = false) -> (pc = true -> is_root_path p = false) ->
      g_groups ho1 p c rest (is_root_path p) gs a acc pc own rows =
      g_groups ho2 p c rest (is_root_path p) gs a acc pc own rows.
  Proof.
    intros Hpc. induction gs as [|[[g ns] envns] gs IH]; intros Hgs a acc pc own rows Hc Hi Hp; [reflexivity|].
    rewrite !g_groups_cons.
    assert (Hgs' : incl gs (cmd_group_ctxs c)) by (intros x Hx; apply Hgs; now right).
    destruct (g_hidden (grp_info g) || (g_builtin_help (grp_info g) && negb (is_root_path p))) eqn:Hf;
      [now apply IH|].
    apply orb_false_iff in Hf. destruct Hf as [Hh Hb].
    rewrite (g_opts_ext p c (own && match rest with [] => true | _ => false end) g ns envns Hpc);
      [|apply Hgs; now left|exact Hh| |apply incl_refl|exact Hc|exact Hi|exact Hp].
    - destruct (g_opts ho2 p c (own && match rest with [] => true | _ => false end) g ns envns
                       (grp_opts g) a acc pc true rows) as [[[[[a1 acc1] pc1] f1] rows1]|e|w] eqn:E;
        cbn [bind fst snd]; try reflexivity.
      apply g_opts_post in E. destruct E as (E1 & E2 & E3).
      apply IH; [assumption| | |].
      + eapply same_cols_trans; eassumption.
      + intros K. destruct (E2 K); auto.
      + intros K. auto.
    - intros K. rewrite K in Hb. cbn [andb] in Hb. now apply negb_false_iff in Hb.
  Qed.

  Lemma g_argrows_ext p c dstart :
    In (p, c) chain -> dstart = description_start A + 2 ->
    forall l, incl l (described_args c) -> forall acc rows,
      g_argrows ha1 cfg p c dstart l acc rows = g_argrows ha2 cfg p c dstart l acc rows.
  Proof.
    intros Hpc Hd. induction l as [|ar l IH]; intros Hl acc rows; [reflexivity|].
    rewrite !g_argrows_cons.
    assert (Har : In ar (described_args c)) by (apply Hl; now left).
    apply filter_In in Har. destruct Har as [Har Hdesc].
    rewrite (Hha p c ar dstart) by (unfold arg_site; auto).
    destruct (ha2 p c ar dstart); [|reflexivity].
    apply IH. intros x Hx. apply Hl. now right.
  Qed.

  Lemma g_cmds_ext inner : forall l, incl l chain -> chain_shape l -> forall a acc rows,
    same_cols a A -> (al_indent a = true -> Forall nonroot l) ->
    g_cmds ho1 ha1 cfg inner l a acc rows = g_cmds ho2 ha2 cfg inner l a acc rows.
  Proof.
    induction l as [|[p c] rest IH]; intros Hl Hsh a acc rows Hc Hi; [reflexivity|].
    rewrite !g_cmds_cons.
    assert (Hpc : In (p, c) chain) by (apply Hl; now left).
    assert (Hl' : incl rest chain) by (intros x Hx; apply Hl; now right).
    cbn [chain_shape] in Hsh.
    assert (Hi' : al_indent a = true -> is_root_path p = false).
    { intros K. apply Hi in K. inversion K; subst. assumption. }
    rewrite (g_groups_ext p c rest Hpc (cmd_group_ctxs c) (incl_refl _) a acc (negb (is_root_path p)) true rows Hc Hi')
      by (intros K; now apply negb_true_iff in K).
    destruct (g_groups ho2 p c rest (is_root_path p) (cmd_group_ctxs c) a acc (negb (is_root_path p)) true rows)
      as [[[[a1 acc1] pc1] rows1]|e|w] eqn:E; cbn [bind fst snd]; try reflexivity.
    apply g_groups_post in E. destruct E as (E1 & E2 & _).
    assert (Hc1 : same_cols a1 A) by (eapply same_cols_trans; eassumption).
    assert (Hargs : match described_args c with
                    | [] => Ok (acc1, rows1)
                    | _ => g_argrows ha1 cfg p c (description_start a1 + 2) (described_args c) (acc1 ++ arg_head p c) rows1
                    end =
                    match described_args c with
                    | [] => Ok (acc1, rows1)
                    | _ => g_argrows ha2 cfg p c (description_start a1 + 2) (described_args c) (acc1 ++ arg_head p c) rows1
                    end).
    { destruct (described_args c) eqn:ED; [reflexivity|]. rewrite <- ED.
      apply g_argrows_ext; [exact Hpc| |apply incl_refl].
      now rewrite (description_start_cols a1 A Hc1). }
    rewrite Hargs.
    match goal with |- bind ?X _ = _ => destruct X as [[acc2 rows2]|e|w] end; cbn [bind fst snd]; try reflexivity.
    apply IH; [exact Hl'| |exact Hc1|].
    - destruct rest as [|x rest']; [exact I|]. cbn [chain_shape]. now inversion Hsh.
    - intros _. exact Hsh.
  Qed.
End Ext.

(* the row sites of write_help_rows itself *)
Definition help_opt_site (cfg : pconfig) (root : command) (r : rt) :=
  opt_site (help_chain root r) (help_align cfg root r).
Definition help_arg_site (cfg : pconfig) (root : command) (r : rt) :=
  arg_site (help_chain root r) (help_align cfg root r).

Lemma help_align_indent cfg root r : al_indent (help_align cfg root r) = false.
Proof. unfold help_align. destruct (align_chain_dom cfg (help_chain root r) align0) as [(_ & _ & _ & H) _]. exact H. Qed.

(* a displayable option of a non-hidden group makes the group displayable: the filter of
   align_cmd (group_show_in_help) lets through every option that write_help_rows prints *)
Lemma printed_group_counted g o :
  g_hidden (grp_info g) = false -> In o (grp_opts g) -> opt_show_in_help o = true ->
  group_show_in_help g = true.
Proof.
  intros Hh Ho Hs. unfold group_show_in_help. rewrite Hh. cbn [negb andb].
  apply existsb_exists. exists o. auto.
Qed.

(* at every row site the record dominates the option, INCLUDING the indentation actually
   used for the row: the premises of WrapSpec.C17_no_negative_padding_option *)
Lemma site_dominated cfg chain a0 p c g ns envns o a :
  opt_site chain (align_chain cfg chain a0) p c g ns envns o a ->
  rune_count (long_with_ns (pc_nsdelim cfg) ns (o_long o) ++ o_valname o ++ choices_text o)
    + (if al_indent a then 4 else 0) <= al_maxlong a /\
  (o_short o <> 0%N -> al_hasshort a = true) /\
  (o_valname o <> [] -> al_hasvalname a = true).
Proof.
  intros (Hpc & Hg & Hh & _ & Ho & Hs & (C1 & C2 & C3) & Hi).
  destruct (align_chain_dom cfg chain a0) as [_ Hdom].
  destruct (Hdom (p, c) Hpc) as [Hopt _]. cbn [fst snd] in Hopt.
  destruct (Hopt g ns envns o Hg (printed_group_counted g o Hh Ho Hs) Ho Hs) as (D1 & D2 & D3).
  rewrite C1, C2, C3. split; [|tauto].
  destruct (al_indent a); [rewrite (Hi eq_refl) in D1; lia|].
  destruct (is_root_path p); lia.
Qed.

Lemma site_arg_dominated cfg chain a0 p c ar dstart :
  arg_site chain (align_chain cfg chain a0) p c ar dstart ->
  rune_count (s2l "  " ++ a_name ar ++ s2l ":") < dstart.
Proof.
  intros (Hpc & Har & _ & ->).
  destruct (align_chain_dom cfg chain a0) as [_ Hdom].
  destruct (Hdom (p, c) Hpc) as [_ Harg]. cbn [fst snd] in Harg. specialize (Harg ar Har).
  unfold arg_dom in Harg.
  change (s2l "  ") with [32; 32]%N. change (s2l ":") with [58%N]. cbn [app].
  rewrite !rune_count_ascii_cons by lia.
  rewrite rune_count_app_noncont by (unfold noncont; lia).
  rewrite rune_count_ascii_cons, rune_count_nil by lia.
  unfold description_start. destruct (is_root_path p); lia.
Qed.

(* ------------------------------------------------------------------ TARGET 2 statement *)
(* (1) the chain starts with the root and every other command on it is not the root, so the
       rows of the root are laid out first;
   (2) the record computed by the alignment pass has the indent flag off;
   (3) write_help_rows is the generic traversal with help_option / repeat_space plugged in;
   (4) the traversal calls the row layout function ONLY at row sites (opt_site / arg_site):
       replacing it by any function that agrees with it on the row sites does not change the
       result.  At a row site the record has the columns of the computed alignment and its
       indent flag is on only for a command that is not the root;
   (5) consequently at every row site the premises of C17_no_negative_padding_option about
       the record hold, with the indentation actually in force. *)
Theorem C17_indent_consistent : forall cfg root r,
  (exists tl, help_chain root r = ([], root) :: tl /\
              Forall (fun pc : list nat * command => is_root_path (fst pc) = false) tl) /\
  al_indent (help_align cfg root r) = false /\
  write_help_rows cfg root r = gen_write_help_rows cfg root r (model_ho cfg r) model_ha /\
  (forall ho1 ho2 ha1 ha2,
      (forall p c g ns envns o a, help_opt_site cfg root r p c g ns envns o a ->
                                  ho1 p c g ns envns o a = ho2 p c g ns envns o a) ->
      (forall p c ar dstart, help_arg_site cfg root r p c ar dstart ->
                             ha1 p c ar dstart = ha2 p c ar dstart) ->
      gen_write_help_rows cfg root r ho1 ha1 = gen_write_help_rows cfg root r ho2 ha2) /\
  (forall p c g ns envns o a, help_opt_site cfg root r p c g ns envns o a ->
      (al_indent a = true -> p <> []) /\
      al_maxlong a = al_maxlong (help_align cfg root r) /\
      al_hasshort a = al_hasshort (help_align cfg root r) /\
      al_hasvalname a = al_hasvalname (help_align cfg root r) /\
      rune_count (long_with_ns (pc_nsdelim cfg) ns (o_long o) ++ o_valname o ++ choices_text o)
        + (if al_indent a then 4 else 0) <= al_maxlong a /\
      (o_short o <> 0%N -> al_hasshort a = true) /\
      (o_valname o <> [] -> al_hasvalname a = true)).
Proof.
  intros cfg root r. split; [apply help_chain_shape|]. split; [apply help_align_indent|].
  split; [reflexivity|]. split.
  - intros ho1 ho2 ha1 ha2 Hho Hha. unfold gen_write_help_rows.
    destruct (help_chain_shape root r) as (tl & E & Htl).
    apply (g_cmds_ext cfg (help_chain root r) (help_align cfg root r) ho1 ho2 ha1 ha2 Hho Hha);
      [apply incl_refl| |apply same_cols_refl|].
    + rewrite E. exact Htl.
    + rewrite help_align_indent. discriminate.
  - intros p c g ns envns o a Hs.
    pose proof (site_dominated cfg (help_chain root r) align0 p c g ns envns o a Hs) as (D1 & D2 & D3).
    destruct Hs as (_ & _ & _ & _ & _ & _ & (C1 & C2 & C3) & Hi).
    split; [|tauto]. intros K E. subst p. specialize (Hi K). discriminate.
Qed.

Lemma choices_text_head o : choices_text o = [] \/ exists t, choices_text o = 91%N :: t.
Proof. unfold choices_text. destruct (o_choices o); [now left|right]. eexists. reflexivity. Qed.

(* rune count of name ++ value name ++ choices, as counted by the alignment pass, against the
   separate counts that make up the written row: equal when there is no value name (the
   choices start with an ASCII bracket), at most 3 less otherwise *)
Lemma rc_long_valname_choices L o :
  rune_count L + rune_count (o_valname o ++ choices_text o)
  <= rune_count (L ++ o_valname o ++ choices_text o) + (match o_valname o with [] => 0 | _ => 3 end).
Proof.
  destruct (o_valname o) as [|v vt] eqn:Hv.
  - cbn [app]. destruct (choices_text_head o) as [->|(t & ->)].
    + rewrite app_nil_r, rune_count_nil. lia.
    + rewrite rune_count_app_noncont by (unfold noncont; lia). lia.
  - apply rune_count_app_le3.
Qed.

(* WrapSpec.help_written_le without the UTF-8 validity hypothesis, using instead that the
   record knows about value names *)
Lemma help_written_le_any cfg o ns a :
  rune_count (long_with_ns (pc_nsdelim cfg) ns (o_long o) ++ o_valname o ++ choices_text o)
    + (if al_indent a then 4 else 0) <= al_maxlong a ->
  (o_short o <> 0%N -> al_hasshort a = true) ->
  (o_valname o <> [] -> al_hasvalname a = true) ->
  rune_count (help_line2 cfg o ns a) + 1 <= description_start a + 2.
Proof.
  intros Hdom Hshort Hval. unfold help_line2, description_start. cbv zeta.
  set (L := long_with_ns (pc_nsdelim cfg) ns (o_long o)) in *.
  pose proof (rc_long_valname_choices L o) as Hsub.
  assert (Hv3 : match o_valname o with [] => 0 | _ => 3 end <= if al_hasvalname a then 3 else 0).
  { destruct (o_valname o); [lia|]. rewrite Hval by discriminate. lia. }
  set (VC := o_valname o ++ choices_text o) in *.
  change (s2l "  ") with [32; 32]%N. change (s2l ", ") with [44; 32]%N. change (s2l "--") with [45; 45]%N.
  assert (HL : nonempty (o_long o) = true -> 1 <= rune_count (L ++ VC)).
  { intros H. apply rune_count_pos.
    assert (L <> []) by (apply long_with_ns_ne; destruct (o_long o); discriminate).
    destruct L; [congruence|discriminate]. }
  destruct (N.eqb_spec (o_short o) 0) as [Hs|Hs]; cbn [negb];
    [|rewrite (Hshort Hs) in *];
    destruct (al_hasshort a); destruct (nonempty (o_long o)); destruct (can_argument o);
    rewrite <- ?app_assoc; cbn [app];
    repeat (first [ rewrite rc_spaces | rewrite rune_count_ascii_cons by lia | rewrite rc_enc
                  | rewrite rc_enc_nil | rewrite (rune_count_app_noncont L) by (unfold noncont; lia)
                  | rewrite rune_count_nil ]);
    try specialize (HL eq_refl);
    destruct (Nat.ltb_spec 0 (al_maxlong a)); destruct (al_indent a);
    try lia.
Qed.
(* ================================================================== TARGET 3: no panic *)
(* with layout functions that always succeed the traversal always succeeds *)
Section Total.
  Variable ho : list nat -> command -> group -> list str -> list str -> opt -> align -> res str.
  Variable ha : list nat -> command -> arg -> nat -> option str.
  Hypothesis Hho : forall p c g ns envns o a, exists row, ho p c g ns envns o a = Ok row.
  Hypothesis Hha : forall p c ar dstart, exists pad, ha p c ar dstart = Some pad.

  Lemma g_opts_total p c nh g ns envns : forall os a acc pc first rows,
    exists x, g_opts ho p c nh g ns envns os a acc pc first rows = Ok x.
  Proof.
    induction os as [|o os IH]; intros a acc pc first rows; [eexists; reflexivity|].
    rewrite g_opts_cons. destruct (negb (opt_show_in_help o)); [apply IH|].
    destruct (Hho p c g ns envns o (opt_a pc a)) as (row & ->). cbn [bind]. apply IH.
  Qed.

  Lemma g_groups_total p c rest is_root : forall gs a acc pc own rows,
    exists x, g_groups ho p c rest is_root gs a acc pc own rows = Ok x.
  Proof.
    induction gs as [|[[g ns] envns] gs IH]; intros a acc pc own rows; [eexists; reflexivity|].
    rewrite g_groups_cons.
    destruct (g_hidden (grp_info g) || (g_builtin_help (grp_info g) && negb is_root)); [apply IH|].
    destruct (g_opts_total p c (own && match rest with [] => true | _ => false end) g ns envns
                           (grp_opts g) a acc pc true rows) as (x & ->).
    cbn [bind]. apply IH.
  Qed.

  Lemma g_argrows_total cfg p c dstart : forall l acc rows,
    exists x, g_argrows ha cfg p c dstart l acc rows = Ok x.
  Proof.
    induction l as [|ar l IH]; intros acc rows; [eexists; reflexivity|].
    rewrite g_argrows_cons. destruct (Hha p c ar dstart) as (pad & ->). apply IH.
  Qed.

  Lemma g_cmds_total cfg inner : forall l a acc rows,
    exists x, g_cmds ho ha cfg inner l a acc rows = Ok x.
  Proof.
    induction l as [|[p c] rest IH]; intros a acc rows; [eexists; reflexivity|].
    rewrite g_cmds_cons.
    destruct (g_groups_total p c rest (is_root_path p) (cmd_group_ctxs c) a acc (negb (is_root_path p)) true rows)
      as (x & ->). cbn [bind].
    destruct (described_args c) as [|ar l].
    - cbn [bind]. apply IH.
    - destruct (g_argrows_total cfg p c (description_start (fst (fst (fst x))) + 2) (ar :: l)
                                (snd (fst (fst x)) ++ arg_head p c) (snd x)) as (y & ->).
      cbn [bind]. apply IH.
  Qed.
End Total.

(* the layout functions of the model, made total (the default is never used at a row site) *)
Definition safe_ho (cfg : pconfig) (r : rt)
  : list nat -> command -> group -> list str -> list str -> opt -> align -> res str :=
  fun _ _ g ns envns o a => match help_option cfg r o ns envns g a with Ok row => Ok row | _ => Ok [] end.
Definition safe_ha : list nat -> command -> arg -> nat -> option str :=
  fun _ _ ar dstart => match arg_pad ar dstart with Some pad => Some pad | None => Some [] end.

Lemma help_option_no_desc cfg r o ns envns g a :
  o_desc o = [] -> exists row, help_option cfg r o ns envns g a = Ok row.
Proof. intros H. rewrite help_option_eq, H. eexists. reflexivity. Qed.

(* ------------------------------------------------------------------ padding, any names *)
(* WrapSpec.C17_no_negative_padding_option asks for a valid UTF-8 long name.  That hypothesis
   can be traded for "the record knows about value names" (which the alignment pass
   guarantees, TARGET 1): whatever the bytes of the names, the row text ends at least one
   column before the description column. *)
Theorem C17_no_negative_padding_any_names : forall cfg r o ns envns g a,
  rune_count (long_with_ns (pc_nsdelim cfg) ns (o_long o) ++ o_valname o ++ choices_text o)
    + (if al_indent a then 4 else 0) <= al_maxlong a ->
  (o_short o <> 0%N -> al_hasshort a = true) ->
  (o_valname o <> [] -> al_hasvalname a = true) ->
  rune_count (help_line2 cfg o ns a) < description_start a + 2 /\
  (forall msg, help_option cfg r o ns envns g a <> Panic msg) /\
  (exists out, help_option cfg r o ns envns g a = Ok out).
Proof.
  intros cfg r o ns envns g a Hdom Hshort Hval.
  pose proof (help_written_le_any cfg o ns a Hdom Hshort Hval) as Hle.
  split; [lia|]. rewrite help_option_eq.
  destruct (o_desc o) as [|d0 d].
  - split; [discriminate|]. eexists; reflexivity.
  - unfold repeat_space.
    destruct (Z.ltb_spec (Z.of_nat (description_start a + 2) - Z.of_nat (rune_count (help_line2 cfg o ns a))) 0) as [Hn|Hn];
      [lia|].
    cbv zeta. split; [discriminate|]. eexists; reflexivity.
Qed.

(* ------------------------------------------------------------------ TARGET 3 statement *)
(* No hypothesis at all: whatever the declarations (names need not even be valid UTF-8), the
   descriptions, the active commands and the terminal width, help generation returns a text. *)
Theorem C17_write_help_never_panics : forall cfg root r,
  (forall t, write_help_rows cfg root r <> Panic t) /\
  (forall t, write_help cfg root r <> Panic t) /\
  (exists out rows, write_help_rows cfg root r = Ok (out, rows) /\ write_help cfg root r = Ok out).
Proof.
  intros cfg root r.
  assert (E : exists x, write_help_rows cfg root r = Ok x).
  { destruct (C17_indent_consistent cfg root r) as (_ & _ & Eq & Hext & Hsite).
    rewrite Eq.
    rewrite (Hext (model_ho cfg r) (safe_ho cfg r) model_ha safe_ha).
    - unfold gen_write_help_rows. apply g_cmds_total.
      + intros p c g ns envns o a. unfold safe_ho.
        destruct (help_option cfg r o ns envns g a); eexists; reflexivity.
      + intros p c ar dstart. unfold safe_ha. destruct (arg_pad ar dstart); eexists; reflexivity.
    - intros p c g ns envns o a Hs. unfold model_ho, safe_ho.
      destruct (Hsite p c g ns envns o a Hs) as (_ & _ & _ & _ & D1 & D2 & D3).
      destruct (C17_no_negative_padding_any_names cfg r o ns envns g a D1 D2 D3) as (_ & _ & row & ->).
      reflexivity.
    - intros p c ar dstart Hs. unfold model_ha, safe_ha.
      pose proof (site_arg_dominated cfg (help_chain root r) align0 p c ar dstart Hs) as Hlt.
      unfold arg_pad, repeat_space.
      destruct (Z.ltb_spec (Z.of_nat dstart - Z.of_nat (rune_count (s2l "  " ++ a_name ar ++ s2l ":"))) 0);
        [lia|reflexivity]. }
  destruct E as ([out rows] & E). unfold write_help. rewrite E. cbn [bind fst].
  split; [discriminate|]. split; [discriminate|]. exists out, rows. auto.
Qed.

(* the statement in the form of the task description (with its two validity hypotheses,
   which turn out not to be needed) *)
Corollary C17_write_help_never_panics_valid : forall cfg root r,
  (forall p c g ns envns o,
      In (p, c) (help_chain root r) -> In (g, ns, envns) (cmd_group_ctxs c) ->
      g_hidden (grp_info g) = false -> In o (grp_opts g) -> opt_show_in_help o = true ->
      valid_utf8 (long_with_ns (pc_nsdelim cfg) ns (o_long o)) = true) ->
  (forall p c ar, In (p, c) (help_chain root r) -> In ar (cmd_args c) -> valid_utf8 (a_name ar) = true) ->
  forall t, write_help_rows cfg root r <> Panic t.
Proof. intros cfg root r _ _. apply C17_write_help_never_panics. Qed.

(* ================================================================== TARGET 4: one column *)
Lemma rc_app_spaces s n : rune_count (s ++ spaces n) = rune_count s + n.
Proof.
  destruct n as [|n]; [cbn [spaces repeat]; rewrite app_nil_r; lia|].
  change (spaces (S n)) with (32%N :: spaces n).
  rewrite rune_count_app_noncont by (unfold noncont; lia).
  change (32%N :: spaces n) with (spaces (S n)).
  rewrite <- (app_nil_r (spaces (S n))), rc_spaces, rune_count_nil. lia.
Qed.

(* the description text of an option row: description, default value, environment variable *)
Definition help_desc (cfg : pconfig) (r : rt) (o : opt) (ns envns : list str) (g : group) : str :=
  let def := match o_mask o with
             | [] => f_deflit (rt_fl r (o_fid o))
             | m => if str_eqb m (s2l "-") then [] else m
             end in
  let ek := env_key (pc_envdelim cfg) (oc_of o ns envns g) in
  let envdef := (if nonempty ek then s2l " [$" ++ ek ++ s2l "]" else [])%N in
  (if nonempty def then o_desc o ++ s2l " (default: " ++ def ++ s2l ")" ++ envdef else o_desc o ++ envdef)%N.

(* how wrap_text puts the wrapped input lines together: a newline, then the prefix unless the
   next wrapped line is empty (and nothing at all while the result is still empty) *)
Definition glue_line (prefix ret w : str) : str :=
  ((if nonempty ret then ret ++ [10] ++ (if nonempty w then prefix else []) else ret) ++ w)%N.

Lemma wrap_lines_fold l prefix : forall lines ret,
  wrap_lines lines l prefix ret = fold_left (glue_line prefix) (map (fun ln => wrap_line ln l prefix) lines) ret.
Proof. induction lines as [|ln lines IH]; intros ret; [reflexivity|]. cbn [wrap_lines map fold_left]. apply IH. Qed.

Lemma split_fuel_no_sep c : forall f s cur, ~ In c s -> split_fuel f s [c] cur = [rev cur ++ s].
Proof.
  induction f as [|f IH]; intros s cur Hc; [reflexivity|]. cbn [split_fuel].
  destruct s as [|x s]; [now rewrite app_nil_r|].
  cbn [has_prefix]. destruct (N.eqb_spec x c) as [->|Hne]; [exfalso; apply Hc; now left|].
  cbn [andb]. rewrite IH by (intros K; apply Hc; now right). cbn [rev]. now rewrite <- app_assoc.
Qed.

Lemma split_no_sep c s : ~ In c s -> Str.split s [c] = [s].
Proof. intros H. unfold Str.split. now rewrite split_fuel_no_sep. Qed.

(* ------------------------------------------------------------------ TARGET 4 statement *)
(* For a record that dominates the option (the three premises hold at every row site of
   write_help_rows, C17_indent_consistent (5); no UTF-8 validity is needed) and a non-empty
   description, with col = description_start a + 2:
   - the row is  line2 ++ pad ++ wrapped description ++ "\n"  with pad = col - |line2| >= 1 spaces;
   - line2 ++ pad is exactly col characters wide: the description starts in column col,
     which depends on the record only, not on the option;
   - the description is wrapped to a width >= 10 with the prefix spaces col: each input line
     of the description becomes non-empty pieces of at most that width joined by
     "\n" ++ spaces col, and the wrapped input lines are put together by glue_line;
   - in particular for a description text without line break every continuation line of the
     row is spaces col followed by a non-empty piece. *)
Theorem C17_common_column : forall cfg r o ns envns g a,
  rune_count (long_with_ns (pc_nsdelim cfg) ns (o_long o) ++ o_valname o ++ choices_text o)
    + (if al_indent a then 4 else 0) <= al_maxlong a ->
  (o_short o <> 0%N -> al_hasshort a = true) ->
  (o_valname o <> [] -> al_hasvalname a = true) ->
  o_desc o <> [] ->
  let col := description_start a + 2 in
  let line2 := help_line2 cfg o ns a in
  let pad := spaces (col - rune_count line2) in
  let desc := help_desc cfg r o ns envns g in
  let width := if (cols cfg - Z.of_nat col <? 10)%Z then 10 else Z.to_nat (cols cfg - Z.of_nat col) in
  help_option cfg r o ns envns g a =
    Ok (line2 ++ pad ++ wrap_text desc (cols cfg - Z.of_nat col) (spaces col) ++ [10%N]) /\
  rune_count line2 < col /\
  rune_count (line2 ++ pad) = col /\
  10 <= width /\
  wrap_text desc (cols cfg - Z.of_nat col) (spaces col) =
    fold_left (glue_line (spaces col)) (map (fun ln => wrap_line ln width (spaces col)) (Str.split desc [10%N])) [] /\
  (forall ln, exists pieces,
      wrap_line ln width (spaces col) = join pieces ([10%N] ++ spaces col) /\
      Forall (fun p => p <> []) pieces /\ Forall (piece_ok width) pieces) /\
  (~ In 10%N desc -> exists pieces,
      help_option cfg r o ns envns g a = Ok (line2 ++ pad ++ join pieces ([10%N] ++ spaces col) ++ [10%N]) /\
      Forall (fun p => p <> []) pieces /\ Forall (piece_ok width) pieces).
Proof.
  intros cfg r o ns envns g a Hdom Hshort Hval Hdesc col line2 pad desc width.
  pose proof (help_written_le_any cfg o ns a Hdom Hshort Hval) as Hle. fold line2 col in Hle.
  assert (Hw : 10 <= width) by apply wrap_text_width_ge_10.
  assert (Heq : help_option cfg r o ns envns g a =
                Ok (line2 ++ pad ++ wrap_text desc (cols cfg - Z.of_nat col) (spaces col) ++ [10%N])).
  { rewrite help_option_eq. unfold desc, help_desc. fold line2 col.
    destruct (o_desc o) as [|d0 d] eqn:Hd; [congruence|].
    unfold repeat_space.
    destruct (Z.ltb_spec (Z.of_nat col - Z.of_nat (rune_count line2)) 0) as [Hn|Hn]; [lia|].
    cbv zeta. unfold pad. do 3 f_equal. f_equal. lia. }
  assert (Hpieces : forall ln, exists pieces,
             wrap_line ln width (spaces col) = join pieces ([10%N] ++ spaces col) /\
             Forall (fun p => p <> []) pieces /\ Forall (piece_ok width) pieces).
  { intros ln. destruct (C17_wrap_width ln width (spaces col) ltac:(lia)) as (ps & _ & H1 & H2 & H3). eauto. }
  split; [exact Heq|]. split; [lia|]. split; [unfold pad; rewrite rc_app_spaces; lia|].
  split; [exact Hw|]. split; [rewrite wrap_text_eq; apply wrap_lines_fold|]. split; [exact Hpieces|].
  intros Hnl. destruct (Hpieces desc) as (ps & H1 & H2 & H3). exists ps. split; [|auto].
  rewrite Heq, wrap_text_eq, (split_no_sep 10%N desc Hnl). cbn [wrap_lines nonempty]. fold width.
  cbn [app]. now rewrite H1.
Qed.

(* all rows of one help text share the column: at every option-row site the column is that of
   the computed alignment, and the argument rows are padded to the same column *)
Corollary C17_common_column_help : forall cfg root r,
  (forall p c g ns envns o a, help_opt_site cfg root r p c g ns envns o a ->
     description_start a + 2 = description_start (help_align cfg root r) + 2) /\
  (forall p c ar dstart, help_arg_site cfg root r p c ar dstart ->
     dstart = description_start (help_align cfg root r) + 2 /\
     arg_pad ar dstart = Some (spaces (dstart - rune_count (s2l "  " ++ a_name ar ++ s2l ":"))) /\
     rune_count ((s2l "  " ++ a_name ar ++ s2l ":") ++ spaces (dstart - rune_count (s2l "  " ++ a_name ar ++ s2l ":"))) = dstart).
Proof.
  intros cfg root r. split.
  - intros p c g ns envns o a (_ & _ & _ & _ & _ & _ & Hc & _). now rewrite (description_start_cols a _ Hc).
  - intros p c ar dstart Hs.
    pose proof (site_arg_dominated cfg (help_chain root r) align0 p c ar dstart Hs) as Hlt.
    split; [apply Hs|]. split.
    + unfold arg_pad, repeat_space.
      destruct (Z.ltb_spec (Z.of_nat dstart - Z.of_nat (rune_count (s2l "  " ++ a_name ar ++ s2l ":"))) 0); [lia|].
      do 2 f_equal. lia.
    + rewrite rc_app_spaces. lia.
Qed.

(* ================================================================== instances *)
Module SafeSample.
  Import HelpSpec.Sample.

  (* TARGET 1 on the sample of HelpSpec (root "app" with the active sub-command "add"): the
     computed record, and the domination of an option of the sub-command ("force" + 4) *)
  Example sample_align :
    help_align cfg root r1 = {| al_maxlong := 9; al_hasshort := true; al_hasvalname := false; al_indent := false |}.
  Proof. vm_compute. reflexivity. Qed.
  Example sample_dominates_premises :
    In ([0], c_add) (help_chain root r1) /\
    In (cmd_group c_add, [[]], [[]]) (cmd_group_ctxs c_add) /\
    group_show_in_help (cmd_group c_add) = true /\ In o_force (grp_opts (cmd_group c_add)) /\
    opt_show_in_help o_force = true /\ In a_file (cmd_args c_add) /\
    rune_count (long_with_ns (pc_nsdelim cfg) [[]] (o_long o_force) ++ o_valname o_force ++ choices_text o_force) + 4 = 9 /\
    rune_count (a_name a_file) + 4 = 8.
  Proof. vm_compute. repeat split; tauto. Qed.

  (* TARGET 2: row sites exist (the statement is not vacuous): the row of "force" is laid out
     with the indent flag on, the row of "password" of the root with the flag off *)
  Example sample_site_sub :
    help_opt_site cfg root r1 [0] c_add (cmd_group c_add) [[]] [[]] o_force (set_indent (help_align cfg root r1)).
  Proof.
    unfold help_opt_site, opt_site. rewrite sample_align.
    repeat split; try reflexivity; try discriminate; vm_compute; tauto.
  Qed.
  Example sample_site_root :
    help_opt_site cfg root r1 [] root g_root [[]] [[]] o_pass (help_align cfg root r1).
  Proof.
    unfold help_opt_site, opt_site. rewrite sample_align.
    repeat split; try reflexivity; try discriminate; vm_compute; tauto.
  Qed.
  Example sample_arg_site :
    help_arg_site cfg root r1 [0] c_add a_file (description_start (help_align cfg root r1) + 2).
  Proof. unfold help_arg_site, arg_site. repeat split; vm_compute; tauto. Qed.

  (* TARGET 3 on the sample *)
  Example sample_no_panic : exists out rows, write_help_rows cfg root r1 = Ok (out, rows).
  Proof. eexists. eexists. vm_compute. reflexivity. Qed.

  (* the hypotheses of the corollary in the form of the task description are satisfiable *)
  Example sample_names_valid :
    (forall p c g ns envns o,
        In (p, c) (help_chain root r1) -> In (g, ns, envns) (cmd_group_ctxs c) ->
        g_hidden (grp_info g) = false -> In o (grp_opts g) -> opt_show_in_help o = true ->
        valid_utf8 (long_with_ns (pc_nsdelim cfg) ns (o_long o)) = true) /\
    (forall p c ar, In (p, c) (help_chain root r1) -> In ar (cmd_args c) -> valid_utf8 (a_name ar) = true).
  Proof.
    assert (B : forallb (fun pc : list nat * command =>
                  forallb (fun gc : group * list str * list str =>
                             forallb (fun o => valid_utf8 (long_with_ns (pc_nsdelim cfg) (snd (fst gc)) (o_long o)))
                                     (grp_opts (fst (fst gc))))
                          (cmd_group_ctxs (snd pc)) &&
                  forallb (fun ar : arg => valid_utf8 (a_name ar)) (cmd_args (snd pc)))
                (help_chain root r1) = true) by (vm_compute; reflexivity).
    rewrite forallb_forall in B. split.
    - intros p c g ns envns o Hpc Hg _ Ho _. specialize (B (p, c) Hpc). apply andb_true_iff in B. destruct B as [B _].
      rewrite forallb_forall in B. specialize (B (g, ns, envns) Hg). rewrite forallb_forall in B. exact (B o Ho).
    - intros p c ar Hpc Har. specialize (B (p, c) Hpc). apply andb_true_iff in B. destruct B as [_ B].
      rewrite forallb_forall in B. exact (B ar Har).
  Qed.

  (* Names that are not valid UTF-8: the long name ends with the first byte of a 4-byte
     sequence and the value name consists of its three continuation bytes, so the alignment
     pass counts ONE character for name ++ value name while the row shows 1 + 1 + 3.  The
     validity hypothesis of WrapSpec.C17_no_negative_padding_option fails, and the padding
     shrinks to a single space, but help generation still succeeds. *)
  Definition o_bad : opt :=
    {| o_fid := 1; o_field := []; o_short := 120; o_long := [240%N]; o_desc := s2l "d";
       o_default := []; o_envkey := []; o_envdelim := []; o_optional := false; o_optval := [];
       o_required := false; o_valname := [159; 152; 128]%N; o_mask := []; o_choices := []; o_hidden := false;
       o_ininame := []; o_noini := false; o_unquote := true; o_base := []; o_ty := TScalar KString;
       o_is_help := false |}.
  Definition bad_root : command := Command (mkci (s2l "app") false) (Group (mkgi (s2l "Application Options") false) [o_bad] []) [] [].
  Definition r0 : rt := {| rt_vals := fun _ => VStr []; rt_fl := fun _ => oflags0; rt_active := []; rt_logs := logs0 |}.

  Example bad_names_invalid : valid_utf8 (long_with_ns (pc_nsdelim cfg) [[]] (o_long o_bad)) = false.
  Proof. vm_compute. reflexivity. Qed.
  Example bad_names_align : al_maxlong (help_align cfg bad_root r0) = 1.
  Proof. vm_compute. reflexivity. Qed.
  Example bad_names_row :
    let a := help_align cfg bad_root r0 in
    rune_count (help_line2 cfg o_bad [[]] a) = 13 /\ description_start a + 2 = 14 /\
    exists out rows, write_help_rows cfg bad_root r0 = Ok (out, rows).
  Proof. split; [vm_compute; reflexivity|]. split; [vm_compute; reflexivity|]. eexists. eexists. vm_compute. reflexivity. Qed.

  (* TARGET 4: the premises are satisfiable (the instance of WrapSpec), and the column *)
  Example common_column_premises :
    rune_count (long_with_ns (pc_nsdelim cfg) [] (o_long example_opt) ++ o_valname example_opt ++ choices_text example_opt)
      + (if al_indent example_align then 4 else 0) <= al_maxlong example_align /\
    (o_short example_opt <> 0%N -> al_hasshort example_align = true) /\
    (o_valname example_opt <> [] -> al_hasvalname example_align = true) /\
    o_desc example_opt <> [] /\ ~ In 10%N (help_desc cfg r1 example_opt [] [] g_root) /\
    description_start example_align + 2 = 25.
  Proof.
    split; [vm_compute; lia|]. split; [reflexivity|]. split; [reflexivity|]. split; [discriminate|].
    split; [|reflexivity]. vm_compute. intuition discriminate.
  Qed.
  Example common_column_row :
    help_option cfg r1 example_opt [] [] g_root example_align =
    Ok (s2l "  -v, --verbose=LEVEL    Show verbose debug information" ++ [10%N]).
  Proof. vm_compute. reflexivity. Qed.
End SafeSample.

(* ================================================================== assumptions *)
Print Assumptions C17_align_dominates.
Print Assumptions C17_indent_consistent.
Print Assumptions C17_no_negative_padding_any_names.
Print Assumptions C17_write_help_never_panics.
Print Assumptions C17_write_help_never_panics_valid.
Print Assumptions C17_common_column.
Print Assumptions C17_common_column_help.
Print Assumptions rune_count_app_le3.
